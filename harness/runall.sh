#!/bin/sh
# Run every claimed check's quick (or $1) tier against /repo, sequentially; summary at the end.
cd "$(dirname "$0")/.." || exit 1
TIER="${1:-quick}"
for id in $(/venv/bin/python -c "import json;print(' '.join(c['property_id'] for c in json.load(open('MANIFEST.json'))['checks']))"); do
  s=$(date +%s)
  out=$(./vcheck "$id" --tier "$TIER" 2>&1); rc=$?
  e=$(date +%s)
  echo "$id rc=$rc $((e-s))s $(echo "$out" | grep -c '^KNOWN-FINDING') known $(echo "$out" | grep -c '^VIOLATION') violations"
  [ $rc -ne 0 ] && echo "$out" | tail -5
done
