"""Running IR three ways and printing the result in ONE canonical form
(the reply format of lean/Drivers/IR.lean, see notes/IR.md):

    ret=<v> globals=<name>=<hex>,… trace=<name>(<v>,…)=<v>;…

* `spec_requests(gen, cases, fuel)`   request lines for the Spec.IR driver (load/wf/run)
* `run_ir2py(gen, entry, args)`       ppci's IR->Python backend (ppci.lang.python.ir_to_python), in-process
* `native_results(gen, cases)`        ppci's x86-64 code generator + ppci.utils.codepage, in a forked child
                                      (a crash of generated machine code cannot take the harness down)

External functions are given the same fixed oracle as the driver:
    result = wrap(return type, 13 + Σ_i (i+2)·arg_i)
"""
import ctypes
import io
import multiprocessing
import struct

from ppci import ir

from . import irser

HEAP_START = 0x10000000


# ---- canonical values -------------------------------------------------------------

def wrap(t, v):
    if t is ir.ptr:
        return v % (1 << 64)
    v %= 1 << t.bits
    if t.signed and v >= 1 << (t.bits - 1):
        v -= 1 << t.bits
    return v


def float_bits(x):
    return struct.unpack("<Q", struct.pack("<d", float(x)))[0]


def show_val(t, v):
    if v is None:
        return "none"
    if t in (ir.f64, ir.f32) or isinstance(v, float):
        return f"f:{float_bits(v)}"
    return str(int(v))


def show_arg(t, v):
    return show_val(t, v)


def oracle(rt, args):
    r = 13
    for i, a in enumerate(args):
        r += (i + 2) * int(a)
    return wrap(rt, r) if rt is not None else None


def canon(ret, globs, trace):
    g = ",".join(f"{n}={bytes(b).hex() if b else '-'}" for n, b in globs) or "-"
    t = ";".join(f"{n}({','.join(str(int(a)) for a in args)})={'none' if r is None else r}" for n, args, r in trace) or "-"
    return f"ret={ret} globals={g} trace={t}"


def strip_steps(reply):
    """driver reply without the trailing ` steps=n`"""
    parts = reply.split(" ")
    if parts and parts[-1].startswith("steps="):
        parts = parts[:-1]
    return " ".join(parts)


def steps_of(reply):
    last = reply.rsplit(" ", 1)[-1]
    return int(last[6:]) if last.startswith("steps=") else None


def same_modulo_undef(spec_reply, other):
    """compare canonical strings; bytes the spec leaves undefined (`uu`) match anything"""
    if spec_reply == other:
        return True
    if "uu" not in spec_reply or len(spec_reply) != len(other):
        return False
    i = 0
    while i < len(spec_reply):
        if spec_reply[i] != other[i]:
            if spec_reply[i:i + 2] == "uu":
                i += 2
                continue
            if i > 0 and spec_reply[i - 1:i + 1] == "uu":
                i += 1
                continue
            return False
        i += 1
    return True


def pointer_globals(module):
    """globals whose initialiser contains an address: their bytes are layout dependent"""
    return {v.name for v in module.variables
            if v.value and any(not isinstance(p, (bytes, bytearray)) for p in v.value)}


def mask_globals(reply, names):
    """replace the bytes of the named globals by `*` in a canonical string"""
    if not names or " globals=" not in reply:
        return reply
    head, rest = reply.split(" globals=", 1)
    g, tail = rest.split(" ", 1) if " " in rest else (rest, "")
    items = []
    for kv in g.split(","):
        n = kv.split("=", 1)[0]
        items.append(f"{n}=*" if n in names else kv)
    return head + " globals=" + ",".join(items) + (" " + tail if tail else "")


# ---- Spec.IR through the driver -----------------------------------------------------

def spec_requests(gen, cases, fuel=200000, ptr=None, text=None):
    """lines: [config] load, wf, then one `run` per (entry, args) case"""
    lines = []
    if ptr is not None:
        lines.append(f"config ptr {ptr}")
    lines.append("load " + (text or irser.serialize(gen.module)))
    lines.append("wf")
    for e, args in cases:
        a = " ".join(show_arg(t, v) for t, v in zip(e.params, args))
        lines.append(f"run {e.name} {fuel}{' ' if a else ''}{a}")
    return lines


# ---- ir2py ----------------------------------------------------------------------------

class Ir2Py:
    """the Python program ppci emits for a module, loaded once; `run` resets memory before each call"""

    def __init__(self, gen, runtime=True):
        from ppci.lang.python import ir_to_python
        self.gen = gen
        f = io.StringIO()
        ir_to_python([gen.module], f)
        self.code = f.getvalue()
        self.ns = {}
        exec(compile(self.code, "<ir2py>", "exec"), self.ns)
        self.rt = self.ns["rt"]
        self.heap0 = bytes(self.rt.heap)
        self.trace = []
        for name, ptypes, rt in gen.externals:
            self.rt.externals[name] = self._ext(name, ptypes, rt)

    def _ext(self, name, ptypes, rt):
        def f(*args):
            r = oracle(rt, args)
            self.trace.append((name, list(args), r))
            return r
        return f

    def run(self, entry, args):
        rt = self.rt
        rt.heap[:] = self.heap0
        del rt.stack[:]
        self.trace = []
        try:
            r = self.ns[entry.name](*args)
        except RecursionError:
            return "exception RecursionError"
        except Exception as e:  # noqa
            return f"exception {type(e).__name__}"
        globs = []
        for v in self.gen.module.variables:
            a = self.ns[v.name] - HEAP_START
            globs.append((v.name, bytes(rt.heap[a:a + v.amount])))
        ret = "none" if entry.ret is None else show_val(entry.ret, r)
        return canon(ret, globs, self.trace)


# ---- native x86-64 ------------------------------------------------------------------------

CT = {ir.i8: ctypes.c_int8, ir.i16: ctypes.c_int16, ir.i32: ctypes.c_int32, ir.i64: ctypes.c_int64,
      ir.u8: ctypes.c_uint8, ir.u16: ctypes.c_uint16, ir.u32: ctypes.c_uint32, ir.u64: ctypes.c_uint64,
      ir.f64: ctypes.c_double, ir.f32: ctypes.c_float, ir.ptr: ctypes.c_void_p}


def _native_child(gen, cases, conn):
    try:
        from ppci import api
        from ppci.utils import codepage
        orig = codepage.get_ctypes_type

        def get_ctypes_type(t):      # externals may have any integer type (wrapped from outside)
            if isinstance(t, ir.Typ) and t in CT:
                return CT[t]
            return orig(t)
        codepage.get_ctypes_type = get_ctypes_type
        trace = []
        imports = {}
        for name, ptypes, rt in gen.externals:
            def mk(name, ptypes, rt):
                def f(*args):
                    r = oracle(rt, args)
                    trace.append((name, [int(a) for a in args], r))
                    return 0 if r is None else r
                import inspect
                f.__signature__ = inspect.Signature(
                    [inspect.Parameter(f"a{i}", inspect.Parameter.POSITIONAL_ONLY, annotation=t)
                     for i, t in enumerate(ptypes)],
                    return_annotation=rt)
                return f
            imports[name] = mk(name, ptypes, rt)
        obj = api.ir_to_object([gen.module], "x86_64", debug=True)
        mod = codepage.load_obj(obj, imports=imports)
        syms = {s.name: s for s in mod._obj.symbols}
        dsize = mod._data_page.size
        data0 = ctypes.string_at(mod._data_page.addr, dsize) if dsize else b""
        conn.send(("compiled", None))
        for e, args in cases:
            addr = mod._obj.get_symbol_id_value(syms[e.name].id)
            ft = ctypes.CFUNCTYPE(CT[e.ret] if e.ret is not None else None, *[CT[t] for t in e.params])
            fn = ft(addr)
            if dsize:
                ctypes.memmove(mod._data_page.addr, data0, dsize)
            del trace[:]
            conn.send(("start", None))
            r = fn(*args)
            globs = []
            for v in gen.module.variables:
                a = mod._obj.get_symbol_id_value(syms[v.name].id)
                globs.append((v.name, ctypes.string_at(a, v.amount)))
            ret = "none" if e.ret is None else show_val(e.ret, r)
            conn.send(("result", canon(ret, globs, trace)))
        conn.send(("done", None))
    except BaseException as ex:  # noqa
        conn.send(("error", f"{type(ex).__name__}: {ex}"[:300]))
    finally:
        conn.close()


def native_results(gen, cases, timeout=60):
    """[canonical string | 'exception …' | 'crash'] per case, by ppci's own x86-64 output run in a forked child"""
    ctx = multiprocessing.get_context("fork")
    parent, child = ctx.Pipe(duplex=False)
    p = ctx.Process(target=_native_child, args=(gen, cases, child))
    p.start()
    child.close()
    out, compiled, err = [], False, None
    try:
        while True:
            if not parent.poll(timeout):
                err = "timeout"
                break
            try:
                kind, val = parent.recv()
            except EOFError:
                err = "crash"
                break
            if kind == "compiled":
                compiled = True
            elif kind == "result":
                out.append(val)
            elif kind == "error":
                err = "exception " + val
                break
            elif kind == "done":
                break
    finally:
        if p.is_alive():
            p.kill()
        p.join()
    if not compiled:
        err = "codegen " + (err or "crash")
    while len(out) < len(cases):
        out.append(err or "crash")
        err = "not-run" if err in ("crash", "timeout") else err
    return out


# ---- debugging aid: make every intermediate integer value observable ---------------------------

def instrument(gen, only=None):
    """Insert `probe(id, (i64) value)` external-procedure calls after every integer/pointer-free value
    of every (or the named) function, IN PLACE.  The external-call trace of any executor then lists
    the values in execution order, so the first diverging instruction can be read off.
    Returns {id: "func/block: instruction text"}."""
    m = gen.module
    probe = ir.ExternalProcedure("probe", [ir.i64, ir.i64])
    m.add_external(probe)
    gen.externals.append(("probe", [ir.i64, ir.i64], None))
    table, n = {}, 0
    for f in m.functions:
        if only and f.name not in only:
            continue
        for b in f.blocks:
            new = []
            pending = []
            for i in list(b.instructions):
                if not i.is_phi and pending:
                    new.extend(pending)
                    pending = []
                new.append(i)
                if isinstance(i, ir.LocalValue) and isinstance(i.ty, ir.IntegerTyp):
                    n += 1
                    table[n] = f"{f.name}/{b.name}: {i}"
                    idc = ir.Const(n, f"prb_id{n}", ir.i64)
                    v = i if i.ty is ir.i64 else ir.Cast(i, f"prb_v{n}", ir.i64)
                    call = ir.ProcedureCall(probe, [idc, v])
                    seq = [idc] + ([v] if v is not i else []) + [call]
                    if i.is_phi:
                        pending.extend(seq)
                    else:
                        new.extend(seq)
            for i in new:
                i.block = b
            b.instructions = new
            for i in new:
                if isinstance(i, ir.Value) and i.name.startswith("prb_"):
                    f.make_unique_name(i)
    return table
