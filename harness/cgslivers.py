"""Shared by harness/c04.py and harness/c05.py: the code-generator slivers

  * Frame.alloc (ppci/arch/stack.py)                         frame_alloc(ctx, drv, modes)
  * PeepHoleStream (ppci/codegen/peephole.py)                PeepCapture / peephole_check(ctx, drv, streams)
  * riscv constant materialisation                           riscv_consts(ctx, drv)
  * determine_arg_locations of arm / riscv                   arg_locations(ctx, drv)

Each check function returns `(request lines, finish)`: the lines go to the property's Lean driver (all parts in ONE
driver start, see `run_parts`), `finish(replies)` (a) compares the Lean model with the real implementation and
(b) evaluates the property itself on the real results with an independent Python check.
"""
import itertools


def run_parts(ctx, drv, parts):
    """parts = [(request lines, finish)]: one driver start for all of them"""
    lines = [l for reqs, _ in parts for l in reqs]
    out = ctx.driver(drv, lines) if lines else []
    k = 0
    for reqs, finish in parts:
        finish(out[k:k + len(reqs)])
        k += len(reqs)


# ------------------------------------------------------------------------------------------------
# Frame.alloc
# ------------------------------------------------------------------------------------------------

def _histories(ctx, n_random):
    rng = ctx.rng
    hs = [
        [(4, 4), (1, 1), (8, 8), (2, 2), (1, 1), (16, 16)],
        [(3, 1), (1, 4), (2, 4)],                 # BOTTOM before the repair: slot 2 overlaps slot 1
        [(1, 1), (2, 4), (6, 4), (1, 8)],         # BOTTOM before the repair: misaligned offsets
        [(1, 1), (8, 4), (12, 4), (1, 1), (4, 4)],
        [(5, 1), (0, 1), (3, 2), (2, 0), (7, 8)],  # ValueError / ZeroDivisionError in the middle
        [(1, 1)] * 9, [(8, 8)] * 5, [(3, 2), (3, 2), (3, 2)], [],
        [(1, 16), (1, 16)], [(100, 1), (1, 64), (3, 2)],
    ]
    sizes = [1, 1, 2, 3, 4, 4, 5, 7, 8, 8, 12, 16, 24, 100]
    aligns = [1, 1, 2, 4, 4, 8, 8, 16, 32]
    for _ in range(n_random):
        n = rng.randint(1, 12)
        h = []
        for _ in range(n):
            r = rng.random()
            if r < 0.03:
                h.append((0, rng.choice(aligns)))
            elif r < 0.05:
                h.append((rng.choice(sizes), 0))
            elif r < 0.5:
                a = rng.choice(aligns)
                h.append((a * rng.randint(1, 4), a))          # what C types look like: size a multiple of the alignment
            else:
                h.append((rng.choice(sizes), rng.choice(aligns)))
        hs.append(h)
    return hs


def real_alloc_history(mode, hist):
    from ppci.arch.stack import Frame, FramePointerLocation
    f = Frame("f", fp_location=FramePointerLocation.TOP if mode == "top" else FramePointerLocation.BOTTOM)
    out = []
    for size, al in hist:
        try:
            loc = f.alloc(size, al)
            out.append((loc.offset, loc.size))
        except Exception as e:  # noqa
            out.append(type(e).__name__)
    return f.stacksize, f.alignment, out


def _fmt_alloc(stacksize, alignment, slots):
    s = ",".join(f"{x[0]}:{x[1]}" if isinstance(x, tuple) else x for x in slots) or "-"
    return f"ok stacksize={stacksize} alignment={alignment} slots={s}"


def eval_slots(ctx, where, mode, hist, stacksize, alignment, slots, case):
    """the property on one real allocation history: slots pairwise disjoint, aligned, inside the frame"""
    ok = [(i, s, hist[i]) for i, s in enumerate(slots) if isinstance(s, tuple) and hist[i][0] > 0 and hist[i][1] > 0]
    for i, (off, size), (_, al) in ok:
        if off % al != 0:
            ctx.fail(f"{where}:{mode.upper()}:misaligned-slot",
                     f"Frame.alloc ({mode}) returned offset {off} for alignment {al} (call {i} of {hist})", case, slots=slots)
            break
    for (i, (o1, n1), _), (j, (o2, n2), _) in itertools.combinations(ok, 2):
        if not (o1 + n1 <= o2 or o2 + n2 <= o1):
            ctx.fail(f"{where}:{mode.upper()}:slots-overlap",
                     f"Frame.alloc ({mode}): slot {i} [{o1},{o1+n1}) and slot {j} [{o2},{o2+n2}) share bytes (history {hist})",
                     case, slots=slots)
            break
    for i, (off, size), _ in ok:
        inside = (-stacksize <= off and off + size <= 0) if mode == "top" else (0 <= off and off + size <= stacksize)
        if not inside:
            ctx.fail(f"{where}:{mode.upper()}:slot-outside-frame",
                     f"Frame.alloc ({mode}): slot {i} [{off},{off+size}) is not inside the frame of size {stacksize}", case, slots=slots)
            break
    if ok and alignment < max(al for _, _, (_, al) in ok):
        ctx.fail(f"{where}:{mode.upper()}:frame-alignment-too-small",
                 f"Frame.alignment = {alignment} after history {hist}", case)


def frame_alloc(ctx, modes=("top", "bottom"), n_random=None):
    """-> (request lines, finish(replies))"""
    n_random = n_random if n_random is not None else (1500 if ctx.thorough else 150)
    hs = _histories(ctx, n_random)
    reqs, impl, meta = [], [], []
    for mode in modes:
        for h in hs:
            stacksize, alignment, slots = real_alloc_history(mode, h)
            reqs.append(f"alloc {mode} " + (",".join(f"{a}:{b}" for a, b in h) or "-"))
            impl.append(_fmt_alloc(stacksize, alignment, slots))
            meta.append((mode, h, stacksize, alignment, slots))

    def finish(out):
        for rq, i, m, (mode, h, stacksize, alignment, slots) in zip(reqs, impl, out, meta):
            ctx.count("eval_frame_alloc_" + mode)
            if len(h) > 2:
                ctx.nontrivial(rq)
            if i != m:
                ctx.disagree("Frame.alloc", rq, i, m)
            eval_slots(ctx, "Frame.alloc", mode, h, stacksize, alignment, slots, {"mode": mode, "history": h})
        ctx.sample({"request": reqs[1], "impl": impl[1], "model": out[1]})
    return reqs, finish


class AllocCapture:
    """records every Frame.alloc call (per Frame object) made while real code is being compiled"""

    def __init__(self):
        self.frames = {}

    def __enter__(self):
        from ppci.arch import stack
        self._stack = stack
        self._orig = orig = stack.Frame.alloc
        frames = self.frames

        def alloc(frame, size, alignment):
            loc = orig(frame, size, alignment)
            frames.setdefault(id(frame), (frame, []))[1].append((size, alignment, loc.offset, loc.size))
            return loc
        stack.Frame.alloc = alloc
        return self

    def __exit__(self, *a):
        self._stack.Frame.alloc = self._orig

    def histories(self):
        from ppci.arch.stack import FramePointerLocation
        for frame, calls in self.frames.values():
            mode = "top" if frame.fp_location == FramePointerLocation.TOP else "bottom"
            yield frame.name, mode, [(c[0], c[1]) for c in calls], [(c[2], c[3]) for c in calls], frame.stacksize, frame.alignment


def captured_frames_check(ctx, cap, tag):
    """model correspondence + property for the Frame.alloc histories captured while compiling -> (reqs, finish)"""
    items = list(cap.histories())
    reqs = [f"alloc {mode} " + (",".join(f"{a}:{b}" for a, b in h) or "-") for _, mode, h, _, _, _ in items]

    def finish(out):
        for (name, mode, h, slots, stacksize, alignment), rq, m in zip(items, reqs, out):
            ctx.count("eval_captured_frame_alloc")
            if len(h) > 1:
                ctx.nontrivial(("frame", tag, name, tuple(h)))
            i = _fmt_alloc(stacksize, alignment, slots)
            if i != m:
                ctx.disagree(f"Frame.alloc (captured, {tag})", rq, i, m)
            eval_slots(ctx, "Frame.alloc", mode, h, stacksize, alignment, slots, {"mode": mode, "history": h, "frame": name, "from": tag})
    return reqs, finish


# ------------------------------------------------------------------------------------------------
# PeepHoleStream
# ------------------------------------------------------------------------------------------------

class PeepCapture:
    """records, for every PeepHoleStream created while real code is compiled, the items handed to
    do_emit and the items that reach the downstream stream (wrapped from outside, restored on exit)"""

    def __init__(self):
        self.streams = []

    def __enter__(self):
        from ppci.codegen import peephole
        self._cls = cls = peephole.PeepHoleStream
        self._orig_init, self._orig_emit = cls.__init__, cls.do_emit
        streams = self.streams
        orig_init, orig_emit = self._orig_init, self._orig_emit

        class Tap:
            def __init__(self, down, rec):
                self.down, self.rec = down, rec

            def emit(self, item):
                self.rec["out"].append(item)
                self.down.emit(item)

            def __getattr__(self, name):
                return getattr(self.down, name)

        def init(stream, downstream):
            rec = {"in": [], "out": []}
            streams.append(rec)
            stream._c04_rec = rec
            orig_init(stream, Tap(downstream, rec))

        def do_emit(stream, item):
            stream._c04_rec["in"].append(item)
            orig_emit(stream, item)
        cls.__init__ = init
        cls.do_emit = do_emit
        return self

    def __exit__(self, *a):
        self._cls.__init__ = self._orig_init
        self._cls.do_emit = self._orig_emit


def abstract_stream(items):
    """L<n> | J<n> | O<k>: Label, an item with an `effect` method that is not a label (the x86-64 NearJump), anything else"""
    from ppci.arch.generic_instructions import Label
    names, toks = {}, []
    for k, it in enumerate(items):
        if isinstance(it, Label):
            toks.append(f"L{names.setdefault(it.name, len(names))}")
        elif hasattr(it, "effect"):
            eff = it.effect()
            if len(eff) == 1 and eff[0][0] == "set" and eff[0][1] == "pc":
                toks.append(f"J{names.setdefault(eff[0][2], len(names))}")
            else:
                raise ValueError(f"unmodelled effect {eff!r} of {it!r}")
        else:
            toks.append(f"O{k}")
    return toks


def peephole_check(ctx, streams, tag, expect_identity=False):
    """streams = PeepCapture().streams.  Model correspondence and the property on the real streams:
    the output is the input minus some items; every dropped item is an unconditional jump whose
    target label is the item that follows it (after other dropped jumps to the same label) and that label
    is defined once; or it is followed by another jump to the same target."""
    from ppci.arch.generic_instructions import Label
    reqs, idx = [], []
    for n, rec in enumerate(streams):
        if not rec["in"]:
            continue
        try:
            toks = abstract_stream(rec["in"])
        except ValueError as e:
            ctx.disagree("PeepHoleStream", tag, str(e), "only set-pc effects are modelled")
            continue
        reqs.append("peep " + ",".join(toks))
        idx.append((n, toks))

    def finish(out):
        for (n, toks), rq, m in zip(idx, reqs, out):
            rec = streams[n]
            ins, outs = rec["in"], rec["out"]
            ctx.count("eval_peephole_stream")
            # which input positions survived (by object identity, in order)
            kept, j = [], 0
            for i, it in enumerate(ins):
                if j < len(outs) and outs[j] is it:
                    kept.append(i)
                    j += 1
            case = {"from": tag, "stream": n, "items": len(ins)}
            if j != len(outs):
                ctx.fail("peephole:output-not-a-subsequence", f"{tag}: downstream received items that were never emitted / out of order", case)
                continue
            impl = "ok " + (",".join(toks[i] for i in kept) or "-") + " fn=1"
            if impl != m:
                ctx.disagree(f"PeepHoleStream ({tag})", rq[:300], impl[:300], m[:300])
            dropped = [i for i in range(len(ins)) if i not in set(kept)]
            if dropped:
                ctx.nontrivial(("peep", tag, n, len(dropped)))
                ctx.count("peephole_dropped_items", len(dropped))
            if expect_identity and dropped:
                ctx.fail("peephole:non-x86-stream-changed", f"{tag}: {len(dropped)} items dropped although no instruction has an effect()", case)
            labels = [it.name for it in ins if isinstance(it, Label)]
            for i in dropped:
                a = ins[i]
                if isinstance(a, Label) or not hasattr(a, "effect"):
                    ctx.fail("peephole:dropped-non-jump", f"{tag}: dropped {a!r}", case, index=i)
                    break
                tgt = a.effect()[0][2]
                if i + 1 >= len(ins):
                    ctx.fail("peephole:dropped-last-item", f"{tag}: dropped {a!r} at the end of the stream", case, index=i)
                    break
                b = ins[i + 1]
                if isinstance(b, Label):
                    if b.name != tgt:
                        ctx.fail("peephole:dropped-jump-to-other-label", f"{tag}: dropped {a!r} in front of {b!r}", case, index=i)
                        break
                    if labels.count(tgt) != 1 and rec.get("unique", True):
                        ctx.fail("peephole:dropped-jump-to-duplicated-label", f"{tag}: dropped {a!r}, label {tgt} is defined {labels.count(tgt)} times", case, index=i)
                        break
                elif hasattr(b, "effect") and b.effect() == a.effect():
                    pass
                else:
                    ctx.fail("peephole:dropped-jump-not-followed-by-target", f"{tag}: dropped {a!r} in front of {b!r}", case, index=i)
                    break
    return reqs, finish


def synthetic_peephole(ctx, n):
    """random item streams through the REAL PeepHoleStream (x86-64 NearJump + Label + other instructions)"""
    from ppci.codegen.peephole import PeepHoleStream
    from ppci.arch.generic_instructions import Label, Comment
    from ppci.arch.x86_64.instructions import NearJump
    from ppci.binutils.outstream import OutputStream

    class Sink(OutputStream):
        def __init__(self):
            self.items = []

        def do_emit(self, item):
            self.items.append(item)
    rng = ctx.rng
    fixed = ["J0,L0", "J0,J0,L0", "J0,J0,J0", "L0,J0", "J0,L1,L0", "J0,O,L0", "J1,J0,L0", "L0,L0", "J0", "L0", "",
             "J0,J0,J1,L1,J0,L0,O,J2"]
    streams = []
    for k in range(n):
        if k < len(fixed):
            spec = [t for t in fixed[k].split(",") if t]
        else:
            spec = []
            for _ in range(rng.randint(0, 14)):
                r = rng.random()
                spec.append(f"J{rng.randint(0, 3)}" if r < 0.45 else f"L{rng.randint(0, 3)}" if r < 0.8 else "O")
        items = []
        names = {"0": "f_block1", "1": "f_block10", "2": "F_block1", "3": "f_block"}      # prefixes / case variants of each other
        for t in spec:
            nm = names.get(t[1:], "l" + t[1:])
            items.append(Label(nm) if t[0] == "L" else NearJump(nm) if t[0] == "J" else Comment("x"))
        sink = Sink()
        ps = PeepHoleStream(sink)
        for it in items:
            ps.emit(it)
        ps.flush()
        streams.append({"in": items, "out": sink.items, "unique": len({i.name for i in items if isinstance(i, Label)}) == sum(isinstance(i, Label) for i in items)})
    return streams


# ------------------------------------------------------------------------------------------------
# riscv constants
# ------------------------------------------------------------------------------------------------

CONST_RANGES = {"CONSTI8": (-128, 127), "CONSTU8": (0, 255), "CONSTI16": (-2 ** 15, 2 ** 15 - 1), "CONSTU16": (0, 2 ** 16 - 1),
                "CONSTI32": (-2 ** 31, 2 ** 31 - 1), "CONSTU32": (0, 2 ** 32 - 1)}
MODEL_KIND = {"pattern_const_i32": "li", "pattern_consti32": "cli", "pattern_consti32_2": "clui"}


def const_values(ctx):
    rng = ctx.rng
    vs = set()
    for k in range(0, 33):
        for d in (-2, -1, 0, 1, 2):
            vs.add((1 << k) + d)
            vs.add(-(1 << k) + d)
    for base in (0x800, 0x1000, 0x1F800, 0x20000, 0x20800, 0x7FFFF800, 0x80000000, 0xFFFFF800, 0xFFFFFFFF, 0x7FF, 0xFFF):
        for d in range(-3, 4):
            vs.add(base + d)
            vs.add(-base + d)
    vs.update(range(-40, 41))
    for _ in range(3000 if ctx.thorough else 60):
        b = rng.randint(1, 32)
        v = rng.getrandbits(b)
        vs.add(v)
        vs.add(-v)
        vs.add(v | 0x800)
        vs.add(v & ~0x800)
    return sorted(vs)


def riscv_consts(ctx):
    """every CONST* leaf pattern of the riscv back-ends whose condition accepts a value is run on a stub context;
    the emitted instructions are encoded by ppci, decoded and executed by Spec.RV32 in the driver"""
    from ppci.api import get_arch
    from ppci.utils.tree import Tree
    from ppci.arch.riscv import registers as R
    from ppci.arch.generic_instructions import ArtificialInstruction
    vals = const_values(ctx)
    reqs, meta = [], []
    for march in ("riscv", "riscv:rvc"):
        arch = get_arch(march)
        pats = [p for p in arch.isa.patterns if p.tree.name in CONST_RANGES and not p.tree.children and p.non_term == "reg"]
        for p in pats:
            lo, hi = CONST_RANGES[p.tree.name]
            kind = MODEL_KIND.get(p.method.__name__)
            for v in vals:
                if not lo <= v <= hi:
                    continue
                tree = Tree(p.tree.name, value=v)
                try:
                    applies = p.condition is None or bool(p.condition(tree))
                except Exception as e:  # noqa
                    ctx.fail(f"riscv-const:{march}:{p.method.__name__}:condition-raises", f"{type(e).__name__} for {tree}", {"march": march, "tree": str(tree)})
                    continue
                if kind == "clui":
                    reqs.append(f"const clui 10 {v}")
                    meta.append(("cond", march, p, v, applies, None))
                if not applies:
                    continue
                rd = ctx.rng.choice([R.R10, R.R11, R.R5, R.R15, R.R31]) if kind != "clui" else ctx.rng.choice([R.R10, R.R9, R.R15])

                class Stub:
                    def __init__(self):
                        self.ins = []

                    def new_reg(self, cls):
                        return rd

                    def emit(self, i):
                        self.ins.append(i)
                        return i
                stub = Stub()
                try:
                    res = p.method(stub, tree)
                    code = bytearray()
                    flat = []
                    for i in stub.ins:
                        flat.extend(i.render() if isinstance(i, ArtificialInstruction) else [i])
                    for i in flat:
                        code += i.encode()
                except Exception as e:  # noqa
                    ctx.fail(f"riscv-const:{march}:{p.method.__name__}:raises",
                             f"{p.tree.name}[{v}] is accepted by the pattern condition but materialising it raised {type(e).__name__}: {e}",
                             {"march": march, "tree": str(tree)})
                    continue
                reqs.append(f"dex {rd.num} {bytes(code).hex()}")
                meta.append(("dex", march, p, v, rd.num, kind))
                if kind:
                    reqs.append(f"const {kind} {rd.num} {v}")
                    meta.append(("model", march, p, v, rd.num, kind))

    def finish(out):
        last_dex = None
        for rq, rep, (what, march, p, v, x, kind) in zip(reqs, out, meta):
            name = p.method.__name__
            case = {"march": march, "pattern": name, "tree": f"{p.tree.name}[{v}]"}
            if what == "cond":
                ctx.count("eval_riscv_const_condition")
                mc = rep.rsplit("cond=", 1)[-1] == "1"
                if mc != x:
                    ctx.disagree("pattern_consti32_2 condition", case, x, mc)
            elif what == "dex":
                ctx.count("eval_riscv_const")
                ctx.nontrivial((march, name, p.tree.name, v))
                last_dex = rep
                if rep.startswith("ok undecodable"):
                    ctx.fail(f"riscv-const:{march}:{name}:undecodable", f"{p.tree.name}[{v}]: the emitted bytes {rq.split()[-1]} are not RV32IMC instructions ({rep})", case)
                    continue
                val = rep.split(" val=")[1].split(" ")[0]
                keep = rep.rsplit("keep=", 1)[-1]
                if val != str(v % (1 << 32)):
                    ctx.fail(f"riscv-const:{march}:{name}:wrong-value",
                             f"{p.tree.name}[{v}] materialised as `{rep[3:].split(' val=')[0]}` leaves {val} in the register, not {v % (1 << 32)}", case)
                elif keep != "1":
                    ctx.fail(f"riscv-const:{march}:{name}:side-effect", f"{p.tree.name}[{v}]: `{rep[3:].split(' val=')[0]}` changes more than the destination register", case)
            else:
                ctx.count("eval_riscv_const_model")
                mi = rep[3:].split(" val=")[0]
                ri = last_dex[3:].split(" val=")[0] if last_dex else "?"
                if mi != ri:
                    ctx.disagree(f"riscv constant ({name})", case, ri, mi)
        ctx.sample({"request": reqs[-2], "reply": out[-2]})
    return reqs, finish


# ------------------------------------------------------------------------------------------------
# determine_arg_locations (arm, riscv)
# ------------------------------------------------------------------------------------------------

def _arg_alphabet(arch):
    from ppci import ir
    tys = []
    for t in (ir.i8, ir.u8, ir.i16, ir.u16, ir.i32, ir.u32, ir.i64, ir.u64, ir.ptr, ir.f32, ir.f64):
        try:
            arch.info.get_size(t)
        except Exception:  # noqa  (type unknown to the target)
            continue
        tys.append(t)
    tys += [ir.BlobDataTyp(1, 1), ir.BlobDataTyp(12, 4), ir.BlobDataTyp(8, 8)]
    return tys


def _aty(arch, t):
    from ppci import ir
    if t.is_blob:
        return f"b{t.size}/{t.size}"
    k = "f" if t in (ir.f32, ir.f64) else "i"
    isz = arch.info.get_size(t)
    return f"{k}{getattr(t, 'size', isz)}/{isz}"


def arg_locations(ctx):
    from ppci.api import get_arch
    from ppci.arch.stack import StackLocation
    configs = [("arm", "arm", None), ("arm:thumb", "arm", None), ("riscv", "riscv", "0"), ("riscv:rvf", "riscv", "1"), ("riscv:rvc", "riscv", "0")]
    maxn = 4 if ctx.thorough else 3
    reqs, meta = [], []
    for march, fam, rvf in configs:
        arch = get_arch(march)
        alpha = _arg_alphabet(arch)
        sigs = [list(s) for n in range(0, maxn + 1) for s in itertools.product(alpha, repeat=n)]
        if march in ("arm:thumb", "riscv:rvc") and not ctx.thorough:
            sigs = [s for s in sigs if len(s) <= 2]
        for _ in range(600 if ctx.thorough else 120):
            sigs.append([ctx.rng.choice(alpha) for _ in range(ctx.rng.randint(5, 14))])
        from ppci import ir
        sigs.append([ir.f64] * 9)
        sigs.append([ir.f32] * 4 + [ir.f64] * 5 + [ir.i32] * 8)
        for sig in sigs:
            locs = arch.determine_arg_locations(sig)
            toks = []
            for l in locs:
                if isinstance(l, StackLocation):
                    toks.append(f"s{l.offset}:{l.size}")
                else:
                    toks.append(("f" if type(l).__name__.endswith("FRegister") else "r") + str(l.num))
            tys = ",".join(_aty(arch, t) for t in sig) or "-"
            reqs.append(f"args {fam} {tys}" if rvf is None else f"args {fam} {rvf} {tys}")
            meta.append((march, sig, locs, toks))

    def finish(out):
        for rq, rep, (march, sig, locs, toks) in zip(reqs, out, meta):
            ctx.count("eval_arg_locations_" + march.replace(":", "_"))
            if len(sig) > 4:
                ctx.nontrivial(rq)
            impl = "ok " + (",".join(toks) or "-")
            if rep.rsplit(" distinct=", 1)[0] != impl:
                ctx.disagree(f"determine_arg_locations ({march})", rq, impl, rep)
            # the property on the real locations
            case = {"march": march, "types": [str(t) for t in sig]}
            bad = None
            for (i, a), (j, b) in itertools.combinations(enumerate(locs), 2):
                sa, sb = isinstance(a, StackLocation), isinstance(b, StackLocation)
                if sa and sb:
                    if not (a.offset + a.size <= b.offset or b.offset + b.size <= a.offset):
                        bad = (i, j, "stack-slots-overlap")
                elif not sa and not sb:
                    if a is b or (type(a) is type(b) and a.num == b.num):
                        bad = (i, j, "same-register")
                if bad:
                    break
            if bad:
                i, j, why = bad
                ctx.fail(f"determine_arg_locations:{march}:{why}",
                         f"{march}: arguments {i} and {j} of ({', '.join(str(t) for t in sig)}) are at {locs[i]} and {locs[j]}", case)
        ctx.extra_cov["arg_locations_exhaustive_up_to"] = maxn
    return reqs, finish


# ------------------------------------------------------------------------------------------------
# riscv: operations with an immediate operand (ADD/AND/OR/XOR/SHL/SHR of a register and a constant)
# ------------------------------------------------------------------------------------------------

def _marked(i):
    """register contents of `markedState` in lean/PpciVerif/Model/CodegenProto.lean"""
    return (0xA5000000 if i % 2 else 0x5A000000) + (i * 0x01010101) % 0x1000000


def _ir_binop(op, signed, a, v):
    """Spec.IRArith semantics of a 32-bit binop on the register value `a` (unsigned 32-bit pattern) and constant `v`"""
    M = 1 << 32
    b = v % M
    if op == "ADD":
        return (a + b) % M
    if op == "SUB":
        return (a - b) % M
    if op == "AND":
        return a & b
    if op == "OR":
        return a | b
    if op == "XOR":
        return a ^ b
    if op == "SHL":
        return (a << v) % M
    if op == "SHR":
        if signed:
            sa = a - M if a >> 31 else a
            return (sa >> v) % M
        return a >> v
    raise KeyError(op)


def riscv_imm_patterns(ctx):
    """every pattern `OP(reg, CONST)` / `OP(CONST, reg)` of the riscv back-ends, on every constant its condition accepts:
    the emitted instructions are decoded and executed by Spec.RV32; the result must be OP(register, constant) as the IR defines it"""
    import re
    from ppci.api import get_arch
    from ppci.utils.tree import Tree
    from ppci.arch.riscv import registers as R
    from ppci.arch.generic_instructions import ArtificialInstruction
    vals = const_values(ctx)
    reqs, meta = [], []
    for march in ("riscv", "riscv:rvc"):
        arch = get_arch(march)
        for p in arch.isa.patterns:
            t = p.tree
            if len(t.children) != 2 or p.non_term != "reg":
                continue
            names = [c.name for c in t.children]
            ci = [k for k, n in enumerate(names) if n in CONST_RANGES]
            if len(ci) != 1 or names[1 - ci[0]] != "reg":
                continue
            m = re.match(r"([A-Z]+?)([IU])(8|16|32)$", t.name)
            if not m or m.group(1) not in ("ADD", "SUB", "AND", "OR", "XOR", "SHL", "SHR"):
                continue
            op, signed, bits = m.group(1), m.group(2) == "I", int(m.group(3))
            lo, hi = CONST_RANGES[names[ci[0]]]
            if op in ("SHL", "SHR"):
                lo, hi = 0, bits - 1          # other counts are undefined behaviour in the IR
            for v in vals:
                for src in ((R.R11, R.R12, R.R15) if ctx.thorough else (ctx.rng.choice((R.R11, R.R12, R.R15)),)):
                    if not lo <= v <= hi:
                        continue
                    kids = [None, None]
                    kids[ci[0]] = Tree(names[ci[0]], value=v)
                    kids[1 - ci[0]] = Tree("reg")
                    tree = Tree(t.name, *kids)
                    try:
                        if p.condition is not None and not p.condition(tree):
                            continue
                    except Exception as e:  # noqa
                        ctx.fail(f"riscv-imm:{march}:{p.method.__name__}:condition-raises", f"{type(e).__name__} for {t.name} with constant {v}", {"march": march, "tree": str(t), "value": v})
                        break
                    rd = R.R10

                    class Stub:
                        def __init__(self):
                            self.ins = []

                        def new_reg(self, cls):
                            return rd

                        def emit(self, i):
                            self.ins.append(i)
                            return i
                    stub = Stub()
                    case = {"march": march, "pattern": p.method.__name__, "tree": f"{t.name} constant {v}", "source": src.name}
                    try:
                        p.method(stub, tree, src)
                        code = bytearray()
                        for i in stub.ins:
                            for j in (i.render() if isinstance(i, ArtificialInstruction) else [i]):
                                code += j.encode()
                    except Exception as e:  # noqa
                        ctx.fail(f"riscv-imm:{march}:{p.method.__name__}:raises",
                                 f"{t.name} with constant {v} is accepted by the pattern condition but emitting it raised {type(e).__name__}: {e}", case)
                        continue
                    a = _marked(src.num)
                    if bits < 32:        # narrow values: only the low bits of the register are meaningful
                        continue
                    reqs.append(f"dex {rd.num} {bytes(code).hex()}")
                    meta.append((march, p, t.name, v, _ir_binop(op, signed, a, v), case))

    def finish(out):
        for rq, rep, (march, p, tname, v, want, case) in zip(reqs, out, meta):
            ctx.count("eval_riscv_imm")
            ctx.nontrivial((march, p.method.__name__, tname, v))
            name = p.method.__name__
            if rep.startswith("ok undecodable"):
                ctx.fail(f"riscv-imm:{march}:{name}:undecodable", f"{tname} with constant {v}: emitted bytes {rq.split()[-1]} are not RV32IMC instructions", case)
                continue
            val = rep.split(" val=")[1].split(" ")[0]
            if val != str(want):
                ctx.fail(f"riscv-imm:{march}:{name}:wrong-value",
                         f"{tname}(reg, {v}) emitted as `{rep[3:].split(' val=')[0]}` computes {val}, the IR operation gives {want}", case)
            elif rep.rsplit("keep=", 1)[-1] != "1":
                ctx.fail(f"riscv-imm:{march}:{name}:side-effect", f"{tname}(reg, {v}): `{rep[3:].split(' val=')[0]}` changes more than the destination", case)
    return reqs, finish


# ------------------------------------------------------------------------------------------------
# riscv prologue / epilogue: stack discipline
# ------------------------------------------------------------------------------------------------

RV_PSABI_CALLEE_SAVED = [9, 18, 19, 20, 21, 22, 23, 24, 25, 26, 27]     # s1, s2..s11 (Spec.RVABI.calleeSaved without s0 = fp)


def _encode_list(items):
    """bytes of the encodable instructions of a prologue/epilogue list, up to and including the return"""
    from ppci.arch.generic_instructions import ArtificialInstruction
    code = bytearray()
    n = 0
    for it in items:
        flat = list(it.render()) if isinstance(it, ArtificialInstruction) else [it]
        for i in flat:
            if not getattr(i, "tokens", None):
                continue            # labels, section switches, alignment
            code += i.encode()
            n += 1
            if type(i).__name__ in ("Blr", "CJr", "Blr_ins", "CJr_ins") or str(i).startswith(("jalr", "c.jr")):
                return bytes(code), n
    return bytes(code), n


def riscv_frames(ctx):
    """REAL gen_prologue/gen_epilogue lists for many (used registers, stack size, outgoing-argument area) combinations:
    decoded and compared with Model.RVFrame, and executed by Spec.RV32 around an adversarial body (driver op rvframerun):
    sp, fp, ra and every callee-saved register the frame uses must be back, nothing at or above the entry sp may be written"""
    from ppci.api import get_arch
    from ppci.arch.riscv import registers as R
    rng = ctx.rng

    def rup(s):
        return s + (16 - s % 16)
    reqs, meta = [], []
    for march in ("riscv", "riscv:rvc"):
        arch = get_arch(march)
        # callee-saved BY CONVENTION (RISC-V psABI s1, s2..s11; s0 = fp is handled by the prologue itself) - not arch.callee_save
        cs = [getattr(R, f"R{n}") for n in RV_PSABI_CALLEE_SAVED]
        others = [R.R10, R.R11, R.R12, R.R5, R.R6, R.R28]
        used_sets = [[], [cs[0]], [cs[1]], [cs[0], cs[1]], [cs[-1]], cs[:4], cs, [cs[2], cs[5], others[0]], others[:3]]
        used_sets += [[r] for r in cs]            # every callee-saved register on its own
        for _ in range(60 if ctx.thorough else 10):
            used_sets.append(rng.sample(cs, rng.randint(1, len(cs))) + rng.sample(others, rng.randint(0, 3)))
        stacks = [0, 1, 4, 7, 8, 9, 16, 24, 40, 100, 500, 1000, 1900]
        outs = [[], [4], [8], [16], [4, 12], [40], [100], [12, 4, 8]]
        combos = [(u, st, oc) for u in used_sets[:9] for st in (0, 8, 24) for oc in outs[:5]]
        combos += [([r], st, oc) for r in cs for st, oc in ((0, []), (8, [8]))]
        for _ in range(600 if ctx.thorough else 80):
            combos.append((rng.choice(used_sets), rng.choice(stacks), rng.choice(outs)))
        for used, st, oc in combos:
            frame = arch.new_frame("f", None)
            frame.used_regs = set(used)
            frame.stacksize = st
            frame.out_calls = list(oc)
            case = {"march": march, "used_regs": sorted(r.name for r in used), "stacksize": st, "out_calls": oc}
            try:
                pro, _ = _encode_list(list(arch.gen_prologue(frame)))
                epi, _ = _encode_list(list(arch.gen_epilogue(frame)))
            except Exception as e:  # noqa
                ctx.fail(f"riscv-frame:{march}:raises", f"gen_prologue/gen_epilogue raised {type(e).__name__}: {e}", case)
                continue
            saved = [r.num for r in arch.callee_save if r in frame.used_regs]      # what the code saves (model correspondence)
            must = [r.num for r in cs if r in frame.used_regs]                     # what the convention says must survive (property)
            extras = max(oc) if oc else 0
            regs = ",".join(map(str, saved)) or "-"
            reqs.append(f"rvframe {st} {extras} {regs}")
            reqs.append(f"decx {pro.hex()}")
            reqs.append(f"decx {epi.hex()}")
            reqs.append(f"rvframerun {pro.hex()} {epi.hex()} {rup(st + 8)} {rup(4 * len(saved))} {rup(extras) if extras else 0} "
                        + (",".join(map(str, must)) or "-"))
            meta.append((march, case, len(saved), extras))

    def finish(out):
        for k, (march, case, nsaved, extras) in enumerate(meta):
            model, dpro, depi, run = out[4 * k:4 * k + 4]
            ctx.count("eval_riscv_frame_" + march.replace(":", "_"))
            if nsaved and extras:
                ctx.nontrivial(("frame", march, tuple(case["used_regs"]), case["stacksize"], tuple(case["out_calls"])))
            real = f"ok {dpro[3:]} | {depi[3:]}"
            if real != model:
                ctx.disagree(f"riscv gen_prologue/gen_epilogue ({march})", case, real[:600], model[:600])
            if run != "ok restored":
                why = run.split(" ", 2)[2] if run.startswith("ok broken ") else run
                ctx.fail(f"riscv-frame:{march}:{why.split(':')[0]}",
                         f"{march}: prologue + adversarial body + epilogue for used={case['used_regs']} stacksize={case['stacksize']} "
                         f"out_calls={case['out_calls']}: {why}; prologue `{dpro[3:]}`; epilogue `{depi[3:]}`", case)
        if meta:
            ctx.sample({"frame": meta[-1][1], "model": out[4 * (len(meta) - 1)][:300]})
    return reqs, finish
