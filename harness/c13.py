"""C13 linker relaxation: regenerated relocation table, correspondence of Model.Relax /
Model.RelaxLink with Linker.do_relaxations / _apply_relaxation_holes / do_relocations, and
evaluation of the property on real relaxed vs. unrelaxed links (decoders and emulator: Spec.RV32
through the driver)."""
import io
import json
import os
from pathlib import Path

import common

PROP = "C13"
LEAN_PROPS = "PpciVerif/Props/C13.lean"
LEAN_TARGETS = ["PpciVerif.Props.C13", "Drivers.C13"]
LEVEL = "proof"
LEVEL_TEXT = (
    "Lean theorems about a hand model of Linker.do_relaxations / _apply_relaxation_holes and the shrinkable rvc relocations, for ALL "
    "objects and hole lists: phi(o) = o - sum{size h | h.offset < o} is monotone and never increases a distance; count_holes (with its "
    "break) equals that sum on every sorted list; after hole punching every section's data is the old data without the hole bytes "
    "(new[phi o] = old[o], length shrinks by the hole sizes), every symbol and relocation offset is phi of the old one with no other "
    "field changed, image section addresses drop by the bytes removed in front of them and consecutive sections still do not overlap, "
    "a symbol's address is its section's new address + phi(old offset); the registered holes are ascending and disjoint whenever the "
    "shrinkable relocation sites do not overlap; the 2 bytes left by do_shrink + bc_imm11 decode with the independent Spec.RV32 "
    "decoder to c.j / c.jal with exactly the offset S'-P', the unrelaxed word to jal rd with offset S-P; a shrunk jump inside one "
    "section stays in reach. PARTIAL: 'stays in reach' for two different sections and 'aligned sections stay aligned' are stated "
    "in full (stays_in_range_full, alignment_preserved_full) and REFUTED by Lean-proved witnesses (open findings); execution "
    "equivalence of whole programs is not proved, only searched with the Spec.RV32 interpreter.")
LEVEL_NOTE = (
    "trusted: Lean kernel; axioms propext/Classical.choice/Quot.sound; hand model <-> linker.py/rvc_relocations.py correspondence is a "
    "differential run (pre-relaxation object of the REAL linker fed to the model: relax, finish, plain compared field by field with "
    "the real post-relaxation object, the real relaxed link and the real unrelaxed link) on a corpus + generated rvc programs, not a "
    "proof; relocation table regenerated from the live ISA and proved equal to the model's (table_matches); Spec.RV32 decoder/"
    "interpreter (validated against llvm-mc by C08); C10/C11 relocation models and proofs (Proofs.Reloc, Proofs.RelocRv2)")
TECHNIQUE = ("Lean 4 proofs by induction over a hand model (hole lists, sections, images) + regenerated relocation table + differential "
             "correspondence with the real linker; the property itself is evaluated on real relaxed/unrelaxed link pairs with the Lean "
             "decoders and the Lean RV32 interpreter as oracles")
RULE = ("corpus of 28 fixed links (C.J edges +-2044..2052, hole accounting, multi-section/multi-image, DEFINESYMBOL, data references, "
        "no layout, jal with other link registers, the open findings) + generated 'maze' programs (quick 30, thorough 120: 2-9 blocks "
        "and 0-3 functions scattered over 1-3 objects and 1-3 code sections, gaps around the 2 KiB reach, relaxable and base jumps, "
        "branches, calls, abs/pc-relative data references, 1-2 code memories incl. adjacent ones) + 2 C programs compiled by ppci for "
        "riscv:rvc. every program is linked five times: unrelaxed and relaxed from fresh objects, relaxed AGAIN from the same in-memory "
        "objects, a third time under a shifted layout, and from fresh objects under that layout (inputs must be untouched, relinks "
        "identical). evaluation = one (unrelaxed, relaxed) link pair / one relink comparison / one decoded reference / one emulated "
        "run / one model request; "
        "distinct non-trivial = distinct case with at least one hole")
TRUSTED = [
    "hand model Model.Relax / Model.RelaxLink of ppci/binutils/linker.py (do_relaxations, _apply_relaxation_holes, do_relocations) and "
    "rvc_relocations.py (can_shrink, do_shrink), tied by the differential run on every check",
    "Gen.RelaxTab regenerated from get_arch('riscv:rvc').isa.relocation_map (sizes, which types override can_shrink, the constant bits "
    "do_shrink writes - probed on all-zero and all-one words - and the name of the relocation it returns)",
    "Spec.RV32 (decoders and one-step semantics written from the ISA manual), Spec.RelocSem, Spec.Relax",
    "the unrelaxed link is obtained by replacing Linker.do_relaxations with a no-op from outside (the linker has no switch)",
    "objects are built with the riscv:rvc assembler plus the instruction classes CB/CBl emitted directly (the text assembler resolves "
    "'j'/'jal' to the base ISA, only the code generator emits the relaxable forms)",
]
ASSUMPTIONS = [
    "the model takes input objects as immutable values; that the real linker does not write to its inputs and that a second link of the "
    "same in-memory objects equals the first is checked on every case (link:input-object-mutated, link:second-link-differs), not proved",
    "a section name occurs once in section_map and at most once in all images (hypothesis of the image theorems; C12 layout_placement)",
    "shrinkable relocation sites of a section do not overlap (SitesSeparated; true for assembler/code generator output)",
    "addresses, offsets and symbol values are non-negative (Nat in the model)",
    "cbl_imm11 is only announced for jal ra, cb_imm11 for jal x0 (guaranteed by CB/CBl since commit f0b404d; the linker does not check)",
]
GEN = common.LEAN / "PpciVerif" / "Gen" / "RelaxTab.lean"
CHECK_WITHOUT_BUILD = True     # a broken proof (e.g. table_matches) still gets the failing-input search on the real code


# ---------------------------------------------------------------------------------------------
# regen: the relocation table of the live riscv:rvc ISA as far as relaxation needs it

def collect_table():
    from ppci.api import get_arch
    from ppci.arch.encoding import Relocation
    arch = get_arch("riscv:rvc")
    rows = []
    for name, cls in sorted(arch.isa.relocation_map.items()):
        size = cls.size()
        f3, new = 0, "-"
        if cls.can_shrink is not Relocation.can_shrink:
            # probe do_shrink on the all-zero and the all-one instruction: every output bit must be a
            # constant or a copy, and the constants must be exactly op=01 and funct3
            r = cls(None)
            z, nz = r.do_shrink(0, bytearray(size), 0)
            o, no = r.do_shrink(0, bytearray([255] * size), 0)
            if len(z) != 2 or len(o) != 2 or len(nz) != 1 or len(no) != 1:
                raise ValueError(f"do_shrink of {name}: unexpected shape")
            zw, ow = z[0] | z[1] << 8, o[0] | o[1] << 8
            const1, const0 = zw, 0xFFFF ^ ow
            if (const1 | const0) != 0xE003 or (const1 & 3) != 1:
                raise ValueError(f"do_shrink of {name}: writes bits {const1 | const0:#x}, op {const1 & 3}")
            f3 = const1 >> 13
            if f3 == 0:
                raise ValueError(f"do_shrink of {name}: funct3 0")
            new = nz[0].name
        rows.append((name, size, f3, new))
    return rows


def regen(ctx):
    rows = collect_table()
    body = ",\n".join(f'  ("{n}", {s}, {f}, "{w}")' for n, s, f, w in rows)
    txt = ("/- GENERATED by harness/c13.py regen() from the live `get_arch(\"riscv:rvc\").isa.relocation_map` – do not edit.\n"
           "   (name, `cls.size()`, funct3 written by `do_shrink` (0: `can_shrink` is the base-class `return False`),\n"
           "    name of the relocation `do_shrink` returns) -/\n"
           "namespace Gen.RelaxTab\n\n"
           "def table : List (String × Nat × Nat × String) := [\n" + body + "]\n\n"
           "end Gen.RelaxTab\n")
    if not GEN.exists() or GEN.read_text() != txt:
        GEN.write_text(txt)
        ctx.note("regenerated Gen/RelaxTab.lean")
    ctx.table = rows


# ---------------------------------------------------------------------------------------------
# building rvc objects

_ARCH = None


def arch():
    global _ARCH
    if _ARCH is None:
        from ppci.api import get_arch
        _ARCH = get_arch("riscv:rvc")
    return _ARCH


def reg(name):
    from ppci.arch.riscv import registers as R
    n = int(name[1:])
    return {0: R.R0, 1: R.LR, 2: R.SP, 8: R.FP}.get(n) or getattr(R, f"R{n}")


def build_object(lines):
    """Assemble `lines` with the riscv:rvc assembler.  `@j L` / `@jal xN L` are emitted as the rvc
    instruction objects CB / CBl (relocations cb_imm11 / cbl_imm11): this is what the rvc code generator
    emits for jumps and calls; the text assembler resolves the mnemonics `j` / `jal` to the base ISA."""
    from ppci.binutils.objectfile import ObjectFile
    from ppci.binutils.outstream import BinaryOutputStream
    from ppci.common import DiagnosticsManager
    from ppci.arch.riscv.rvc_instructions import CB, CBl
    a = arch()
    obj = ObjectFile(a)
    ost = BinaryOutputStream(obj)
    ost.select_section("code")
    asmb = a.assembler
    asmb.prepare()
    diag = DiagnosticsManager()
    chunk = []

    def flush():
        if chunk:
            asmb.assemble("\n".join(chunk), ost, diag)
            chunk.clear()

    for ln in lines:
        if ln.startswith("@"):
            flush()
            p = ln.split()
            if p[0] == "@j":
                ost.emit(CB(p[1]))
            elif p[0] == "@jal":
                ost.emit(CBl(reg(p[1]), p[2]))
            else:
                raise ValueError(ln)
        else:
            chunk.append(ln)
    flush()
    asmb.flush()
    return obj


def snap(obj):
    return {
        "sections": [[s.name, s.address, s.alignment, bytes(s.data).hex()] for s in obj.sections],
        "symbols": [[s.id, s.name, s.binding, s.value, s.section, s.typ, s.size] for s in obj.symbols],
        "relocs": [[r.reloc_type, r.symbol_id, r.section, r.offset, r.addend] for r in obj.relocations],
        "images": [[i.name, i.address, [s.name for s in i.sections]] for i in obj.images],
        "values": [val_of(obj, s.id) for s in obj.symbols],
        "imgdata": [imgdata_of(i) for i in obj.images],
    }


def val_of(obj, sid):
    try:
        return obj.get_symbol_id_value(sid)
    except Exception as e:  # noqa
        return "!" + type(e).__name__


def imgdata_of(img):
    try:
        return bytes(img.data).hex()
    except Exception as e:  # noqa
        return "!" + type(e).__name__


def snap_input(obj):
    """own field walk over an INPUT object file (everything the linker reads)"""
    return {
        "sections": [[s.name, s.address, s.alignment, bytes(s.data).hex()] for s in obj.sections],
        "symbols": [[s.id, s.name, s.binding, s.value, s.section, s.typ, s.size] for s in obj.symbols],
        "relocs": [[r.reloc_type, r.symbol_id, r.section, r.offset, r.addend] for r in obj.relocations],
        "images": [[i.name, i.address, [s.name for s in i.sections]] for i in obj.images],
        "entry": obj.entry_symbol_id,
    }


def input_diff(before, objs):
    """first difference between the input objects as they were and as they are now (None: untouched)"""
    for k, (b, o) in enumerate(zip(before, objs)):
        a = snap_input(o)
        for key in b:
            if a[key] != b[key]:
                x, y = b[key], a[key]
                if isinstance(x, list):
                    i = next((i for i in range(min(len(x), len(y))) if x[i] != y[i]), min(len(x), len(y)))
                    return f"object {k}: {key}[{i}] was {str(x[i:i+1])[:160]}, is {str(y[i:i+1])[:160]}"
                return f"object {k}: {key} was {x}, is {y}"
    return None


def other_layout(layout_text):
    """the same layout with every memory 1 MiB higher (all distances kept)"""
    import re
    if not layout_text:
        return None
    return re.sub(r"LOCATION=(0x[0-9a-fA-F]+)", lambda m: f"LOCATION={int(m.group(1), 16) + 0x100000:#x}", layout_text)


def real_links(make, layout_text, extra_symbols=None):
    """Links of one program through ppci.api.link.  `make()` builds fresh in-memory input objects.
      U          fresh objects, `Linker.do_relaxations` replaced by a no-op from outside
      R          fresh objects, unchanged linker; PRE/POST = destination object right before / after `do_relaxations`
      R2         THE SAME in-memory objects linked again (PRE2 = its pre-relaxation object)
      R3 / R3f   the same in-memory objects a third time under the shifted layout / fresh objects under that layout
      mut_U, mut_R, mut_R2   first difference of the input objects after the link (None = inputs untouched)"""
    from ppci import api
    from ppci.binutils.linker import Linker
    from ppci.binutils.layout import Layout
    res = {}
    orig_relax, orig_dr = Linker.do_relaxations, Linker._do_relocation
    last = {}
    pre_key = ["PRE"]

    def dr(self, relocation):
        last["r"] = [relocation.reloc_type, relocation.symbol_id, relocation.section, relocation.offset]
        return orig_dr(self, relocation)

    def relax_wrapped(self):
        res[pre_key[0]] = snap(self.dst)
        orig_relax(self)
        if pre_key[0] == "PRE":
            res["POST"] = snap(self.dst)

    def relax_off(self):
        res["PRE_U"] = snap(self.dst)

    def do(key, objs, fn, text):
        Linker.do_relaxations = fn
        last.clear()
        before = [snap_input(o) for o in objs]
        try:
            lay = Layout.load(io.StringIO(text)) if text else None
            res[key] = snap(api.link(objs, layout=lay, extra_symbols=dict(extra_symbols) if extra_symbols else None))
        except Exception as e:  # noqa
            res[key + "_exc"] = type(e).__name__
            res[key + "_at"] = last.get("r")
        res["mut_" + key] = input_diff(before, objs)

    try:
        Linker._do_relocation = dr
        do("U", make(), relax_off, layout_text)
        objs = make()
        do("R", objs, relax_wrapped, layout_text)
        pre_key[0] = "PRE2"
        do("R2", objs, relax_wrapped, layout_text)
        alt = other_layout(layout_text)
        if alt:
            pre_key[0] = "PRE3"
            do("R3", objs, relax_wrapped, alt)
            pre_key[0] = "PRE3f"
            do("R3f", make(), relax_wrapped, alt)
    finally:
        Linker.do_relaxations, Linker._do_relocation = orig_relax, orig_dr
    return res


# ---------------------------------------------------------------------------------------------
# driver protocol

def hx(h):
    return h if h else "-"


def obj_line(s):
    t = ["S", str(len(s["sections"]))]
    for n, a, al, d in s["sections"]:
        t += [n, str(a), str(al), hx(d)]
    t += ["Y", str(len(s["symbols"]))]
    for i, n, b, v, sec, typ, size in s["symbols"]:
        t += [str(i), n, "g" if b == "global" else "l", "-" if v is None else str(v), "-" if sec is None else "=" + sec, typ, str(size)]
    t += ["R", str(len(s["relocs"]))]
    for ty, sid, sec, off, add in s["relocs"]:
        t += [ty, str(sid), sec, str(off), str(add)]
    t += ["E", "-", "I", str(len(s["images"]))]
    for n, a, secs in s["images"]:
        t += [n, str(a), str(len(secs))] + secs
    return " ".join(t)


def parse_obj_reply(line):
    """`ok S n {..} Y n {..} R n {..} H n {..} V n {..}` -> dict (or {'err': kind})"""
    t = line.split()
    if t[0] == "err":
        return {"err": t[1]}
    if t[0] != "ok":
        return {"err": "bad-reply:" + line[:40]}
    p = 1
    out = {}

    def group(tag, width):
        nonlocal p
        assert t[p] == tag, (tag, t[p - 2:p + 3])
        n = int(t[p + 1])
        p += 2
        rows = []
        for _ in range(n):
            rows.append(t[p:p + width])
            p += width
        return rows

    out["sections"] = [[r[0], int(r[1]), int(r[2]), "" if r[3] == "-" else r[3]] for r in group("S", 4)]
    out["symbols"] = [[int(r[0]), r[1], "global" if r[2] == "g" else "local", None if r[3] == "-" else int(r[3]),
                       None if r[4] == "-" else r[4][1:], r[5], int(r[6])] for r in group("Y", 7)]
    out["relocs"] = [[r[0], int(r[1]), r[2], int(r[3]), int(r[4])] for r in group("R", 5)]
    out["holes"] = [[r[0], int(r[1]), int(r[2])] for r in group("H", 3)]
    out["values"] = [int(r[0]) if not r[0].startswith("!") else r[0] for r in group("V", 1)]
    return out


def cmp_obj(ctx, what, case, real, model, keys=("sections", "symbols", "relocs", "values")):
    if "err" in model:
        ctx.disagree(what, case["name"], "ok", "err " + model["err"])
        return False
    ok = True
    for k in keys:
        if real[k] != model[k]:
            ok = False
            a, b = real[k], model[k]
            i = next((i for i in range(min(len(a), len(b))) if a[i] != b[i]), min(len(a), len(b)))
            ctx.disagree(f"{what}:{k}", case["name"], str(a[i:i + 1])[:300], str(b[i:i + 1])[:300])
    return ok


# ---------------------------------------------------------------------------------------------
# the property on the real outputs

def phi(holes, o):
    return o - sum(sz for off, sz in holes if off < o)


def in_hole(holes, o):
    return any(off <= o < off + sz for off, sz in holes)


def reloc_size(ty):
    return arch().isa.relocation_map[ty].size()


def shrinkable(ty):
    from ppci.arch.encoding import Relocation
    return arch().isa.relocation_map[ty].can_shrink is not Relocation.can_shrink


def layout_aligns(layout_text):
    """section name -> n for every SECTION that directly follows ALIGN(n) in the layout"""
    from ppci.binutils.layout import Layout, Align, Section
    out = {}
    if not layout_text:
        return out
    lay = Layout.load(io.StringIO(layout_text))
    for mem in lay.memories:
        pend = None
        for inp in mem.inputs:
            if isinstance(inp, Align):
                pend = inp.alignment
            else:
                if isinstance(inp, Section) and pend:
                    out[inp.section_name] = pend
                pend = None
    return out


class Eval:
    """Evaluation of one (case, U, R) triple; queues decoder requests and judges them afterwards."""

    def __init__(self, ctx, case, res):
        self.ctx, self.case, self.res = ctx, case, res
        self.reqs = []          # driver lines
        self.pending = []       # (kind, info) per request
        self.holes = {}
        self.ok = True
        self.u_broken = False   # a reference of the UNRELAXED link does not designate its symbol (C10/C11): runs not comparable

    def fail(self, sig, what, **kw):
        self.ok = False
        self.ctx.fail(sig, f"[{self.case['name']}] {what}", self.case, **kw)

    def image_of(self, snapU, sec):
        for n, a, secs in snapU["images"]:
            if sec in secs:
                return n
        return None

    def same_image(self, a, b):
        if a == b:
            return True
        ia, ib = self.image_of(self.res["U"], a), self.image_of(self.res["U"], b)
        return ia is not None and ia == ib

    def structural(self):
        ctx, case, res = self.ctx, self.case, self.res
        U, R, PRE = res["U"], res["R"], res["PRE"]
        secU = {s[0]: s for s in U["sections"]}
        secR = {s[0]: s for s in R["sections"]}
        if list(secU) != list(secR):
            return self.fail("relax:sections-differ", f"section lists differ {list(secU)} / {list(secR)}")
        # --- observed holes: walk the relocation sites of every section against the relaxed bytes
        sites = {}
        for ty, sid, sec, off, add in PRE["relocs"]:
            sites.setdefault(sec, []).append((off, ty, sid, add))
        holes, shrunk = {n: [] for n in secU}, set()
        for sec, lst in sites.items():
            lst.sort()
            d, end = 0, 0
            rb = bytes.fromhex(secR[sec][3])
            for off, ty, sid, add in lst:
                if off < end:
                    ctx.count("overlapping-sites")
                    return self.fail("harness:overlapping-sites", "relocation sites overlap; case not evaluable")
                end = off + reloc_size(ty)
                if shrinkable(ty) and off - d + 1 < len(rb) and rb[off - d] & 3 != 3:
                    holes[sec].append((off + 2, 2))
                    shrunk.add((sec, off))
                    d += 2
        self.holes, self.shrunk = holes, shrunk
        nholes = sum(len(h) for h in holes.values())
        ctx.count("holes", nholes)
        # --- section data under phi
        for n in secU:
            ub, rb = bytes.fromhex(secU[n][3]), bytes.fromhex(secR[n][3])
            hs = holes[n]
            if len(rb) != len(ub) - 2 * len(hs):
                self.fail("relax:section-size", f"section {n}: {len(ub)} bytes, {len(hs)} holes, relaxed size {len(rb)}")
                continue
            masked = set()
            for off, ty, sid, add in sites.get(n, []):
                masked.update(range(off, off + reloc_size(ty)))
            for o in range(len(ub)):
                if o in masked or in_hole(hs, o):
                    continue
                if rb[phi(hs, o)] != ub[o]:
                    self.fail("relax:data-changed", f"section {n}: byte {o} ({ub[o]:#x}) is {rb[phi(hs, o)]:#x} at {phi(hs, o)} after relaxation")
                    break
        # --- symbols
        for su, sr in zip(U["symbols"], R["symbols"]):
            if su[4] is None or su[3] is None:
                if su != sr:
                    self.fail("relax:symbol-changed", f"section-less symbol {su} became {sr}")
                continue
            exp = phi(holes.get(su[4], []), su[3])
            if sr[:3] != su[:3] or sr[4:] != su[4:]:
                self.fail("relax:symbol-changed", f"symbol {su} became {sr}")
            elif sr[3] != exp:
                self.fail("relax:symbol-not-shifted", f"symbol {su[1]} at {su[4]}+{su[3]} is at +{sr[3]} after relaxation, expected +{exp} (holes {holes.get(su[4])})")
        # --- relocation entries
        expR = sorted([("bc_imm11" if (sec, off) in shrunk else ty), sid, sec, phi(holes[sec], off), add] for ty, sid, sec, off, add in PRE["relocs"])
        if expR != sorted(res["POST"]["relocs"]):
            got = sorted(res["POST"]["relocs"])
            i = next((i for i in range(min(len(expR), len(got))) if expR[i] != got[i]), min(len(expR), len(got)))
            self.fail("relax:relocation-offset-wrong", f"relocation entries after relaxation differ at #{i}: expected {expR[i:i+1]}, got {got[i:i+1]}")
        # --- section addresses / images
        placed = set()
        for (n, a, secs), (n2, a2, secs2), du, dr in zip(U["images"], R["images"], U["imgdata"], R["imgdata"]):
            if (n, a, secs) != (n2, a2, secs2):
                self.fail("relax:image-changed", f"image {n} {a} {secs} became {n2} {a2} {secs2}")
                continue
            if isinstance(dr, str) and dr.startswith("!") and not du.startswith("!"):
                self.fail("relax:image-sections-overlap", f"Image.data of {n} raises {dr[1:]} after relaxation")
            delta = 0
            for s in secs:
                placed.add(s)
                if secR[s][1] != secU[s][1] - delta:
                    self.fail("relax:section-address-inconsistent",
                              f"section {s} of image {n}: {secU[s][1]:#x} -> {secR[s][1]:#x}, {delta} bytes were removed before it")
                delta += 2 * len(holes[s])
            if not du.startswith("!") and not (isinstance(dr, str) and dr.startswith("!")):
                if len(dr) // 2 != len(du) // 2 - delta:
                    self.fail("relax:image-size", f"image {n}: {len(du)//2} bytes, {delta} removed, relaxed size {len(dr)//2}")
        for n in secU:
            if n not in placed and secR[n][1] != secU[n][1]:
                self.fail("relax:section-address-inconsistent", f"section {n} (in no image) moved {secU[n][1]:#x} -> {secR[n][1]:#x}")
        # --- alignment (finding candidates of the design)
        la = layout_aligns(case.get("layout"))
        for n in secU:
            al = secU[n][2]
            if al and secU[n][1] % al == 0 and secR[n][1] % al != 0:
                self.fail("relax:section-misaligned", f"section {n} (alignment {al}) moved from {secU[n][1]:#x} to {secR[n][1]:#x}")
            if n in la and secU[n][1] % la[n] == 0 and secR[n][1] % la[n] != 0:
                self.fail("relax:layout-align-lost", f"section {n} follows ALIGN({la[n]}): {secU[n][1]:#x} -> {secR[n][1]:#x}")
        valU = dict(zip([s[1] for s in U["symbols"]], U["values"]))
        valR = dict(zip([s[1] for s in R["symbols"]], R["values"]))
        for name, al in (case.get("aligned") or {}).items():
            if name in valU and isinstance(valU[name], int) and valU[name] % al == 0 and valR[name] % al != 0:
                self.fail("relax:aligned-label-misaligned", f"label {name} (after .align {al}) moved from {valU[name]:#x} to {valR[name]:#x}")
        # --- references: queue decoder requests
        symsec = {s[0]: s[4] for s in U["symbols"]}
        idval_U = dict(zip([s[0] for s in U["symbols"]], U["values"]))
        idval_R = dict(zip([s[0] for s in R["symbols"]], R["values"]))
        bysite = {(sec, off): (ty, sid) for ty, sid, sec, off, add in PRE["relocs"]}
        for ty, sid, sec, off, add in PRE["relocs"]:
            ub, rb = bytes.fromhex(secU[sec][3]), bytes.fromhex(secR[sec][3])
            offR = phi(holes[sec], off)
            PU, PR = secU[sec][1] + off, secR[sec][1] + offR
            tyR = "bc_imm11" if (sec, off) in shrunk else ty
            AU, AR = idval_U[sid], idval_R[sid]
            cross = not (symsec[sid] is not None and self.same_image(sec, symsec[sid]))
            info = dict(ty=ty, tyR=tyR, sec=sec, off=off, offR=offR, PU=PU, PR=PR, AU=AU, AR=AR, sid=sid, cross=cross)
            if symsec[sid] is not None:
                ssec = symsec[sid]
                sv = next(s[3] for s in U["symbols"] if s[0] == sid)
                expA = secR[ssec][1] + phi(holes[ssec], sv)
                if AR != expA:
                    self.fail("relax:symbol-address-not-phi", f"target of {ty}@{sec}+{off}: symbol address {AU:#x} -> {AR:#x}, image under phi is {expA:#x}")
            ctx.count("eval_ref")
            ctx.count("ref_" + ty)
            if ty in ("abs32_imm20", "rel_imm20"):
                lo = bysite.get((sec, off + 4))
                if not lo or lo[1] != sid or lo[0] != ty.replace("20", "12"):
                    ctx.count("unpaired-hi")
                    continue
                self.q(f"hilo {ub[off:off+4].hex()} {ub[off+4:off+8].hex()}", ("hiloU", info))
                self.q(f"hilo {rb[offR:offR+4].hex()} {rb[offR+4:offR+8].hex()}", ("hiloR", info))
            elif ty in ("abs32_imm12", "rel_imm12"):
                continue
            else:
                szU, szR = reloc_size(ty), reloc_size(tyR)
                self.q(f"target {ty} {PU} {ub[off:off+szU].hex()}", ("tgtU", info))
                self.q(f"target {tyR} {PR} {rb[offR:offR+szR].hex()}", ("tgtR", info))
                if ty in ("cb_imm11", "cbl_imm11", "b_imm20", "b_imm12", "bc_imm11", "bc_imm8"):
                    self.q(f"insn {ub[off:off+4].hex()}", ("insU", info))
                    self.q(f"insn {rb[offR:offR+4].hex() if offR + 4 <= len(rb) else rb[offR:offR+2].hex()}", ("insR", info))
        return nholes

    def q(self, line, tag):
        self.reqs.append(line)
        self.pending.append(tag)

    def judge(self, replies):
        cur = {}
        for (kind, info), rep in zip(self.pending, replies):
            key = (info["sec"], info["off"])
            cur.setdefault(key, {"info": info})[kind] = rep
        for key, d in cur.items():
            info = d["info"]
            where = f"{info['ty']}@{info['sec']}+{info['off']}"
            sfx = ":cross-image" if info["cross"] else ""
            wt = (lambda ty: "relax:wrong-target:cross-image" if info["cross"] else f"relax:wrong-target:{ty}")
            if "hiloU" in d:
                vU, vR = int(d["hiloU"].split()[1]), int(d["hiloR"].split()[1])
                if info["ty"] == "rel_imm20":
                    vU, vR = (vU + info["PU"]) % 2 ** 32, (vR + info["PR"]) % 2 ** 32
                if vU != info["AU"] % 2 ** 32:
                    self.ctx.count("unrelaxed-target-mismatch")      # C10/C11 territory
                    self.u_broken = True
                    continue
                if vR != info["AR"] % 2 ** 32:
                    self.fail(wt(info['ty']), f"{where}: designates {vR:#x} after relaxation, symbol is at {info['AR']:#x}")
                continue
            tU, tR = d["tgtU"].split()[1], d["tgtR"].split()[1]
            if tU == "-" or tR == "-":
                self.ctx.count("undecodable-type")
                continue
            if int(tU) != info["AU"]:
                self.ctx.count("unrelaxed-target-mismatch")
                self.u_broken = True
                continue
            if int(tR) != info["AR"]:
                self.fail(wt(info['tyR']),
                          f"{where}: unrelaxed {info['PU']:#x} -> {int(tU):#x}; relaxed {info['PR']:#x} -> {int(tR):#x} but the symbol is at {info['AR']:#x}")
            if "insU" in d:
                iU, iR = d["insU"].split(), d["insR"].split()
                shr = (info["sec"], info["off"]) in self.shrunk
                if iU[2] != iR[2] or (iU[2] == "jal" and iU[3] != iR[3]) or iR[1] != ("2" if shr or info["ty"] in ("bc_imm11", "bc_imm8") else "4"):
                    if iU[2] == "jal" and iR[2] == "jal" and iU[3] != iR[3]:
                        self.fail("relax:link-register-changed", f"{where}: `jal x{iU[3]}` became a {iR[1]}-byte jump linking x{iR[3]}")
                    else:
                        self.fail("relax:instruction-changed", f"{where}: {' '.join(iU[1:])} became {' '.join(iR[1:])}")
                elif iU[2] in ("jal", "br"):
                    offU, offR_ = int(iU[-1]), int(iR[-1])
                    if info["PU"] + offU == info["AU"] and info["PR"] + offR_ != info["AR"]:
                        self.fail(wt(info['tyR']), f"{where}: Spec.RV32 decodes the relaxed jump to {info['PR'] + offR_:#x}, symbol at {info['AR']:#x}")


# ---------------------------------------------------------------------------------------------
# cases

def nops(nbytes):
    """`nbytes` (even) of no-ops: 4-byte `addi x0,x0,0`, one `c.nop` for a remainder of 2"""
    assert nbytes % 2 == 0 and nbytes >= 0
    out = []
    k = nbytes // 4
    if k == 1:
        out.append("addi x0, x0, 0")
    elif k > 1:
        out += [f"repeat {k}", "addi x0, x0, 0", "endrepeat"]
    if nbytes % 4:
        out.append("c.nop")
    return out


ONE_MEM = "MEMORY flash LOCATION=0x1000 SIZE=0x8000 { SECTION(code) }"
CODE_DATA = ("MEMORY flash LOCATION=0x1000 SIZE=0x8000 { SECTION(code) }\n"
             "MEMORY ram LOCATION=0x20000 SIZE=0x1000 { SECTION(data) }")


def corpus():
    C = []

    def case(name, objs, layout=ONE_MEM, run=True, **kw):
        C.append(dict(name=name, objs=objs, layout=layout, entry="start", run=run, **kw))

    acc = lambda k: ["slli x10, x10, 1", f"addi x10, x10, {k}"]          # noqa: E731
    # forward / backward jumps and a call, all near
    case("near", [["global start", "start:", "@j a", "b:"] + acc(1) + ["@jal x1 f", "ebreak", "a:"] + acc(2) + ["@j b",
                   "f:"] + acc(3) + ["c.jr x1"]])
    # the +-2 KiB edges of C.J: offset 2046 shrinks, 2048 does not; -2048 shrinks, -2050 does not
    for d in (2044, 2046, 2048, 2050):
        case(f"fwd-{d}", [["global start", "start:", "@j t"] + nops(d - 4) + ["t:"] + acc(1) + ["ebreak"]])
    for d in (2046, 2048, 2050, 2052):
        case(f"bwd-{d}", [["global start", "start:", "@j e", "t:"] + acc(1) + ["ebreak"] + nops(d - 10) + ["e:", "@j t"]])
    # a jump that only fits because an earlier jump shrinks is NOT taken (decided on unrelaxed distances)
    case("fwd-2048-after-hole", [["global start", "start:", "@j n", "n:", "@j t"] + nops(2044) + ["t:"] + acc(1) + ["ebreak"]])
    # symbols and relocations after one / two holes (hole accounting)
    case("two-holes", [["global start", "start:", "@j a", "a:", "@j b", "b:"] + acc(1) + ["@jal x1 f", "c:"] + acc(2) +
                       ["beq x0, x0, d", "ebreak", "d:", "la x6, c", "lw x7, word", "@j e", "e:", "ebreak",
                        "f:", "c.jr x1", ".align 4", "word:", "dd 99"]], aligned={})
    # labels in the middle of / right behind a jump that is shrunk: the hole is [2,4) and [6,8); a label AT a hole
    # offset stays (it denotes the end of the bytes that are kept), one behind it moves with the following code
    case("labels-at-holes", [["global start", "start:", "@j a", "a:", "@j b", "b:"] + acc(1) + ["ebreak"]],
         extra_symbols=[["m2", "code", 2], ["m3", "code", 3], ["m4", "code", 4], ["m6", "code", 6], ["m8", "code", 8], ["mend", "code", 20]])
    # relocation entries listed back to front (holes get registered in descending order: the sort matters)
    case("reversed-relocation-list", [["global start", "start:", "@j a", "a:", "@j b", "b:"] + acc(1) + ["@jal x1 f", "c:"] + acc(2) +
                                      ["@j e", "e:", "ebreak", "f:", "c.jr x1"]], reverse_relocs=True)
    # an absolute symbol (linker extra_symbols: no section) referenced from code and data next to shrunk jumps
    case("absolute-symbol", [["global start", "global abs1", "start:", "@j a", "a:", "lui x6, abs1", "addi x6, x6, abs1", "add x10, x10, x6", "@j b", "b:", "ebreak",
                              "section data", "dcd =abs1", "dcd =b"]], layout=CODE_DATA, link_extra={"abs1": 0x1234})
    # several sections in one image, jumps across them, a DEFINESYMBOL after the shrunk section
    case("multi-section", [["global start", "start:", "@j a", "a:", "@jal x1 f"] + acc(1) + ["@j g", "section code2", "g:"] + acc(2) +
                           ["@j h", "h:", "lui x6, endsym", "addi x6, x6, endsym", "ebreak", "section code3", "f:"] + acc(3) + ["c.jr x1"]],
         layout="MEMORY flash LOCATION=0x1000 SIZE=0x8000 { SECTION(code) SECTION(code3) SECTION(code2) DEFINESYMBOL(endsym) }")
    # two objects, global symbols, three images far apart
    case("two-objects", [["global start", "global f", "global back", "start:", "@jal x1 f", "back:"] + acc(1) + ["@j fin", "fin:", "ebreak"],
                         ["global f", "global back", "f:"] + acc(2) + ["@j l", "l:", "c.jr x1", "section code2", "k:", "@j k"]],
         layout="MEMORY flash LOCATION=0x1000 SIZE=0x8000 { SECTION(code) }\nMEMORY m2 LOCATION=0x40000 SIZE=0x100 { SECTION(code2) }")
    # data references from another image: absolute and pc-relative address loads, data words holding code addresses
    case("data-refs", [["global start", "start:", "@j a", "a:", "lui x6, w", "addi x6, x6, w", "lw x7, 0(x6)", "add x10, x10, x7",
                        "la x6, w2", "lw x7, 0(x6)", "add x10, x10, x7", "lw x7, w", "add x10, x10, x7", "@j b", "b:", "ebreak",
                        "section data", "w:", "dd 1000", "w2:", "dd 20000", "dcd =a", "dcd =b"]], layout=CODE_DATA)
    # no layout at all: every section at address 0, no image
    case("no-layout", [["global start", "start:", "@j a", "a:"] + acc(1) + ["@j b", "b:", "ebreak"]], layout=None, run=False)
    # jal with another link register / x0 (the plain jump written as jal x0)
    case("jal-x5", [["global start", "start:", "@jal x5 f"] + acc(1) + ["ebreak", "f:"] + acc(2) + ["jalr x0,x5,0"]])
    case("jal-x0", [["global start", "start:", "@jal x1 f"] + acc(1) + ["ebreak", "f:"] + acc(2) + ["@jal x0 g", "g:"] + acc(3) + ["c.jr x1"]])
    # ---- open findings (reproduced on every run) ----
    # a jump into the next image whose distance grows: 2046 -> 2048, encoded as -2048
    case("cross-image-forward", [["global start", "start:", "@j n", "n:", "@j t"] + nops(100) + ["section code2", "c.nop", "t:"] + acc(1) + ["ebreak"]],
         layout="MEMORY m1 LOCATION=0x1000 SIZE=0x800 { SECTION(code) }\nMEMORY m2 LOCATION=0x1800 SIZE=0x100 { SECTION(code2) }")
    # ... and backward: -2048 -> -2050, ValueError while relocating
    case("cross-image-backward", [["global start", "start:", "@j t", "section code2", "@j n", "n:", "t:"] + acc(1) + ["ebreak"]],
         layout="MEMORY m1 LOCATION=0x1000 SIZE=0x100 { SECTION(code) }\nMEMORY m2 LOCATION=0x7fc SIZE=0x100 { SECTION(code2) }")
    # the same with a conditional branch (b_imm12, +-4 KiB): 4094 -> 4096 wraps silently, -4096 -> -4098 raises
    case("cross-image-branch-forward", [["global start", "start:", "@j n", "n:", "beq x0, x0, t", "ebreak", "section code2", "c.nop", "t:"] + acc(1) + ["ebreak"]],
         layout="MEMORY m1 LOCATION=0x1000 SIZE=0x1000 { SECTION(code) }\nMEMORY m2 LOCATION=0x2000 SIZE=0x100 { SECTION(code2) }")
    case("cross-image-branch-backward", [["global start", "start:", "@j a", "a:", "tgt:"] + acc(1) + ["ebreak", "section code2"] + acc(2) + ["beq x11, x0, tgt", "ebreak"]],
         layout="MEMORY m1 LOCATION=0x1000 SIZE=0x100 { SECTION(code) }\nMEMORY m2 LOCATION=0x1ffc SIZE=0x100 { SECTION(code2) }")
    # a word of data with a relocation behind an odd number of holes in the same image: P % 4 assert
    case("data-after-code", [["global start", "start:", "@j a", "a:", "ebreak", "section data", "w:", "dcd =a"]],
         layout="MEMORY flash LOCATION=0x1000 SIZE=0x8000 { SECTION(code) SECTION(data) }")
    # ... without relocation: the section just loses its alignment
    case("misaligned-section", [["global start", "start:", "@j a", "a:", "lw x7, w", "add x10, x10, x7", "ebreak", "section data", "w:", "dd 5"]],
         layout="MEMORY flash LOCATION=0x1000 SIZE=0x8000 { SECTION(code) SECTION(data) }")
    # .align inside a section and ALIGN in the layout
    case("align-directive", [["global start", "start:", "@j a", "a:", "lw x7, w", "add x10, x10, x7", "ebreak", ".align 4", "w:", "dd 5"]],
         aligned={"w": 4})
    case("layout-align", [["global start", "start:", "@j a", "a:", "@j t", "section code2", "t:"] + acc(1) + ["ebreak"]],
         layout="MEMORY flash LOCATION=0x1000 SIZE=0x8000 { SECTION(code) ALIGN(16) SECTION(code2) }")
    return C


def gen_case(rng, idx, thorough):
    """A 'maze': blocks b0..bn-1 scattered over objects/sections with random gaps (many around the 2 KiB
    reach of C.J); block i appends a digit to x10 and jumps to block i+1 (relaxable j, base j, taken
    branch), optionally calling a function (relaxable jal, base jal) or reading data; the last block stops."""
    nblocks = rng.randint(2, 9 if thorough else 7)
    nobjs = rng.randint(1, 3)
    secs = ["code"] + rng.sample(["code2", "code3"], rng.randint(0, 2))
    nfun = rng.randint(0, 3)
    with_data = rng.random() < 0.6
    units = [("b", i) for i in range(nblocks)] + [("f", j) for j in range(nfun)]
    place = {u: (rng.randrange(nobjs), rng.choice(secs)) for u in units}
    place[("b", 0)] = (0, place[("b", 0)][1])
    lab = lambda u: ("start" if u == ("b", 0) else f"{u[0]}{u[1]}")      # noqa: E731
    gaps = [0, 0, 0, 2, 4, 6, 10, 60, 400, 1000, 2030, 2034, 2036, 2038, 2040, 2042, 2044, 2046, 2048, 2050, 2052, 2060, 3000]
    objs = [[] for _ in range(nobjs)]
    allg = sorted(lab(u) for u in units)
    dnames = [f"w{k}" for k in range(rng.randint(1, 3))] if with_data else []
    for o in range(nobjs):
        lines = [f"global {g}" for g in allg] + [f"global {d}" for d in dnames]
        mine = [u for u in units if place[u][0] == o]
        rng.shuffle(mine)
        for sec in secs:
            here = [u for u in mine if place[u][1] == sec]
            if not here:
                continue
            lines.append(f"section {sec}")
            for u in here:
                lines += nops(rng.choice(gaps) if rng.random() < 0.7 else 0)
                lines.append(lab(u) + ":")
                if u[0] == "b":
                    i = u[1]
                    lines += ["slli x10, x10, 1", f"addi x10, x10, {rng.randint(0, 1)}"]
                    if nfun and rng.random() < 0.6:
                        f = f"f{rng.randrange(nfun)}"
                        lines.append(rng.choice([f"@jal x1 {f}", f"@jal x1 {f}", f"jal x1, {f}"]))
                    if dnames and rng.random() < 0.5:
                        d = rng.choice(dnames)
                        lines += rng.choice([[f"lui x6, {d}", f"addi x6, x6, {d}", "lw x7, 0(x6)"], [f"la x6, {d}", "lw x7, 0(x6)"], [f"lw x7, {d}"]])
                        lines.append("add x10, x10, x7")
                    if i == nblocks - 1:
                        lines.append("ebreak")
                    else:
                        nxt = lab(("b", i + 1))
                        r = rng.random()
                        if r < 0.7:
                            lines.append(f"@j {nxt}")
                        elif r < 0.85:
                            lines.append(f"j {nxt}")
                        else:
                            lines += [f"beq x11, x0, {nxt}", "ebreak"]
                else:
                    lines += ["slli x10, x10, 1", f"addi x10, x10, {rng.randint(0, 1)}", "xori x10, x10, 5", rng.choice(["c.jr x1", "jalr x0,x1,0"])]
        if o == 0 and dnames:
            lines.append("section data")
            for d in dnames:
                lines += [f"{d}:", f"dd {rng.randint(1, 4000)}"]
            if rng.random() < 0.5:
                lines.append(f"dcd ={rng.choice(allg)}")
        objs[o] = lines
    # layout: code sections in one or several memories; data always in its own memory (no alignment hazard)
    order = secs[:]
    rng.shuffle(order)
    kind = rng.random()
    mems = []
    if kind < 0.55 or len(order) == 1:
        mems.append(("flash", 0x1000, order))
    elif kind < 0.8:
        mems.append(("m0", 0x1000, order[:1]))
        mems.append(("m1", 0x40000, order[1:]))
    else:
        # adjacent small memories: cross-image references near the reach of C.J
        mems.append(("m0", 0x1000, order[:1]))
        mems.append(("m1", 0x1000 + rng.choice([0x800, 0x1000, 0x2000]), order[1:]))
    txt = []
    for k, (n, loc, ss) in enumerate(mems):
        size = (mems[k + 1][1] - loc) if k + 1 < len(mems) and mems[k + 1][1] > loc and mems[k + 1][1] - loc < 0x10000 else 0x20000
        ins = " ".join(f"SECTION({s})" for s in ss)
        if rng.random() < 0.3:
            ins += " DEFINESYMBOL(end_" + n + ")"
        txt.append(f"MEMORY {n} LOCATION={loc:#x} SIZE={size:#x} {{ {ins} }}")
    if dnames:
        txt.append("MEMORY ram LOCATION=0x80000 SIZE=0x1000 { SECTION(data) }")
    return dict(name=f"maze{idx}", objs=objs, layout="\n".join(txt), entry="start", run=True)


C_SOURCES = [
    """
    int g; int h;
    int f(int a) { if (a > 3) { g = a; } else { h = a; } return a + 1; }
    int main_main() { int i; for (i = 0; i < 5; i++) { g = f(i) + f(g); } return g + h; }
    """,
    """
    int tab[4];
    int sum(int n) { int s = 0; int i; for (i = 0; i < n; i++) { s += tab[i & 3]; if (s > 100) break; } return s; }
    int fill(int k) { int i; for (i = 0; i < 4; i++) tab[i] = k + i; return sum(7); }
    int main_main() { int r = fill(3); if (r > 20) r = r - fill(1); else r = r + fill(2); return r; }
    """,
]

C_START = ["global start", "global main_main", "start:", "lui x2, 0x90", "@jal x1 main_main", "ebreak"]


def build_c_case(k):
    """a C program compiled by ppci for riscv:rvc (the code generator emits cb_imm11 / cbl_imm11) + start code"""
    import contextlib
    from ppci.api import cc
    with contextlib.redirect_stdout(io.StringIO()), contextlib.redirect_stderr(io.StringIO()):   # ppci prints its warnings
        obj = cc(io.StringIO(C_SOURCES[k]), arch())
    return obj


# ---------------------------------------------------------------------------------------------

RESULT_KEYS = ("sections", "symbols", "relocs", "images", "values", "imgdata")


def first_diff(a, b):
    for k in RESULT_KEYS:
        if a[k] != b[k]:
            x, y = a[k], b[k]
            i = next((i for i in range(min(len(x), len(y))) if x[i] != y[i]), min(len(x), len(y)))
            return f"{k}[{i}]: {str(x[i:i+1])[:150]} / {str(y[i:i+1])[:150]}"
    return None


def relink_checks(ctx, case, res):
    """The linker must not write to its inputs, and linking the same in-memory objects again (same layout, other
    layout) must give what fresh objects give."""
    for key in ("U", "R", "R2", "R3", "R3f"):
        if res.get("mut_" + key):
            ctx.fail("link:input-object-mutated",
                     f"[{case['name']}] the {'unrelaxed' if key == 'U' else 'relaxed'} link ({key}) changed an input object: {res['mut_' + key]}", case)
            break
    ctx.count("eval_relink")
    for again, fresh, sig, what in (("R2", "R", "link:second-link-differs", "linked a second time from the same in-memory objects"),
                                    ("R3", "R3f", "link:relink-other-layout-differs", "linked again under a shifted layout")):
        if again not in res and again + "_exc" not in res:
            continue
        if (again in res) != (fresh in res) or res.get(again + "_exc") != res.get(fresh + "_exc"):
            ctx.fail(sig, f"[{case['name']}] {what}: {res.get(again + '_exc', 'ok')}, fresh objects: {res.get(fresh + '_exc', 'ok')}", case)
        elif again in res:
            d = first_diff(res[fresh], res[again])
            if d:
                ctx.fail(sig, f"[{case['name']}] {what} the result differs from the link of fresh objects at {d}", case)
    # the model takes its inputs as immutable values: the second link must start from the same pre-relaxation object
    if "PRE" in res and "PRE2" in res:
        d = first_diff(res["PRE"], res["PRE2"])
        if d:
            ctx.disagree("second-link:pre-relaxation-object", case["name"], "differs from the first link at " + d, "identical (inputs are values)")


def run_cases(ctx, cases, extra=()):
    """`extra`: further driver requests answered in the same driver run; their replies are returned"""
    built = []
    for case in cases:
        def make(case=case):
            objs = [build_object(l) for l in case["objs"]]
            if case.get("reverse_relocs"):                            # the order of relocation entries carries no meaning
                for o in objs:
                    o.relocations.reverse()
            for name, sec, val in case.get("extra_symbols", []):      # labels at arbitrary offsets of object 0
                objs[0].add_symbol(len(objs[0].symbols), name, "local", val, sec, "object", 0)
            if "csrc" in case:
                objs.append(build_c_case(case["csrc"]))
            return objs
        try:
            make()
        except Exception as e:  # noqa
            ctx.count("asm-fails")
            ctx.note(f"case {case['name']} does not assemble: {type(e).__name__}: {str(e)[:100]}")
            continue
        res = real_links(make, case.get("layout"), case.get("link_extra"))
        relink_checks(ctx, case, res)
        built.append((case, res))
    lines, plan = [], []
    evals = []
    for case, res in built:
        ctx.count("eval_link")
        if "PRE" not in res:
            ctx.count("link-fails-before-relaxation")
            continue
        plan.append((case, res, "all", len(lines)))
        lines.append("all " + obj_line(res["PRE"]))
        if "U" not in res:
            ctx.count("unrelaxed-link-fails:" + res.get("U_exc", "?"))
            continue
        if "R" not in res:
            at = res.get("R_at") or ["?", None, None, None]
            sfx = ""
            if res["R_exc"] == "ValueError" and at[1] is not None:
                ev = Eval(ctx, case, res)
                ssec = next((s[4] for s in res["PRE"]["symbols"] if s[0] == at[1]), None)
                if not (ssec is not None and ev.same_image(at[2], ssec)):
                    sfx = ":cross-image"
            where = "do_relaxations" if "POST" not in res else f"do_relocations ({at[0]} in {at[2]})"
            ctx.fail(f"relaxed-link-fails:{res['R_exc']}:cross-image" if sfx else f"relaxed-link-fails:{res['R_exc']}:{at[0] if 'POST' in res else 'relax'}",
                     f"[{case['name']}] the unrelaxed link succeeds, the relaxed link raises {res['R_exc']} in {where}", case)
            continue
        ev = Eval(ctx, case, res)
        nh = ev.structural()
        if nh:
            ctx.nontrivial(case["name"])
        ev.base = len(lines)
        lines += ev.reqs
        evals.append(ev)
        if case.get("run"):
            for key in ("U", "R"):
                s = res[key]
                try:
                    pc = s["values"][[y[1] for y in s["symbols"]].index(case["entry"])]
                except ValueError:
                    continue
                segs = [(x[1], x[3]) for x in s["sections"] if x[3]]
                plan.append((case, res, "run" + key, len(lines)))
                lines.append(f"run {pc} {0x90000} 4000 {len(segs)} " + " ".join(f"{a} {d}" for a, d in segs))
    nmine = len(lines)
    lines += list(extra)
    replies = ctx.driver("C13", lines) if lines else []
    extra_replies = replies[nmine:]
    runs = {}
    plan2 = []
    for case, res, op, i in plan:
        if op == "all":
            parts = replies[i].split(" ;; ")
            if len(parts) != 3:
                raise common.BrokenCheck("driver C13: malformed reply to `all`: " + replies[i][:200])
            plan2 += [(case, res, o, p) for o, p in zip(("plain", "relax", "finish"), parts)]
        else:
            plan2.append((case, res, op, replies[i]))
    for case, res, op, rep in plan2:
        if op in ("plain", "relax", "finish"):
            ctx.count("eval_model_" + op)
            m = parse_obj_reply(rep)
            key, exk = {"plain": ("U", "U_exc"), "relax": ("POST", "R_exc"), "finish": ("R", "R_exc")}[op]
            if key in res:
                cmp_obj(ctx, op, case, res[key], m)
                if op == "finish" and "R2" in res:          # second link of the same objects = the model's (only) link
                    cmp_obj(ctx, "finish:second-link", case, res["R2"], m)
                if op == "relax" and "err" not in m:
                    ctx.count("model_holes", len(m["holes"]))
            elif "err" in m:
                if m["err"] != res.get(exk):
                    ctx.disagree(op + ":exception", case["name"], res.get(exk), m["err"])
            elif not (op == "relax" and "POST" not in res and "PRE" in res and False):
                if op == "relax" and "POST" in res:
                    continue
                ctx.disagree(op + ":exception", case["name"], res.get(exk), "ok")
        else:
            runs.setdefault(case["name"], {})[op] = (rep, case)
    broken = set()
    for ev in evals:
        ev.judge(replies[ev.base: ev.base + len(ev.reqs)])
        if ev.u_broken:
            broken.add(ev.case["name"])
    for name, d in runs.items():
        if "runU" not in d or "runR" not in d:
            continue
        (u, case), (r, _) = d["runU"], d["runR"]
        ctx.count("eval_run")
        tu, tr = u.split(), r.split()
        if tu[1] != "ebreak" or name in broken:
            ctx.count("unrelaxed-run-" + (tu[1] if tu[1] != "ebreak" else "not-comparable"))
            continue
        if (tu[1], tu[2], tu[4]) != (tr[1], tr[2], tr[4]):
            if any(f["case"] is case for f in ctx.failures):
                ctx.count("execution-differs-explained-by-structural-failure")
                continue
            ctx.fail("relax:execution-differs", f"[{name}] Spec.RV32 run: unrelaxed stops with {tu[1]} after {tu[2]} steps, x10..x17={tu[4]}; "
                     f"relaxed: {tr[1]} after {tr[2]} steps, x10..x17={tr[4]}", case)
        else:
            ctx.sample({"case": name, "run": u})
    return extra_replies


def check(ctx):
    cases = corpus()
    n = 120 if ctx.thorough else 30
    for i in range(n):
        cases.append(gen_case(ctx.rng, i, ctx.thorough))
    for k in range(len(C_SOURCES)):
        cases.append(dict(name=f"c-program-{k}", objs=[C_START], csrc=k, entry="start", run=True,
                          layout="MEMORY flash LOCATION=0x1000 SIZE=0x8000 { SECTION(code) }\nMEMORY ram LOCATION=0x20000 SIZE=0x1000 { SECTION(data) }"))
    slines, sexp = spec_requests(ctx)
    rep = run_cases(ctx, cases[:80], ["table"] + slines)
    for k in range(80, len(cases), 80):
        run_cases(ctx, cases[k:k + 80])
    if rep[0] != "ok 1":
        ctx.disagree("table", "Gen.RelaxTab.table vs Model.Relax.rvcTable", str(getattr(ctx, "table", None)), rep[0])
    for ln, e, r in zip(slines, sexp, rep[1:]):
        ctx.count("eval_spec")
        if e != r:
            ctx.disagree("spec", ln[:200], e[:200], r[:200])


def spec_requests(ctx):
    """Spec.Relax (phi, removeBytes) against the independent Python formulation used above"""
    rng = ctx.rng
    lines, exp = [], []
    for _ in range(300 if ctx.thorough else 60):
        n = rng.randint(0, 40)
        data = bytes(rng.randrange(256) for _ in range(n))
        holes, pos = [], 0
        while pos < n and rng.random() < 0.7:
            off = pos + rng.randint(0, 6)
            sz = rng.randint(0, 4)
            if off + sz > n:
                break
            holes.append((off, sz))
            pos = off + sz
        offs = list(range(n + 1))
        lines.append(f"spec {n} {len(holes)} " + " ".join(f"{o} {s}" for o, s in holes) + f" {len(offs)} " + " ".join(map(str, offs)))
        exp.append("ok from=1 within=1 total=%d phi=[%s] in=[%s] strict=[%s]" % (
            sum(s for _, s in holes), ",".join(str(max(0, phi(holes, o))) for o in offs),
            ",".join("1" if in_hole(holes, o) else "0" for o in offs),
            ",".join("1" if any(a < o < a + s for a, s in holes) else "0" for o in offs)))
        lines.append(f"remove {hx(data.hex())} {len(holes)} " + " ".join(f"{o} {s}" for o, s in holes))
        exp.append("ok " + hx(bytes(b for i, b in enumerate(data) if not in_hole(holes, i)).hex()))
    return lines, exp


def replay(ctx, rp):
    c = rp.get("case")
    if isinstance(c, dict) and "objs" in c:
        run_cases(ctx, [c])
    else:
        check(ctx)
