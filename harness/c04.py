"""C04 — x86-64 native code reproduces C program behaviour (PARTIAL: slivers + failing-input search).

Theorems (lean/PpciVerif/Props/C04.lean), tied to /repo on every run:
  * peephole_sound: the peephole filter (ppci/codegen/peephole.py) preserves the label-resolved trace semantics
    of every stream with distinct labels; model <-> real PeepHoleStream by capturing the real stream's
    input/output while x86_64 code is generated (and on synthetic item streams)
  * Frame.alloc with the frame pointer at the top (x86_64): slots disjoint / aligned / inside the frame;
    model <-> real allocator on random histories and on the histories of the compiled functions
Always-on failing-input search (NO theorem): generated UB-free C programs are compiled by ppci for x86_64 at
-O0/-O1/-O2/-Os and executed natively along BOTH link paths of the property
  (B) ppci object + start-up stub, linked by ppci's own linker, written as a static ELF executable
  (C) ppci object written as relocatable ELF, linked by gcc with a gcc-compiled runtime
and stdout + exit status are compared with the gcc -O0 build of the same source.
"""
import io
import os
import shutil
import subprocess
import tempfile
from concurrent.futures import ProcessPoolExecutor

from . import common, cgslivers

PROP = "C04"
LEAN_PROPS = "PpciVerif/Props/C04.lean"
LEAN_TARGETS = ["PpciVerif.Props.C04", "Drivers.C04"]
LEVEL = "proof"
LEVEL_TEXT = (
    "PARTIAL. End-to-end correctness of x86-64 machine code is NOT proved: there is no x86-64 machine semantics and no C semantics "
    "of whole programs here, instruction selection and the instruction encodings of x86-64 are not modelled. Exactly these slivers "
    "are Lean theorems, for all inputs: (1) peephole_sound - PeepHoleStream (window machine modelled line by line, proved equal to "
    "a list function) only ever drops an unconditional jump that is directly followed by its target label or by another jump to the "
    "same label, and for every instruction stream with distinct label names, every machine-state type and every semantics of the "
    "remaining instructions the output is trace-equivalent to the input (same executed instructions, same states, corresponding "
    "program points, in both directions; the distinct-labels hypothesis is shown necessary by a counterexample); (2) Frame.alloc "
    "with the frame pointer at the top, as x86-64 uses it: for every allocation history slots are pairwise disjoint, aligned, inside "
    "the frame. Cited, proved under other properties and not restated: every x86-64 frame's register allocation is validated (C06), "
    "System V argument/return placement and prologue/epilogue stack discipline (C40), relocation arithmetic and image layout "
    "(C11, C12), the ELF container (C17), the optimiser passes (C02). Everything else is covered only by a failing-input search that "
    "proves nothing: generated UB-free C programs, ppci at -O0/-O1/-O2/-Os along both link paths (ppci linker -> static ELF; "
    "relocatable ELF + gcc), stdout and exit status compared with the gcc build.")
LEVEL_NOTE = (
    "trusted: Lean kernel; axioms propext/Classical.choice/Quot.sound; hand models of PeepHoleStream and Frame.alloc tied to the "
    "source by differential runs (captured real streams / frames + synthetic ones); Spec.ItemTrace (label-resolved trace semantics "
    "over the abstract machine code of S5); gcc 12 as the reference compiler of the search; the program generator restricts itself "
    "to int/unsigned/long/unsigned long arithmetic with explicit casts (8/16-bit values only through memory and casts) because "
    "of the open C29 findings (x86_64 has no 8/16-bit mul/div/rem/neg rules) and the C01 findings (sizeof is signed)")
TECHNIQUE = ("Lean 4 proofs (refinement of the window machine, stuttering simulation by induction over executions, composition of "
             "single deletions) + differential correspondence on captured real streams/frames; failing-input search by native "
             "execution of ppci-compiled generated C programs against gcc")
RULE = ("programs: 4 corpus + 7 boundary-directed programs (every constant on or next to an 8/16/32-bit immediate or displacement boundary, struct members at offsets 127/128/129/255/256/32767/32768/32769 through pointers, globals and locals) + generated ones (45 % of the literals from the boundary pool); eval_peephole_stream = one real PeepHoleStream (one per compiled function) or synthetic stream, input and output compared with the model "
        "and checked against the drop rule; eval_frame_alloc_* / eval_captured_frame_alloc = one allocation history; eval_program_run = one "
        "(program, optimisation level, link path) execution whose stdout and exit status are compared with gcc's; non-trivial = stream in which "
        "at least one item was dropped, history with > 2 calls, every executed program (programs contain loops, arrays, structs, calls with up to "
        "8 arguments, switch, early returns, globals)")
TRUSTED = [
    "hand models Model.Peephole and Model.FrameAlloc (tied by differential runs on every check)",
    "Spec.ItemTrace: what 'label-resolved trace semantics' means (first definition of a label wins; other instructions uninterpreted)",
    "gcc 12 (-O0) as the oracle of the failing-input search; the Linux x86-64 kernel ABI for write/exit",
    "the start-up stub and the runtime used to run the programs (harness/c04.py: STARTUP_ASM, RT_C)",
]
ASSUMPTIONS = [
    "generated programs are UB-free by construction: signed arithmetic is done in the unsigned type and cast back, divisors are forced non-zero and positive, "
    "shift counts are masked, array indices are masked, loops have constant bounds (thorough tier: re-checked with gcc -fsanitize=undefined when libubsan is present)",
    "programs use only int/unsigned/long/unsigned long expressions with both operands of every binary operator cast to the same type, "
    "signed/unsigned char and short only as array elements / struct fields read and written through explicit casts; no sizeof, no floats, no varargs, no libc",
    "no unspecified evaluation order is observable: expressions have no side effects, a call to a generated function (which may write globals) is always a statement "
    "of its own whose arguments are call-free (C leaves the order of argument/operand evaluation unspecified: gcc evaluates right to left, ppci left to right)",
]

OPTS = [0, 1, 2, "s"]

STARTUP_ASM = """
section code
global start
global c04_main
global c04_write
start:
    call c04_main
    mov rdi, rax
    mov rax, 60
    syscall
c04_write:
    mov rdx, rsi
    mov rsi, rdi
    mov rdi, 1
    mov rax, 1
    syscall
    ret
"""

LAYOUT = """
ENTRY(start)
MEMORY code LOCATION=0x400000 SIZE=0x100000 { SECTION(code) }
MEMORY ram LOCATION=0x20000000 SIZE=0x100000 { SECTION(data) }
"""

RT_C = """
extern int c04_main(void);
void c04_write(char *buf, long n) {
    long r;
    __asm__ volatile ("syscall" : "=a"(r) : "a"(1L), "D"(1L), "S"(buf), "d"(n) : "rcx", "r11", "memory");
}
int main(void) { return c04_main(); }
"""

PRELUDE = """
void c04_write(char *buf, long n);
static void put_hex(unsigned long v) {
  char buf[17];
  int i;
  for (i = 0; i < 16; i = i + 1) {
    unsigned long d = (v >> (unsigned long)(60 - 4 * i)) & 15ul;
    if (d < 10ul) { buf[i] = (char)(48ul + d); } else { buf[i] = (char)(87ul + d); }
  }
  buf[16] = (char)10;
  c04_write(buf, 17l);
}
"""

# ---- generator ---------------------------------------------------------------------------------------------

TYPES = {"i": ("int", 32, True, ""), "u": ("unsigned", 32, False, "u"), "l": ("long", 64, True, "l"), "m": ("unsigned long", 64, False, "ul")}
UNS = {"i": "u", "u": "u", "l": "m", "m": "m"}
NARROW = {"b": ("signed char", 8, True), "B": ("unsigned char", 8, False), "h": ("short", 16, True), "H": ("unsigned short", 16, False)}


BOUNDARY = [b + d for b in (127, 128, 255, 256, 32767, 32768, 65535, 65536, 2 ** 31 - 1, 2 ** 31, 2 ** 32 - 1, 2 ** 32) for d in (-1, 0, 1, 2)]


def cname(t):
    return TYPES[t][0] if t in TYPES else NARROW[t][0]


def lit(rng, t, v=None):
    name, bits, signed, suf = TYPES[t]
    if v is None:
        k = rng.randrange(bits)
        pool = [0, 1, 2, 3, 5, 7, 31, 255, 256, 1 << k, (1 << k) - 1, rng.getrandbits(bits), rng.randint(0, 100)]
        if rng.random() < 0.45:          # encoding boundaries: 8/16/32-bit immediates and displacements and their neighbours
            pool = BOUNDARY
        v = rng.choice(pool)
        if signed:
            v = rng.choice([v, -v, v, -(v + 1)])
    lo, hi = (-(1 << (bits - 1)), (1 << (bits - 1)) - 1) if signed else (0, (1 << bits) - 1)
    v = (v - lo) % (hi - lo + 1) + lo
    if signed and v == lo:
        return f"(-{-(lo + 1)}{suf} - 1{suf})"
    return f"({v}{suf})" if v < 0 else f"{v}{suf}"


class FuncGen:
    def __init__(self, pg, name, ret, params):
        self.pg, self.rng, self.name, self.ret, self.params = pg, pg.rng, name, ret, params
        self.vars = {}            # name -> type (scalars in scope)
        self.arrays = {}          # name -> (elem type, size)
        self.structs = {}         # name -> struct index
        self.lines = []
        self.ind = 1
        self.nvar = 0
        self.budget = pg.rng.randint(10, 28)
        self.loop_depth = 0
        self.ro = set()           # loop counters: never assigned by generated statements

    def emit(self, s):
        self.lines.append("  " * self.ind + s)

    def fresh(self, p="v"):
        self.nvar += 1
        return f"{p}{self.nvar}"

    # -- expressions: every expression has exactly the C type `t`
    def expr(self, t, d):
        rng = self.rng
        if d <= 0 or rng.random() < 0.18:
            return self.leaf(t)
        name, bits, signed, suf = TYPES[t]
        u = UNS[t]
        r = rng.random()
        if r < 0.30:      # + - *
            op = rng.choice(["+", "-", "*", "+", "-"])
            a, b = self.expr(t, d - 1), self.expr(t, d - 1)
            if signed:
                return f"(({name})(({cname(u)}){a} {op} ({cname(u)}){b}))"
            return f"({a} {op} {b})"
        if r < 0.42:      # & | ^
            return f"({self.expr(t, d - 1)} {rng.choice('&|^')} {self.expr(t, d - 1)})"
        if r < 0.52:      # shifts: counts masked, left shifts only in the unsigned type
            a, b = self.expr(t, d - 1), self.expr(t, d - 1)
            m = f"{bits - 1}{suf}"
            if rng.random() < 0.5:
                if signed:
                    return f"(({name})(({cname(u)}){a} << (({cname(u)}){b} & {bits - 1}{TYPES[u][3]})))"
                return f"({a} << ({b} & {m}))"
            return f"({a} >> ({b} & {m}))"
        if r < 0.60:      # division: divisor forced into 1..256 (signed) / made odd (unsigned)
            a, b = self.expr(t, d - 1), self.expr(t, d - 1)
            op = rng.choice("/%")
            if signed:
                return f"({a} {op} (({b} & 255{suf}) + 1{suf}))"
            return f"({a} {op} ({b} | 1{suf}))"
        if r < 0.66:      # unary
            a = self.expr(t, d - 1)
            if rng.random() < 0.5:
                return f"(~{a})"
            return f"(({name})(0{TYPES[u][3]} - ({cname(u)}){a}))" if signed else f"(0{suf} - {a})"
        if r < 0.76:      # cast from another type
            s = rng.choice([x for x in TYPES if x != t])
            return f"(({name}){self.expr(s, d - 1)})"
        if r < 0.86:      # conditional
            return f"({self.cond(d - 1)} ? {self.expr(t, d - 1)} : {self.expr(t, d - 1)})"
        if r < 0.92 and t == "i":
            return self.cond(d - 1)
        # no calls inside expressions: the callees write globals, and C leaves the order in which the operands of an operator
        # and the arguments of a call are evaluated unspecified (gcc: right to left, ppci: left to right) - calls are statements
        return self.leaf(t)

    def cond(self, d):
        """an int-typed expression that is 0 or 1"""
        rng = self.rng
        r = rng.random()
        if d <= 0 or r < 0.6:
            s = rng.choice(list(TYPES))
            return f"({self.expr(s, max(d, 0))} {rng.choice(['<', '>', '<=', '>=', '==', '!='])} {self.expr(s, max(d - 1, 0))})"
        if r < 0.8:
            return f"({self.cond(d - 1)} {rng.choice(['&&', '||'])} {self.cond(d - 1)})"
        return f"(!{self.cond(d - 1)})"

    def leaf(self, t):
        rng = self.rng
        name = TYPES[t][0]
        cands = [v for v, vt in self.vars.items() if vt == t]
        r = rng.random()
        if cands and r < 0.5:
            return rng.choice(cands)
        if self.vars and r < 0.62:
            v = rng.choice(list(self.vars))
            return f"(({name}){v})"
        arrs = list(self.arrays) + list(self.pg.garrays)
        if arrs and r < 0.78:
            a = rng.choice(arrs)
            et, n = self.arrays.get(a) or self.pg.garrays[a]
            return f"(({name}){a}[{self.index(n)}])"
        sts = list(self.structs.items()) + list(self.pg.gstructs.items())
        if sts and r < 0.88:
            sname, si = rng.choice(sts)
            f, ft = rng.choice(self.pg.structs[si])
            return f"(({name}){sname}.{f})"
        return lit(rng, t)

    def index(self, n):
        """an int index in 0..n-1 (n a power of two)"""
        rng = self.rng
        ints = [v for v, vt in self.vars.items() if vt == "i"]
        if ints and rng.random() < 0.7:
            return f"({rng.choice(ints)} & {n - 1})"
        return str(rng.randrange(n))

    def call(self, t, d):
        """`f(args)` with call-free argument expressions; only ever used as the complete right-hand side of a statement"""
        cands = [f for f in self.pg.helpers if (t is None or f[1] == t) and f[0] != self.name]
        if not cands:
            return None, None
        fname, rt, params = self.rng.choice(cands)
        return f"{fname}({', '.join(self.expr(p, min(d, 2)) for p in params)})", rt

    # -- statements
    def stmts(self, depth):
        n = self.rng.randint(1, 4)
        for _ in range(n):
            if self.budget <= 0:
                break
            self.stmt(depth)

    def assignable(self):
        return [v for v in self.vars if v not in self.ro]

    def stmt(self, depth):
        rng = self.rng
        self.budget -= 1
        r = rng.random()
        av = self.assignable()
        if self.pg.helpers and rng.random() < 0.18:
            # a call as a statement of its own: every argument is evaluated (in whatever order, they have no side effects) before the call
            c, rt = self.call(None, 2)
            if c:
                same = [v for v in av if self.vars[v] == rt]
                if same and rng.random() < 0.5:
                    self.emit(f"{rng.choice(same)} = {c};")
                else:
                    v = self.fresh()
                    self.emit(f"{cname(rt)} {v} = {c};")
                    self.vars[v] = rt
                return
        if r < 0.16 or not av:
            t = rng.choice(list(TYPES))
            v = self.fresh()
            self.emit(f"{cname(t)} {v} = {self.expr(t, 2)};")
            self.vars[v] = t
        elif r < 0.38:
            v = rng.choice(av)
            t = self.vars[v]
            if not TYPES[t][2] and rng.random() < 0.4:
                self.emit(f"{v} {rng.choice(['+=', '-=', '*=', '^=', '|=', '&='])} {self.expr(t, 2)};")
            else:
                self.emit(f"{v} = {self.expr(t, 3)};")
        elif r < 0.48:
            arrs = list(self.arrays.items()) + list(self.pg.garrays.items())
            if arrs:
                a, (et, n) = rng.choice(arrs)
                src = rng.choice(list(TYPES))
                self.emit(f"{a}[{self.index(n)}] = ({cname(et)}){self.expr(src, 2)};")
        elif r < 0.56:
            sts = list(self.structs.items()) + list(self.pg.gstructs.items())
            if sts:
                sname, si = rng.choice(sts)
                others = [s for s, k in sts if k == si and s != sname]
                if others and rng.random() < 0.3:
                    self.emit(f"{sname} = {rng.choice(others)};")
                else:
                    f, ft = rng.choice(self.pg.structs[si])
                    self.emit(f"{sname}.{f} = ({cname(ft)}){self.expr(rng.choice(list(TYPES)), 2)};")
        elif r < 0.70 and depth < 3:
            self.emit(f"if {self.cond(2)} {{")
            self.block(depth)
            if rng.random() < 0.5:
                self.emit("} else {")
                self.block(depth)
            self.emit("}")
        elif r < 0.84 and depth < 2 and self.loop_depth < 2:
            self.loop(depth)
        elif r < 0.90 and depth < 3:
            self.switch(depth)
        elif r < 0.94 and self.loop_depth > 0:
            self.emit(f"if {self.cond(1)} {{ {rng.choice(['break', 'continue'])}; }}")
        elif r < 0.97 and depth > 0:
            self.emit(f"if {self.cond(1)} {{ return {self.result()}; }}")
        else:
            v = rng.choice(av)
            self.emit(f"{v} = {self.expr(self.vars[v], 2)};")

    def block(self, depth):
        saved = (dict(self.vars), dict(self.arrays), dict(self.structs))
        self.ind += 1
        self.stmts(depth + 1)
        self.ind -= 1
        self.vars, self.arrays, self.structs = saved

    def loop(self, depth):
        rng = self.rng
        i = self.fresh("i")
        n = rng.randint(1, 6)
        kind = rng.random()
        self.vars[i] = "i"
        self.ro.add(i)
        self.loop_depth += 1
        if kind < 0.5:
            self.emit(f"int {i};")
            self.emit(f"for ({i} = 0; {i} < {n}; {i} = {i} + 1) {{")
            self.block(depth)
            self.emit("}")
        elif kind < 0.75:
            self.emit(f"int {i} = 0;")
            self.emit(f"while ({i} < {n}) {{")
            self.ind += 1
            self.emit(f"{i} = {i} + 1;")        # first, so that `continue` cannot skip it
            self.ind -= 1
            self.block(depth)
            self.emit("}")
        else:
            self.emit(f"int {i} = 0;")
            self.emit("do {")
            self.ind += 1
            self.emit(f"{i} = {i} + 1;")
            self.ind -= 1
            self.block(depth)
            self.emit(f"}} while ({i} < {n});")
        self.loop_depth -= 1

    def switch(self, depth):
        rng = self.rng
        self.emit(f"switch ({self.expr('i', 1)} & 3) {{")
        for k in rng.sample(range(4), rng.randint(1, 3)):
            self.emit(f"case {k}: {{")
            self.block(depth)
            self.emit("}")
            if rng.random() < 0.7:
                self.emit("  break;")
        if rng.random() < 0.6:
            self.emit("default: {")
            self.block(depth)
            self.emit("}")
        self.emit("}")

    def result(self):
        """hash of all variables in scope, in the return type"""
        t = self.ret
        acc = "17ul"
        for v in list(self.vars)[:10]:
            acc = f"(({acc}) * 31ul + (unsigned long){v})"
        return f"({cname(t)})({acc})"

    def build(self):
        rng = self.rng
        for k, t in enumerate(self.params):
            self.vars[f"p{k}"] = t
        if rng.random() < 0.6:      # local array, fully initialised
            et = rng.choice(list(TYPES) + list(NARROW) + ["i", "B"])
            n = rng.choice([2, 4, 8])
            a = self.fresh("a")
            self.emit(f"{cname(et)} {a}[{n}];")
            j = self.fresh("j")
            self.emit(f"int {j};")
            src = rng.choice(list(TYPES))
            self.vars[j] = "i"
            self.ro.add(j)
            self.emit(f"for ({j} = 0; {j} < {n}; {j} = {j} + 1) {{ {a}[{j}] = ({cname(et)}){self.expr(src, 1)}; }}")
            self.arrays[a] = (et, n)
        if self.pg.structs and rng.random() < 0.5:
            si = rng.randrange(len(self.pg.structs))
            s = self.fresh("s")
            self.emit(f"struct S{si} {s};")
            for f, ft in self.pg.structs[si]:
                self.emit(f"{s}.{f} = ({cname(ft)}){self.expr(rng.choice(list(TYPES)), 1)};")
            self.structs[s] = si
        self.stmts(0)
        self.emit(f"return {self.result()};")
        sig = ", ".join(f"{cname(t)} p{k}" for k, t in enumerate(self.params)) or "void"
        return f"{cname(self.ret)} {self.name}({sig}) {{\n" + "\n".join(self.lines) + "\n}\n"


class ProgGen:
    def __init__(self, rng):
        self.rng = rng
        self.helpers = []         # (name, ret, params) callable from later functions
        self.garrays, self.gstructs, self.structs = {}, {}, []

    def build(self):
        rng = self.rng
        out = [PRELUDE]
        for si in range(rng.randint(0, 2)):
            w = rng.choice(["iu", "lm", "iu", "bBhH" if rng.random() < 0.3 else "iu"])
            nf = rng.randint(2, 4)
            if w == "bBhH":           # same-size members only: no padding anywhere
                w = rng.choice(["bB", "hH"])
            fields = [(f"f{k}", rng.choice(w)) for k in range(nf)]
            self.structs.append(fields)
            # a padding array in front moves the members to displacement boundaries (127/128/129, 255/256 …); never accessed by name
            pad = f"unsigned char pad[{rng.choice([120, 124, 127, 128, 129, 248, 252, 255, 256])}]; " if rng.random() < 0.5 else ""
            out.append(f"struct S{si} {{ " + pad + " ".join(f"{cname(t)} {f};" for f, t in fields) + " };")
        for k in range(rng.randint(1, 3)):
            et = rng.choice(list(TYPES) + list(NARROW))
            n = rng.choice([4, 8])
            bits = (TYPES.get(et) or NARROW[et])[1]
            signed = (TYPES.get(et) or NARROW[et])[2]
            vals = []
            for _ in range(n):
                v = rng.getrandbits(bits)
                if signed and v >= 1 << (bits - 1):
                    v -= 1 << bits
                if signed and v == -(1 << (bits - 1)):
                    v += 1
                vals.append(str(v) + (TYPES[et][3] if et in TYPES else ""))
            out.append(f"{cname(et)} g{k}[{n}] = {{ {', '.join(vals)} }};")
            self.garrays[f"g{k}"] = (et, n)
        for si in range(len(self.structs)):
            if rng.random() < 0.7:
                out.append(f"struct S{si} gs{si};")
                self.gstructs[f"gs{si}"] = si
        nfun = rng.randint(2, 4)
        entries = []
        for k in range(nfun):
            ret = rng.choice(list(TYPES))
            np_ = rng.choice([0, 1, 2, 3, 3, 4, 5, 6, 7, 8])
            params = [rng.choice(list(TYPES)) for _ in range(np_)]
            name = f"f{k}"
            out.append(FuncGen(self, name, ret, params).build())
            self.helpers.append((name, ret, params))
            entries.append((name, ret, params))
        # the driver: every function on a few argument vectors, then the globals
        m = ["int c04_main(void) {", "  unsigned long acc = 0ul;", "  unsigned long r;", "  int k;"]
        for name, ret, params in entries:
            for _ in range(rng.randint(2, 3)):
                args = ", ".join(lit(rng, t) for t in params)
                m.append(f"  r = (unsigned long){name}({args}); put_hex(r); acc = acc * 31ul + r;")
        for g, (et, n) in self.garrays.items():
            m.append(f"  for (k = 0; k < {n}; k = k + 1) {{ acc = acc * 31ul + (unsigned long){g}[k]; }}")
        for gsn, si in self.gstructs.items():
            for f, ft in self.structs[si]:
                m.append(f"  acc = acc * 31ul + (unsigned long){gsn}.{f};")
        m += ["  put_hex(acc);", "  return (int)(acc & 127ul);", "}"]
        out.append("\n".join(m))
        return "\n".join(out) + "\n"


CORPUS = {
    # loop-carried values swapped in the loop and used after it: at -O1/-O2 mem2reg turns them into header phis that are
    # live on the exit edge (the phi-copy defect of the code generator, fixed in /repo 038896b)
    "swap-loop": PRELUDE + """
int swap(int a, int b, int n) { int x = a; int y = b; int c = 0; do { int t = x; x = y; y = t; c = c + 1; } while (c < n); return x * 3 + y; }
int rot(int a, int b, int d, int n) { int i; for (i = 0; i < n; i = i + 1) { int t = a; a = b; b = d; d = t; } return a * 100 + b * 10 + d; }
unsigned cnt(unsigned x, unsigned n) { unsigned k = x; unsigned prev = 0u; while (k < n) { prev = k; k = k + 1u; } return prev * 7u + k; }
int c04_main(void) {
  unsigned long acc = 0ul; unsigned long r; int n;
  for (n = 0; n < 5; n = n + 1) { r = (unsigned long)swap(5, 9, n); put_hex(r); acc = acc * 31ul + r; }
  for (n = 0; n < 5; n = n + 1) { r = (unsigned long)rot(1, 2, 3, n); put_hex(r); acc = acc * 31ul + r; }
  r = (unsigned long)cnt(3u, 7u); put_hex(r); acc = acc * 31ul + r;
  r = (unsigned long)cnt(9u, 7u); put_hex(r); acc = acc * 31ul + r;
  put_hex(acc); return (int)(acc & 127ul);
}
""",
    "args-and-memory": PRELUDE + """
struct P { int x; unsigned y; };
struct P gp;
long g[4] = { 1l, -2l, 3l, -4l };
unsigned char bytes[8] = { 1, 2, 250, 4, 5, 6, 7, 255 };
long many(int a, unsigned b, long c, unsigned long d, int e, long f, int g7, unsigned long h) {
  return (long)((unsigned long)a + (unsigned long)b * 3ul + (unsigned long)c * 5ul + d * 7ul + (unsigned long)e * 11ul + (unsigned long)f * 13ul + (unsigned long)g7 * 17ul + h * 19ul);
}
int mem(int i, int v) { struct P q; q.x = v; q.y = (unsigned)i; gp = q; g[i & 3] = (long)v; bytes[i & 7] = (unsigned char)v; return (int)bytes[(i + 1) & 7] + gp.x + (int)(g[(i + 1) & 3] & 255l); }
int sw(int x) { int r = 0; switch (x & 3) { case 0: r = 10; break; case 1: r = r + 2; case 2: r = r * 3 + 1; break; default: r = x - 1; } return r; }
int c04_main(void) {
  unsigned long acc = 0ul; unsigned long r; int k;
  r = (unsigned long)many(1, 2u, 3l, 4ul, -5, -6l, 7, 8ul); put_hex(r); acc = acc * 31ul + r;
  for (k = 0; k < 6; k = k + 1) { r = (unsigned long)mem(k, k * 37 - 50); put_hex(r); acc = acc * 31ul + r; r = (unsigned long)sw(k - 2); put_hex(r); acc = acc * 31ul + r; }
  for (k = 0; k < 8; k = k + 1) { acc = acc * 31ul + (unsigned long)bytes[k]; }
  put_hex(acc); return (int)(acc & 127ul);
}
""",
}


# `continue` in a do-while must evaluate the loop condition (the C front-end jumped to the start of the body, fixed in /repo)
CORPUS["do-continue"] = PRELUDE + """
int dc(int limit) { int i = 0; int n = 0; do { i = i + 1; n = n + 1; if (n < limit) { continue; } n = n + 100; } while (i < 2); return n; }
int c04_main(void) {
  unsigned long acc = 0ul; unsigned long r; int k;
  for (k = 0; k < 5; k = k + 1) { r = (unsigned long)dc(k * 3); put_hex(r); acc = acc * 31ul + r; }
  put_hex(acc); return (int)(acc & 127ul);
}
"""


def _operators_program():
    """every comparison and every arithmetic operator of the four types on all pairs of 8 boundary values (incl. equal operands)"""
    out = [PRELUDE]
    bvals = {"i": ["0", "1", "(-1)", "7", "2147483647", "(-2147483647 - 1)", "(-30)", "65536"],
             "u": ["0u", "1u", "4294967295u", "7u", "2147483647u", "2147483648u", "4294967266u", "65536u"],
             "l": ["0l", "1l", "(-1l)", "7l", "9223372036854775807l", "(-9223372036854775807l - 1l)", "(-30l)", "4294967296l"],
             "m": ["0ul", "1ul", "18446744073709551615ul", "7ul", "9223372036854775807ul", "9223372036854775808ul", "18446744073709551586ul", "4294967296ul"]}
    for t, (name, bits, signed, suf) in TYPES.items():
        u = cname(UNS[t])
        out.append(f"{name} tab_{t}[8] = {{ {', '.join(bvals[t])} }};")
        out.append(f"int cmp_{t}({name} a, {name} b) {{ int r = 0; if (a < b) {{ r = r | 1; }} if (a <= b) {{ r = r | 2; }} if (a > b) {{ r = r | 4; }} "
                   f"if (a >= b) {{ r = r | 8; }} if (a == b) {{ r = r | 16; }} if (a != b) {{ r = r | 32; }} "
                   f"r = r | ((a < b) << 6) | ((a <= b) << 7) | ((a > b) << 8) | ((a >= b) << 9); return r; }}")
        if signed:
            ar = (f"{name} r = ({name})(({u})a + ({u})b); r = ({name})(({u})r * 31{TYPES[UNS[t]][3]} + (({u})a - ({u})b)); "
                  f"r = r ^ ({name})(({u})a * ({u})b); r = r ^ (a & b) ^ ((a | b) >> (b & {bits - 1}{suf})); "
                  f"r = r ^ (a / ((b & 255{suf}) + 1{suf})) ^ ((a % ((b & 255{suf}) + 1{suf})) * 8{suf}); r = r ^ (~a) ^ ({name})(0{TYPES[UNS[t]][3]} - ({u})b);")
        else:
            ar = (f"{name} r = a + b; r = r * 31{suf} + (a - b); r = r ^ (a * b); r = r ^ (a & b) ^ ((a | b) >> (b & {bits - 1}{suf})) ^ (a << (b & {bits - 1}{suf})); "
                  f"r = r ^ (a / (b | 1{suf})) ^ ((a % (b | 1{suf})) << 3); r = r ^ (~a) ^ (0{suf} - b);")
        out.append(f"{name} ar_{t}({name} a, {name} b) {{ {ar} return r; }}")
    m = ["int c04_main(void) {", "  unsigned long acc = 0ul; int i; int j;"]
    for t in TYPES:
        m.append(f"  for (i = 0; i < 8; i = i + 1) {{ unsigned long row = 0ul; for (j = 0; j < 8; j = j + 1) {{ "
                 f"row = row * 1031ul + (unsigned long)cmp_{t}(tab_{t}[i], tab_{t}[j]); acc = acc * 31ul + (unsigned long)ar_{t}(tab_{t}[i], tab_{t}[j]); }} put_hex(row); put_hex(acc); }}")
    m += ["  return (int)(acc & 127ul);", "}"]
    out.append("\n".join(m))
    return "\n".join(out) + "\n"


CORPUS["operators"] = _operators_program()


def _boundary_programs():
    """fixed boundary-directed programs: every constant sits on an encoding boundary (8/16/32-bit immediates and
    displacements) or next to one; struct members at byte offsets 127/128/129/255/256/32767/32768/32769 reached through
    pointers, globals and locals, read and written, with guard areas around them"""
    progs = {}
    ks = [127, 128, 129, 255, 256, 257, 32767, 32768, 32769, 65535, 65536, 65537,
          2 ** 31 - 1, 2 ** 31, 2 ** 31 + 1, 2 ** 32 - 1, 2 ** 32, 2 ** 32 + 1]
    xs64 = ["0l", "1l", "(-1l)", "1000l", "(-1000l)", "128l", "(-128l)", "4294967296l", "(-2147483648l)"]
    xs32 = ["0", "1", "(-1)", "1000", "(-1000)", "128", "(-128)", "32768", "(-32768)"]

    def driver(calls):
        m = ["int c04_main(void) {", "  unsigned long acc = 0ul; unsigned long r; int k;"]
        for c in calls:
            m.append(f"  r = (unsigned long)({c}); put_hex(r); acc = acc * 31ul + r;")
        m += ["  put_hex(acc);", "  return (int)(acc & 127ul);", "}"]
        return "\n".join(m) + "\n"

    # -- x + K, x - K, K - x (signed directly where no overflow is possible, and in the unsigned type)
    def addsub(name, t, ut, suf, usuf, klist, xs):
        body = [f"{t} {name}_s({t} x) {{ unsigned long r = 17ul;"]
        for k in klist:
            body.append(f"  r = r * 31ul + (unsigned long)(x + {k}{suf}); r = r * 31ul + (unsigned long)(x - {k}{suf}); r = r * 31ul + (unsigned long)({k}{suf} - x);")
            body.append(f"  r = r * 31ul + (unsigned long)(x + (-{k}{suf}));")
        body.append(f"  return ({t})r; }}")
        body.append(f"{ut} {name}_u({ut} x) {{ unsigned long r = 17ul;")
        for k in klist:
            body.append(f"  r = r * 31ul + (unsigned long)(x + {k}{usuf}); r = r * 31ul + (unsigned long)(x - {k}{usuf}); r = r * 31ul + (unsigned long)({k}{usuf} - x);")
        body.append(f"  return ({ut})r; }}")
        # one small function per constant as well (the selector sees `x + K` alone: lea / add-immediate forms)
        for k in klist:
            body.append(f"{t} {name}_p{k}({t} x) {{ return x + {k}{suf}; }}  {t} {name}_m{k}({t} x) {{ return x - {k}{suf}; }}")
        calls = []
        for x in xs:
            calls.append(f"{name}_s({x})")
            calls.append(f"{name}_u(({ut}){x})")
        for k in klist:
            for x in xs[:5]:
                calls.append(f"{name}_p{k}({x})")
                calls.append(f"{name}_m{k}({x})")
        return "\n".join(body) + "\n", calls
    b, c = addsub("al", "long", "unsigned long", "l", "ul", ks, xs64)
    progs["boundary-add-long"] = PRELUDE + b + driver(c)
    b, c = addsub("ai", "int", "unsigned", "", "u", [k for k in ks if k <= 65537], xs32)
    progs["boundary-add-int"] = PRELUDE + b + driver(c)

    # -- comparisons against K at K-1, K, K+1
    body, calls = [], []
    for t, suf, klist in (("int", "", [k for k in ks if k < 2 ** 31 - 1]), ("unsigned", "u", [k for k in ks if k < 2 ** 32 - 1]),
                          ("long", "l", ks), ("unsigned long", "ul", ks)):
        fn = "cmp_" + t.replace(" ", "_")
        body.append(f"int {fn}({t} x) {{ int r = 0;")
        for k in klist:
            body.append(f"  r = r * 3 + (x < {k}{suf}) + (x == {k}{suf}) * 2; if (x >= {k}{suf}) {{ r = r ^ 5; }} if (x != {k}{suf}) {{ r = r + 1; }} r = r & 1048575;")
        body.append("  return r; }")
        for k in klist:
            for d in (-1, 0, 1):
                calls.append(f"{fn}({k + d}{suf})")
        if t in ("int", "long"):
            body.append(f"int {fn}_neg({t} x) {{ int r = 0;")
            for k in klist:
                body.append(f"  r = r * 3 + (x < (-{k}{suf})) + (x == (-{k}{suf})) * 2; if (x > (-{k}{suf})) {{ r = r ^ 5; }} r = r & 1048575;")
            body.append("  return r; }")
            for k in klist:
                for d in (-1, 0, 1):
                    calls.append(f"{fn}_neg(({t})({-k + d}{suf}))")
    progs["boundary-compare"] = PRELUDE + "\n".join(body) + "\n" + driver(calls)

    # -- immediates of & | ^ * / %, constant shift counts
    body, calls = [], []
    for t, suf, bits in (("unsigned", "u", 32), ("unsigned long", "ul", 64)):
        fn = "imm_" + t.replace(" ", "_")
        klist = [k for k in ks if k < 2 ** bits]
        body.append(f"{t} {fn}({t} x) {{ {t} r = 17{suf};")
        for k in klist:
            body.append(f"  r = r * 31{suf} + (x & {k}{suf}); r = r * 31{suf} + (x | {k}{suf}); r = r * 31{suf} + (x ^ {k}{suf}); r = r * 31{suf} + (x * {k}{suf}); "
                        f"r = r * 31{suf} + (x / {k}{suf}); r = r * 31{suf} + (x % {k}{suf});")
        for c in [0, 1, 7, 8, 15, 16, 31] + ([32, 33, 63] if bits == 64 else []):
            body.append(f"  r = r * 31{suf} + (x << {c}{suf}); r = r * 31{suf} + (x >> {c}{suf});")
        body.append("  return r; }")
        for x in ("0", "1", "127", "128", "255", "256", "65535", "65536", "2147483647", "2147483648", "4294967295", "305419896"):
            calls.append(f"{fn}({x}{suf})")
        if bits == 64:
            calls += [f"{fn}(4294967296ul)", f"{fn}(18446744073709551615ul)", f"{fn}(9223372036854775808ul)"]
    for t, suf, bits in (("int", "", 32), ("long", "l", 64)):
        fn = "sar_" + t
        body.append(f"{t} {fn}({t} x) {{ {t} r = 0{suf};")
        for c in [0, 1, 7, 8, 15, 16, 31] + ([32, 33, 63] if bits == 64 else []):
            body.append(f"  r = r ^ (x >> {c}{suf});")
        for k in (127, 128, 129, 255, 256, 32767, 32768):
            body.append(f"  r = r ^ (x / {k}{suf}) ^ (x % {k}{suf}) ^ (x & {k}{suf});")
        body.append("  return r; }")
        for x in ("0", "1", "(-1)", "127", "128", "(-128)", "(-129)", "32768", "(-32769)", "2147483647", "(-2147483647 - 1)"):
            calls.append(f"{fn}({x}{suf if x[0] != '(' or 'l' in suf else ''})" if suf == "" else f"{fn}(({t}){x})")
    progs["boundary-immediates"] = PRELUDE + "\n".join(body) + "\n" + driver(calls)

    # -- struct members at exact displacements, through pointers, globals and locals
    def structs(name, offs, with_local):
        body, calls = [], []
        for n in offs:
            body.append(f"struct B{n} {{ unsigned char pad[{n}]; unsigned char c; unsigned char t; }};")
            kinds = [("B", "unsigned char", "c", "t")]
            if n % 8 == 0:
                body.append(f"struct L{n} {{ long pre[{n // 8}]; long m; long post; }};")
                kinds.append(("L", "long", "m", "post"))
            if n % 4 == 0:
                body.append(f"struct I{n} {{ int pre[{n // 4}]; int m; int post; }};")
                kinds.append(("I", "int", "m", "post"))
            for kd, mt, mem, nxt in kinds:
                st = f"struct {kd}{n}"
                tag = f"{kd}{n}"
                arr, cnt = ("pad", n) if kd == "B" else ("pre", n // (8 if kd == "L" else 4))
                body.append(f"unsigned long guard_a_{tag}[20];")
                body.append(f"{st} g_{tag};")
                body.append(f"unsigned long guard_b_{tag}[20];")
                body.append(f"{st} pool_{tag}[3];")
                body.append(f"void set_{tag}({st} *p, long v) {{ p->{mem} = ({mt})v; }}")
                body.append(f"void setn_{tag}({st} *p, long v) {{ p->{nxt} = ({mt})v; }}")
                body.append(f"long get_{tag}({st} *p) {{ return (long)p->{mem}; }}")
                body.append(f"long getn_{tag}({st} *p) {{ return (long)p->{nxt}; }}")
                body.append(f"void fill_{tag}({st} *p, long v) {{ int k; for (k = 0; k < {cnt}; k = k + 1) {{ p->{arr}[k] = ({mt if kd != 'B' else 'unsigned char'})(v + (long)k); }} p->{mem} = ({mt})(v * 3l); p->{nxt} = ({mt})(v * 5l); }}")
                body.append(f"unsigned long sum_{tag}({st} *p) {{ unsigned long r = 7ul; int k; for (k = 0; k < {cnt}; k = k + 1) {{ r = r * 31ul + (unsigned long)p->{arr}[k]; }} "
                            f"r = r * 31ul + (unsigned long)p->{mem}; r = r * 31ul + (unsigned long)p->{nxt}; return r; }}")
                body.append(f"unsigned long gsum_{tag}(void) {{ unsigned long r = 3ul; int k; for (k = 0; k < 20; k = k + 1) {{ r = r * 31ul + guard_a_{tag}[k]; r = r * 31ul + guard_b_{tag}[k]; }} return r; }}")
                body.append(f"long glob_{tag}(long v) {{ g_{tag}.{mem} = ({mt})v; g_{tag}.{nxt} = ({mt})(v + 1l); g_{tag}.{arr}[{cnt - 1}] = ({mt if kd != 'B' else 'unsigned char'})(v + 2l); "
                            f"return (long)g_{tag}.{mem} * 65536l + (long)g_{tag}.{nxt} * 256l + (long)g_{tag}.{arr}[{cnt - 1}]; }}")
                if with_local:
                    body.append(f"long loc_{tag}(long v) {{ {st} q; {st} r2; fill_{tag}(&q, v); q.{mem} = ({mt})(v + 9l); r2 = q; r2.{nxt} = ({mt})(v + 11l); "
                                f"return (long)(sum_{tag}(&q) * 3ul + sum_{tag}(&r2)) + (long)r2.{mem} + (long)q.{nxt}; }}")
                calls += [f"(fill_{tag}(&g_{tag}, 5l), sum_{tag}(&g_{tag}))", f"(fill_{tag}(&pool_{tag}[0], 1l), fill_{tag}(&pool_{tag}[1], 2l), fill_{tag}(&pool_{tag}[2], 3l), 0)",
                          f"(set_{tag}(&pool_{tag}[1], 77l), get_{tag}(&pool_{tag}[1]))", f"(setn_{tag}(&pool_{tag}[1], 78l), getn_{tag}(&pool_{tag}[1]))",
                          f"sum_{tag}(&pool_{tag}[0])", f"sum_{tag}(&pool_{tag}[1])", f"sum_{tag}(&pool_{tag}[2])",
                          f"(set_{tag}(&g_{tag}, 99l), get_{tag}(&g_{tag}) + getn_{tag}(&g_{tag}))", f"glob_{tag}(41l)", f"sum_{tag}(&g_{tag})", f"gsum_{tag}()"]
                if with_local:
                    calls.append(f"loc_{tag}(13l)")
        return PRELUDE + "\n".join(body) + "\n" + driver(calls)
    progs["boundary-struct-8bit"] = structs("s8", [120, 124, 127, 128, 129, 136], True)
    progs["boundary-struct-16bit"] = structs("s16", [255, 256, 32767, 32768, 32769], True)

    # -- constant indices and pointer offsets into global and local arrays
    body, calls = [], []
    body.append("unsigned char gc[70000]; int gi[300]; long gl[300];")
    body.append("void init(void) { int k; for (k = 0; k < 70000; k = k + 1) { gc[k] = (unsigned char)(k * 7 + 3); } for (k = 0; k < 300; k = k + 1) { gi[k] = k * 1001 - 7; gl[k] = (long)k * 100003l - 11l; } }")
    idx_c = [k for k in ks if k < 70000]
    rd = " ".join(f"r = r * 31ul + (unsigned long)p[{k}]; r = r * 31ul + (unsigned long)*(p + {k}); r = r * 31ul + (unsigned long)gc[{k}];" for k in idx_c)
    body.append(f"unsigned long rd_c(unsigned char *p) {{ unsigned long r = 1ul; {rd} return r; }}")
    wr = " ".join(f"p[{k}] = (unsigned char)(v + {i}); *(p + {k + 1}) = (unsigned char)(v + {i + 50}); gc[{k + 2}] = (unsigned char)(v + {i + 100});" for i, k in enumerate(idx_c))
    body.append(f"void wr_c(unsigned char *p, int v) {{ {wr} }}")
    body.append("unsigned long sum_c(void) { unsigned long r = 1ul; int k; for (k = 0; k < 70000; k = k + 1) { r = r * 31ul + (unsigned long)gc[k]; } return r; }")
    for t, arr, scale in (("int", "gi", 4), ("long", "gl", 8)):
        idx = sorted({k // scale + d for k in (127, 128, 129, 255, 256, 257) for d in (-1, 0, 1)} | {127, 128, 129, 255, 256, 257})
        rd = " ".join(f"r = r * 31ul + (unsigned long)p[{k}]; r = r * 31ul + (unsigned long)*(p + {k}); r = r * 31ul + (unsigned long){arr}[{k}];" for k in idx)
        body.append(f"unsigned long rd_{t}({t} *p) {{ unsigned long r = 1ul; {rd} return r; }}")
        wr = " ".join(f"p[{k}] = ({t})(v + {i}); " for i, k in enumerate(idx)) + " ".join(f"{arr}[{k + 1}] = ({t})(v - {i});" for i, k in enumerate(idx[::2]))
        body.append(f"void wr_{t}({t} *p, {t} v) {{ {wr} }}")
        body.append(f"unsigned long sum_{t}(void) {{ unsigned long r = 1ul; int k; for (k = 0; k < 300; k = k + 1) {{ r = r * 31ul + (unsigned long){arr}[k]; }} return r; }}")
    # locals: frame-pointer relative displacements sweep across -128 / -129 / -32768
    body.append("unsigned long loc_sweep(int v) { unsigned char buf[300]; long la[40]; int k; unsigned long r = 1ul; "
                "for (k = 0; k < 300; k = k + 1) { buf[k] = (unsigned char)(k + v); } for (k = 0; k < 40; k = k + 1) { la[k] = (long)(k * v); } "
                + " ".join(f"buf[{k}] = (unsigned char)(buf[{k}] + {k % 7 + 1});" for k in range(0, 300, 1) if k % 3 == 0 or k in (127, 128, 129, 255, 256))
                + " " + " ".join(f"la[{k}] = la[{k}] + {k + 1}l;" for k in range(40))
                + " for (k = 0; k < 300; k = k + 1) { r = r * 31ul + (unsigned long)buf[k]; } for (k = 0; k < 40; k = k + 1) { r = r * 31ul + (unsigned long)la[k]; } return r; }")
    body.append("unsigned long loc_big(int v) { unsigned char big[33000]; int k; unsigned long r = 1ul; for (k = 0; k < 33000; k = k + 1) { big[k] = (unsigned char)(k * 3 + v); } "
                + " ".join(f"big[{k}] = (unsigned char)(big[{k}] ^ {k % 200 + 1});" for k in (0, 1, 100, 127, 128, 129, 200, 231, 232, 233, 32767 - 200, 32767, 32768, 32769, 32999))
                + " for (k = 0; k < 33000; k = k + 1) { r = r * 31ul + (unsigned long)big[k]; } return r; }")
    calls = ["(init(), 1)", "rd_c(gc)", "rd_c(gc + 1)", "(wr_c(gc, 17), sum_c())", "(wr_c(gc + 3, 29), sum_c())",
             "rd_int(gi)", "rd_int(gi + 1)", "(wr_int(gi, 1234567), sum_int())", "(wr_int(gi + 2, -7654321), sum_int())",
             "rd_long(gl)", "rd_long(gl + 1)", "(wr_long(gl, 123456789012l), sum_long())", "(wr_long(gl + 2, -98765432101l), sum_long())",
             "loc_sweep(3)", "loc_sweep(-5)", "loc_big(1)", "loc_big(-2)"]
    progs["boundary-arrays"] = PRELUDE + "\n".join(body) + "\n" + driver(calls)
    return progs


BOUNDARY_PROGRAMS = _boundary_programs()


# ---- building and running ----------------------------------------------------------------------------------

def _quiet():
    import logging
    logging.disable(logging.CRITICAL)


def gcc_reference(src, workdir):
    """(stdout, exit status) of the gcc -O0 build; None if gcc rejects the program (generator bug)"""
    with open(os.path.join(workdir, "prog.c"), "w") as f:
        f.write(src)
    with open(os.path.join(workdir, "rt.c"), "w") as f:
        f.write(RT_C)
    r = subprocess.run(["gcc", "-O0", "-w", "-fno-builtin", "-fwrapv", "-o", "ref", "prog.c", "rt.c"], cwd=workdir, capture_output=True, text=True)
    if r.returncode != 0:
        return None, r.stderr[-800:]
    p = subprocess.run([os.path.join(workdir, "ref")], capture_output=True, timeout=20)
    return (p.stdout.decode("latin1"), p.returncode), None


def build_and_run(job):
    """worker: one program at one optimisation level along both link paths.
    -> dict(opt, compile_error | static=(stdout,status)|error, gcclink=(stdout,status)|error, streams, frames)"""
    repo, src, opt, workdir, capture = job
    import sys
    if repo not in sys.path:
        sys.path.insert(0, repo)
    _quiet()
    from ppci import api
    from ppci.format.elf import write_elf
    res = {"opt": opt}
    peep = cgslivers.PeepCapture()
    allocs = cgslivers.AllocCapture()
    try:
        with peep, allocs:
            obj = api.cc(io.StringIO(src), "x86_64", opt_level=opt)
    except Exception as e:  # noqa
        res["compile_error"] = f"{type(e).__name__}: {str(e)[:300]}"
        return res
    if capture:
        try:
            res["streams"] = [{"toks": cgslivers.abstract_stream(s["in"]),
                               "kept": _kept_positions(s["in"], s["out"])} for s in peep.streams if s["in"]]
        except ValueError as e:
            res["streams_error"] = str(e)
        res["frames"] = [(name, mode, h, slots, stacksize, alignment) for name, mode, h, slots, stacksize, alignment in allocs.histories()]
    tag = f"o{opt}"
    # (B) ppci's own linker -> static ELF executable
    try:
        start = api.asm(io.StringIO(STARTUP_ASM), "x86_64")
        linked = api.link([start, obj], layout=io.StringIO(LAYOUT))
        exe = os.path.join(workdir, f"static_{tag}")
        api.objcopy(linked, "code", "elf", exe)
        os.chmod(exe, 0o755)
        p = subprocess.run([exe], capture_output=True, timeout=20)
        res["static"] = (p.stdout.decode("latin1"), p.returncode)
    except subprocess.TimeoutExpired:
        res["static"] = "timeout"
    except Exception as e:  # noqa
        res["static_error"] = f"{type(e).__name__}: {str(e)[:300]}"
    # (C) relocatable ELF + gcc
    try:
        po = os.path.join(workdir, f"p_{tag}.o")
        with open(po, "wb") as f:
            write_elf(obj, f, type="relocatable")
        exe = os.path.join(workdir, f"gcclink_{tag}")
        r = subprocess.run(["gcc", "-O0", "-w", "-no-pie", "-o", exe, po, "rt.c"], cwd=workdir, capture_output=True, text=True)
        if r.returncode != 0:
            res["gcclink_error"] = "gcc/ld: " + r.stderr[-300:]
        else:
            p = subprocess.run([exe], capture_output=True, timeout=20)
            res["gcclink"] = (p.stdout.decode("latin1"), p.returncode)
    except subprocess.TimeoutExpired:
        res["gcclink"] = "timeout"
    except Exception as e:  # noqa
        res["gcclink_error"] = f"{type(e).__name__}: {str(e)[:300]}"
    return res


def _kept_positions(ins, outs):
    kept, j = [], 0
    for i, it in enumerate(ins):
        if j < len(outs) and outs[j] is it:
            kept.append(i)
            j += 1
    return kept if j == len(outs) else None


def first_diff(a, b):
    la, lb = a.split("\n"), b.split("\n")
    for k, (x, y) in enumerate(zip(la, lb)):
        if x != y:
            return f"line {k}: {x!r} vs {y!r}"
    return f"length {len(la)} vs {len(lb)} lines"


def ubsan_clean(src, workdir):
    """thorough tier: is the generated program really UB-free (as far as gcc's sanitizer sees)?"""
    r = subprocess.run(["gcc", "-O0", "-w", "-fno-builtin", "-fsanitize=undefined", "-fno-sanitize-recover=all", "-o", "ub", "prog.c", "rt.c"],
                       cwd=workdir, capture_output=True, text=True)
    if r.returncode != 0:
        return None
    p = subprocess.run([os.path.join(workdir, "ub")], capture_output=True, timeout=20)
    return b"runtime error" not in p.stderr


def program_search(ctx, parts):
    import random
    if not shutil.which("gcc"):
        raise common.BrokenCheck("gcc not found (needed as the oracle of the C04 failing-input search)")
    nprog = 30 if ctx.thorough else 3
    base = ctx.rng.randrange(1 << 30)
    programs = [(name, src) for name, src in CORPUS.items()]
    programs += list(BOUNDARY_PROGRAMS.items())
    for k in range(nprog):
        programs.append((f"gen-seed-{base + k}", ProgGen(random.Random(base + k)).build()))
    tmp = tempfile.mkdtemp(prefix="c04-")
    try:
        jobs, refs = [], {}
        for name, src in programs:
            wd = os.path.join(tmp, name)
            os.makedirs(wd)
            ref, err = gcc_reference(src, wd)
            if ref is None:
                ctx.note(f"{name}: gcc rejects the generated program (generator defect, skipped): {err[:200]}")
                ctx.count("generator_rejected_by_gcc")
                continue
            if ctx.thorough and ubsan_clean(src, wd) is False:
                ctx.note(f"{name}: gcc -fsanitize=undefined reports a runtime error (generator defect, skipped)")
                ctx.count("generator_ub")
                continue
            refs[name] = (src, ref)
            # quick tier: the boundary programs at -O0 and -O2 only (both link paths); everything else at all four levels
            for opt in (OPTS if ctx.thorough or name not in BOUNDARY_PROGRAMS else [0, 2]):
                jobs.append((name, (str(common.REPO), src, opt, wd, True)))
        workers = min(8 if ctx.thorough else 4, max(1, (os.cpu_count() or 2) // 2))
        with ProcessPoolExecutor(max_workers=workers) as ex:
            results = list(ex.map(build_and_run, [j for _, j in jobs]))
        streams, frames = [], []
        for (name, job), res in zip(jobs, results):
            src, ref = refs[name]
            opt = res["opt"]
            case = {"program": name, "opt": opt, "source": src}
            if "compile_error" in res:
                # a front-end / selector failure is C28's / C29's subject; it is counted, not a C04 failure
                ctx.count("compile_error")
                ctx.note(f"{name} -O{opt}: {res['compile_error'][:160]}")
                continue
            ctx.count("programs_compiled")
            for s in res.get("streams", []):
                streams.append((name, opt, s))
            for fr in res.get("frames", []):
                frames.append(fr)
            if "streams_error" in res:
                ctx.disagree("PeepHoleStream", f"{name} -O{opt}", res["streams_error"], "only set-pc effects are modelled")
            for path in ("static", "gcclink"):
                if path + "_error" in res:
                    ctx.fail(f"c-run:{path}:build-failed", f"{name} -O{opt}: the {path} path could not be built: {res[path + '_error']}", case)
                    continue
                got = res.get(path)
                ctx.count("eval_program_run")
                ctx.nontrivial((name, str(opt), path))
                if got == "timeout":
                    ctx.fail(f"c-run:{path}:timeout", f"{name} -O{opt} ({path}): the ppci-compiled program does not terminate", case)
                elif got[0] != ref[0]:
                    ctx.fail(f"c-run:{path}:wrong-output", f"{name} -O{opt} ({path}): stdout differs from gcc ({first_diff(got[0], ref[0])}), exit status {got[1]} vs {ref[1]}",
                             case, ppci=got, gcc=ref)
                elif got[1] != ref[1]:
                    ctx.fail(f"c-run:{path}:wrong-exit-status", f"{name} -O{opt} ({path}): exit status {got[1]}, gcc {ref[1]}", case, ppci=got, gcc=ref)
        if refs:
            n0 = next(iter(refs))
            ctx.sample({"program": n0, "gcc_stdout_first_lines": refs[n0][1][0].split("\n")[:3], "exit_status": refs[n0][1][1]})
    finally:
        shutil.rmtree(tmp, ignore_errors=True)
    # peephole: real x86_64 streams (one per compiled function), model + property
    parts.append(_stream_part(ctx, streams))
    parts.append(_frames_part(ctx, frames))


def _stream_part(ctx, streams):
    reqs = ["peep " + ",".join(s["toks"]) for _, _, s in streams]

    def finish(out):
        for (name, opt, s), rq, m in zip(streams, reqs, out):
            ctx.count("eval_peephole_stream")
            toks, kept = s["toks"], s["kept"]
            case = {"program": name, "opt": opt, "items": len(toks)}
            if kept is None:
                ctx.fail("peephole:output-not-a-subsequence", f"{name} -O{opt}: downstream received items that were never emitted / out of order", case)
                continue
            impl = "ok " + (",".join(toks[i] for i in kept) or "-") + " fn=1"
            if impl != m:
                ctx.disagree("PeepHoleStream (x86_64 code generation)", rq[:400], impl[:400], m[:400])
            ks = set(kept)
            dropped = [i for i in range(len(toks)) if i not in ks]
            if dropped:
                ctx.nontrivial(("peep", name, str(opt), len(dropped)))
                ctx.count("peephole_dropped_items", len(dropped))
            labels = [t for t in toks if t[0] == "L"]
            for i in dropped:
                a = toks[i]
                b = toks[i + 1] if i + 1 < len(toks) else None
                if a[0] != "J":
                    ctx.fail("peephole:dropped-non-jump", f"{name} -O{opt}: item {i} ({a}) was dropped", case, stream=toks)
                elif b is None:
                    ctx.fail("peephole:dropped-last-item", f"{name} -O{opt}: the last item ({a}) was dropped", case, stream=toks)
                elif b[0] == "L" and b[1:] == a[1:]:
                    if labels.count(b) != 1:
                        ctx.fail("peephole:dropped-jump-to-duplicated-label", f"{name} -O{opt}: dropped {a}, label defined {labels.count(b)} times", case, stream=toks)
                elif b == a:
                    pass
                else:
                    ctx.fail("peephole:dropped-jump-not-followed-by-target", f"{name} -O{opt}: dropped {a} in front of {b}", case, stream=toks)
    return reqs, finish


def _frames_part(ctx, frames):
    reqs = [f"alloc {mode} " + (",".join(f"{a}:{b}" for a, b in h) or "-") for _, mode, h, _, _, _ in frames]

    def finish(out):
        for (name, mode, h, slots, stacksize, alignment), rq, m in zip(frames, reqs, out):
            ctx.count("eval_captured_frame_alloc")
            if len(h) > 2:
                ctx.nontrivial(("frame", name, tuple(map(tuple, h))))
            i = cgslivers._fmt_alloc(stacksize, alignment, [tuple(s) for s in slots])
            if i != m:
                ctx.disagree("Frame.alloc (captured while compiling for x86_64)", rq, i, m)
            cgslivers.eval_slots(ctx, "Frame.alloc", mode, [tuple(x) for x in h], stacksize, alignment, [tuple(s) for s in slots],
                                 {"mode": mode, "history": h, "frame": name})
    return reqs, finish


def check(ctx):
    parts = [cgslivers.frame_alloc(ctx, modes=("top",))]
    synth = cgslivers.synthetic_peephole(ctx, 2000 if ctx.thorough else 250)
    parts.append(cgslivers.peephole_check(ctx, synth, "synthetic streams through the real PeepHoleStream"))
    program_search(ctx, parts)
    cgslivers.run_parts(ctx, "C04", parts)
    ctx.extra_cov["exhaustive"] = False
    ctx.extra_cov["link_paths"] = "ppci linker -> static ELF executable; ppci relocatable ELF + gcc/ld"
    ctx.extra_cov["not_covered"] = "floats, varargs, libc, 8/16-bit arithmetic (C29), sizeof (C01), programs reading input"


def replay(ctx, rp):
    check(ctx)
