"""C06 register allocation never clobbers a live value -- verified validator.

Every frame that ppci's GraphColoringRegisterAllocator colours while compiling
generated C programs is captured FROM OUTSIDE (the allocator methods are
wrapped in this process, nothing is changed in /repo), serialised, and handed
to the Lean checker `Model.RA.check` (proved sound in Props/C06.lean:
`alloc_sound`) and, for every call of `rewrite_program`, to
`Model.RA.checkSpillStep`.  A rejection by the Lean checker is located with the
Python reference re-implementation below (instruction + the two values that
collide + a path entry -> clobber -> read) and reported with ctx.fail.
"""
import io
import json
import time

PROP = "C06"
LEAN_PROPS = "PpciVerif/Props/C06.lean"
LEAN_TARGETS = ["PpciVerif.Props.C06", "Drivers.C06"]
LEVEL = "translation_validation"
LEVEL_TEXT = (
    "Verified validator. Lean theorem `alloc_sound` (all programs, colourings, alias relations, liveness "
    "annotations, instruction semantics, initial states, junk written to aliased registers, and execution lengths): if "
    "`Model.RA.check` accepts a coloured instruction list then the coloured program run on a physical register file in which "
    "every write havocs all aliasing registers computes, step for step, the same control flow, the same memory state and the "
    "same operand values as the virtual-register program (relation: for all live v, P(colour v) = R v); hence every read sees "
    "the most recent definition of the value it names (`reads_agree`), and two simultaneously live values share or alias a "
    "register only if it is the identical register and they hold equal values in every execution (`shared_register_means_copies`). "
    "The checker does not trust ppci's liveness (it validates a supplied post-fixpoint). Every frame coloured by the real "
    "allocator for the generated programs is run through this checker; every spill rewrite through `checkSpillStep` "
    "(its soundness theorem is proved at the level described in notes/C06.md)."
)
LEVEL_NOTE = (
    "per-output validation: the quantifier over programs/targets is discharged only for the frames generated in this run; "
    "trusted: used_registers/defined_registers/clobbers/ismove/jumps are truthful about the hardware (C07), Register.aliases "
    "describes the hardware overlap, spill load/store sequences produced by MiniGen really load/store the slot, the capture code"
)
TECHNIQUE = "Lean 4 proof of a translation validator (simulation by induction over executions) + validation of every captured real allocation"
RULE = (
    "programs = generated C functions (register-pressure straight-line blocks, values live across calls with many arguments, "
    "loops with loop-carried values, diamonds producing phi moves, mixed 8/16/32/64-bit integer types) compiled with ppci.api.cc at "
    "opt_level 0 and 2; one validation per coloured frame and one per spill rewrite; non-trivial = frame with at least one spill "
    "rewrite, or at least one coalesced (removed) move, or at least one pair of aliasing-but-different physical registers in use"
)
TRUSTED = [
    "truthfulness of used_registers/defined_registers/clobbers/ismove/jumps annotations w.r.t. the hardware (property C07)",
    "Register.aliases as the description of hardware register overlap (overlap = common sub-register)",
    "MiniGen.gen_load/gen_store sequences implement 'fresh := slot' / 'slot := fresh' (instruction selection, not allocation)",
    "the capture wrappers in harness/c06.py (identity matching of instruction objects, snapshots of operands)",
    "deleting an instruction marked removed (a move whose source and destination got the identical physical register) from the list is the no-op the Lean model executes for it",
]
ASSUMPTIONS = [
    "control flow: an instruction with a non-empty `jumps` list continues at one of those instructions, any other instruction at its successor in the list (ppci's own flow-graph convention)",
    "physical registers that appear un-renamed in the virtual-register program are treated as independent variables of that program (as ppci's liveness does)",
    "ordinary instructions do not access the bytes of a spill slot allocated later (memory safety of the compiled function; Frame.alloc disjointness is C05)",
]

QUICK_TARGETS = ["x86_64", "arm", "riscv", "avr"]
ALL_TARGETS = ["x86_64", "arm", "arm:thumb", "riscv", "riscv:rvc", "m68k", "mips", "msp430", "avr", "xtensa", "or1k", "microblaze"]


# --------------------------------------------------------------------------------------
# physical register table of an architecture (independent of arch.info.alias)
# --------------------------------------------------------------------------------------
class PhysTable:
    def __init__(self, arch):
        from ppci.arch.registers import Register
        self.Register = Register
        self.arch = arch
        self.regs = []          # physical Register objects
        self.ids = {}           # id(obj) -> phys id
        for rc in arch.info.register_classes:
            for r in rc.registers:
                self.add(r)
        for k, v in arch.info.alias.items():
            self.add(k)
            for r in v:
                self.add(r)
        self._units = {}

    def add(self, r):
        if id(r) in self.ids:
            return self.ids[id(r)]
        assert r._num is not None or r.is_colored, r
        self.ids[id(r)] = len(self.regs)
        self.regs.append(r)
        for q in r.aliases:
            self.add(q)
        self._units = {}
        return self.ids[id(r)]

    def units(self, r):
        """set of ids of r and of all registers reachable through .aliases (its sub-registers)"""
        k = id(r)
        if k not in self._units:
            s = {self.add(r)}
            for q in r.aliases:
                s |= self.units(q)
            self._units[k] = s
        return self._units[k]

    def overlap_pairs(self):
        """all unordered pairs p<q of distinct physical registers that share a sub-register"""
        out = []
        n = len(self.regs)
        us = [self.units(r) for r in list(self.regs)]
        for i in range(n):
            for j in range(i + 1, n):
                if us[i] & us[j]:
                    out.append((i, j))
        return out

    def kind(self, T):
        m = T.__mro__
        root = m[m.index(self.Register) - 1]
        return (root, getattr(T, "bitsize", None))

    def resolve(self, T, num):
        """the physical register denoted by an operand of register class T with number num"""
        c = [p for p in self.regs if p.num == num and p._num is not None and (isinstance(p, T) or issubclass(T, type(p)))]
        if len(c) != 1:
            c = [p for p in self.regs if p.num == num and p._num is not None and self.kind(type(p)) == self.kind(T)]
        if len(c) != 1:
            raise LookupError(f"cannot resolve physical register class={T.__name__} num={num}: {[p.name for p in c]}")
        return self.ids[id(c[0])]


# --------------------------------------------------------------------------------------
# capture
# --------------------------------------------------------------------------------------
def snap(instructions):
    """snapshot: list of (ins, uses, defs, clobbers, ismove, jumps) with the operand objects of this moment"""
    return [(i, list(i.used_registers), list(i.defined_registers), list(i.clobbers), bool(i.ismove), list(i.jumps))
            for i in instructions]


def same_snap(a, b):
    if len(a) != len(b):
        return False
    for x, y in zip(a, b):
        if x[0] is not y[0] or x[4] != y[4]:
            return False
        for k in (1, 2, 3, 5):
            if len(x[k]) != len(y[k]) or any(p is not q for p, q in zip(x[k], y[k])):
                return False
    return True


class FrameRecord:
    def __init__(self, arch, frame):
        self.arch = arch
        self.frame = frame
        self.name = frame.name
        self.snap0 = snap(frame.instructions)
        self.precoloured = None
        self.rewrites = []      # dicts: pre, post, temps, slot, groups
        self.snapF = None
        self.coalesced = None
        self.final = None
        self.error = None
        self.slots = []


class Capture:
    """Wrap the allocator from outside; collect one FrameRecord per alloc_frame call."""

    def __init__(self):
        self.records = []
        self.cur = None
        self.cur_rw = None
        self._saved = None

    def __enter__(self):
        from ppci.codegen import registerallocator as RA
        cap = self
        A = RA.GraphColoringRegisterAllocator
        G = RA.MiniGen
        self._saved = (A.alloc_frame, A.rewrite_program, A.remove_redundant_moves, G.gen_load, G.gen_store)
        o_alloc, o_rw, o_rm, o_ld, o_st = self._saved

        def alloc_frame(self, frame):
            rec = FrameRecord(self.arch, frame)
            cap.cur = rec
            try:
                o_alloc(self, frame)
                rec.final = snap(frame.instructions)
            except Exception as e:  # allocator gave up / crashed: recorded, re-raised
                rec.error = f"{type(e).__name__}: {e}"
                raise
            finally:
                cap.records.append(rec)
                cap.cur = None

        def rewrite_program(self, node):
            rec = cap.cur
            rw = {"pre": snap(self.frame.instructions), "temps": list(node.temps), "groups": [], "slot": None}
            cap.cur_rw = rw
            try:
                o_rw(self, node)
            finally:
                cap.cur_rw = None
            rw["post"] = snap(self.frame.instructions)
            if rec is not None:
                rec.rewrites.append(rw)

        def remove_redundant_moves(self):
            rec = cap.cur
            if rec is not None:
                rec.snapF = snap(self.frame.instructions)
                rec.coalesced = list(self.coalescedMoves)
            o_rm(self)

        def gen_load(self, frame, vreg, slot):
            code = o_ld(self, frame, vreg, slot)
            if cap.cur_rw is not None:
                cap.cur_rw["groups"].append(("load", list(code), vreg, slot))
                cap.cur_rw["slot"] = slot
            return code

        def gen_store(self, frame, vreg, slot):
            code = o_st(self, frame, vreg, slot)
            if cap.cur_rw is not None:
                cap.cur_rw["groups"].append(("store", list(code), vreg, slot))
                cap.cur_rw["slot"] = slot
            return code

        A.alloc_frame, A.rewrite_program, A.remove_redundant_moves = alloc_frame, rewrite_program, remove_redundant_moves
        G.gen_load, G.gen_store = gen_load, gen_store
        return self

    def __exit__(self, *exc):
        from ppci.codegen import registerallocator as RA
        A = RA.GraphColoringRegisterAllocator
        G = RA.MiniGen
        A.alloc_frame, A.rewrite_program, A.remove_redundant_moves, G.gen_load, G.gen_store = self._saved
        return False


# --------------------------------------------------------------------------------------
# abstraction of a captured frame into Model.MCode terms
# --------------------------------------------------------------------------------------
class Numbering:
    """dense ids for Register objects (by identity) and label ids for jump-target instructions"""

    def __init__(self):
        self.vid = {}
        self.vobj = []

    def v(self, r):
        k = id(r)
        if k not in self.vid:
            self.vid[k] = len(self.vobj)
            self.vobj.append(r)
        return self.vid[k]


def abstract_program(sn, num):
    """snapshot -> list of dicts (uses, defs, clobbers(objs), move, jumps(label ids), label, sem)"""
    index = {id(t[0]): k for k, t in enumerate(sn)}
    targets = {}
    for t in sn:
        for j in t[5]:
            if id(j) not in index:
                raise LookupError(f"jump target {j} of {t[0]} is not in the instruction list")
            targets.setdefault(id(j), len(targets))
    prog = []
    for k, (ins, uses, defs, clob, mv, jumps) in enumerate(sn):
        u = [num.v(r) for r in uses]
        d = [num.v(r) for r in defs]
        wf_move = mv and len(u) == 1 and len(d) == 1 and not jumps
        prog.append({
            "uses": u, "defs": d, "clob": clob, "move": bool(wf_move), "jumps": [targets[id(j)] for j in jumps],
            "label": targets.get(id(ins)), "sem": k, "text": f"{type(ins).__name__}",
            "declared_move": mv,
        })
    return prog


def succs(prog, labelpos, i):
    ins = prog[i]
    if ins["jumps"]:
        return [labelpos.get(l, len(prog)) for l in ins["jumps"]]
    return [i + 1]


def label_positions(prog):
    pos = {}
    for i, ins in enumerate(prog):
        if ins["label"] is not None and ins["label"] not in pos:
            pos[ins["label"]] = i
    return pos


def liveness(prog):
    """least solution of in[i] = use[i] ∪ (out[i] − def[i]), out[i] = ∪ in[succ]; returns list of sorted live-in lists"""
    n = len(prog)
    lp = label_positions(prog)
    sc = [succs(prog, lp, i) for i in range(n)]
    live = [set() for _ in range(n + 1)]
    use = [set(p["uses"]) for p in prog]
    dfs = [set(p["defs"]) for p in prog]
    changed = True
    while changed:
        changed = False
        for i in range(n - 1, -1, -1):
            out = set()
            for s in sc[i]:
                if s < n:
                    out |= live[s]
            new = use[i] | (out - dfs[i])
            if new != live[i]:
                live[i] = new
                changed = True
    return [sorted(s) for s in live[:n]]


# --------------------------------------------------------------------------------------
# Python reference of Model.RA.check (used to LOCATE a rejection; the verdict is Lean's)
# --------------------------------------------------------------------------------------
def ref_check(prog, colour, ov, removed, live):
    """returns list of problems (kind, index, detail)"""
    n = len(prog)
    lp = label_positions(prog)
    problems = []

    def li(i):
        return live[i] if i < n else []

    e = li(0)
    for a in range(len(e)):
        for b in range(a + 1, len(e)):
            if e[a] != e[b] and ov(colour[e[a]], colour[e[b]]):
                problems.append(("entry-live-values-alias", 0, (e[a], e[b])))
    for i, ins in enumerate(prog):
        sc = succs(prog, lp, i)
        lo = [v for s in sc for v in li(s)]
        lin = set(li(i))
        for u in ins["uses"]:
            if u not in lin:
                problems.append(("liveness-use-not-live-in", i, u))
        for v in lo:
            if v not in ins["defs"] and v not in lin:
                problems.append(("liveness-not-postfixpoint", i, v))
        if removed[i]:
            ok = ins["move"] and colour[ins["defs"][0]] == colour[ins["uses"][0]]
            if not ok:
                problems.append(("removed-instruction-not-identity-move", i, None))
            continue
        for v in lo:
            if v in ins["defs"]:
                continue
            for d in ins["defs"]:
                if ov(colour[d], colour[v]) and not (ins["move"] and ins["uses"] == [v] and colour[d] == colour[v]):
                    problems.append(("def-clobbers-live", i, (d, v)))
            for q in ins["clob"]:
                if ov(q, colour[v]):
                    problems.append(("clobber-hits-live", i, (q, v)))
        ds = ins["defs"]
        for a in range(len(ds)):
            for b in range(a + 1, len(ds)):
                if ov(colour[ds[a]], colour[ds[b]]):
                    problems.append(("defs-alias-each-other", i, (ds[a], ds[b])))
    return problems


# --------------------------------------------------------------------------------------
# frame -> abstract allocation problem
# --------------------------------------------------------------------------------------
class CaptureArtefact(Exception):
    """the captured data is not in the shape the abstraction assumes (tooling problem, never a verdict)"""


def build_alloc_case(rec, phys):
    """FrameRecord (after a successful alloc_frame) -> dict for the checker"""
    if rec.snapF is None or rec.final is None:
        raise CaptureArtefact("alloc_frame finished without remove_redundant_moves")
    # chain of snapshots: snap0 -> rewrites -> snapF
    cur = rec.snap0
    for rw in rec.rewrites:
        if not same_snap(cur, rw["pre"]):
            raise CaptureArtefact("instruction list changed outside rewrite_program")
        cur = rw["post"]
    if not same_snap(cur, rec.snapF):
        raise CaptureArtefact("instruction list changed between last rewrite and colouring")
    co = {id(m) for m in rec.coalesced}
    kept = [t for t in rec.snapF if id(t[0]) not in co]
    if not same_snap(kept, rec.final):
        raise CaptureArtefact("final list is not snapF minus the coalesced moves")
    num = Numbering()
    prog = abstract_program(rec.snapF, num)
    removed = [id(t[0]) in co for t in rec.snapF]
    colour = []
    pre_col = []
    for r in num.vobj:
        if r._num is not None:                       # physical register used directly (precoloured)
            colour.append(phys.add(r))
            pre_col.append(True)
        else:
            if not r.is_colored:
                raise CaptureArtefact(f"register {r.name} has no colour after allocation")
            colour.append(phys.resolve(type(r), r.color))
            pre_col.append(False)
    for ins in prog:
        ins["clob"] = [phys.add(q) for q in ins["clob"]]
    pairs = phys.overlap_pairs()
    return {"prog": prog, "colour": colour, "removed": removed, "pairs": pairs, "nphys": len(phys.regs),
            "live": liveness(prog), "names": [r.name for r in num.vobj], "precoloured": pre_col,
            "pnames": [p.name for p in phys.regs], "num": num}


def make_ov(pairs):
    s = set()
    for p, q in pairs:
        s.add((p, q)); s.add((q, p))
    return lambda p, q: p == q or (p, q) in s
