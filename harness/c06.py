"""C06 register allocation never clobbers a live value -- verified validator.

Every frame that ppci's GraphColoringRegisterAllocator colours while compiling
generated C programs is captured FROM OUTSIDE (the allocator methods are
wrapped in this process, nothing is changed in /repo), serialised, and handed
to the Lean checker `Model.RA.check` (proved sound in Props/C06.lean:
`alloc_sound`) and, for every call of `rewrite_program`, to
`Model.RA.checkSpillStep`.  A rejection by the Lean checker is located with the
Python reference re-implementation below (instruction + the two values that
collide + a path entry -> clobber -> read) and reported with ctx.fail.
"""
import collections
import io
import json
import time

PROP = "C06"
LEAN_PROPS = "PpciVerif/Props/C06.lean"
LEAN_TARGETS = ["PpciVerif.Props.C06", "Drivers.C06"]
LEVEL = "translation_validation"
LEVEL_TEXT = (
    "Verified validator. Lean theorem `alloc_sound` (all programs, colourings, alias relations, liveness "
    "annotations, instruction semantics, initial states, junk written to aliased registers, and execution lengths): if "
    "`Model.RA.check` accepts a coloured instruction list then the coloured program run on a physical register file in which "
    "every write havocs all aliasing registers computes, step for step, the same control flow, the same memory state and the "
    "same operand values as the virtual-register program (relation: for all live v, P(colour v) = R v); hence every read sees "
    "the most recent definition of the value it names (`reads_agree`), and two simultaneously live values share or alias a "
    "register only if it is the identical register and they hold equal values in every execution (`shared_register_means_copies`). "
    "The checker does not trust ppci's liveness (it validates a supplied post-fixpoint). `spillStep_sound`: if "
    "`Model.RA.checkSpillStep` accepts one call of rewrite_program then the rewritten list (spill code abstracted to load/store "
    "of the new slot) simulates the original list for every execution. Every frame coloured by the real allocator for the "
    "generated programs is run through `check`, every spill rewrite through `checkSpillStep`."
)
LEVEL_NOTE = (
    "per-output validation: the quantifier over programs/targets is discharged only for the frames generated in this run; "
    "trusted: used_registers/defined_registers/clobbers/ismove/jumps are truthful about the hardware (C07), Register.aliases "
    "describes the hardware overlap, spill load/store sequences produced by MiniGen really load/store the slot, the capture code"
)
TECHNIQUE = "Lean 4 proof of a translation validator (simulation by induction over executions) + validation of every captured real allocation"
RULE = (
    "programs = generated C functions (register-pressure straight-line blocks, values live across calls with many arguments, "
    "loops with loop-carried values, diamonds producing phi moves, mixed 8/16/32/64-bit integer types) compiled with ppci.api.cc at "
    "opt_level 0 and 2; one validation per coloured frame and one per spill rewrite; non-trivial = frame with at least one spill "
    "rewrite, or at least one coalesced (removed) move, or at least one pair of aliasing-but-different physical registers in use"
)
TRUSTED = [
    "truthfulness of used_registers/defined_registers/clobbers/ismove/jumps annotations w.r.t. the hardware (property C07)",
    "Register.aliases as the description of hardware register overlap (overlap = common sub-register)",
    "MiniGen.gen_load/gen_store sequences implement 'fresh := slot' / 'slot := fresh' (instruction selection, not allocation)",
    "the capture wrappers in harness/c06.py (identity matching of instruction objects, snapshots of operands)",
    "deleting an instruction marked removed (a move whose source and destination got the identical physical register) from the list is the no-op the Lean model executes for it",
]
ASSUMPTIONS = [
    "control flow: an instruction with a non-empty `jumps` list continues at one of those instructions, any other instruction at its successor in the list (ppci's own flow-graph convention)",
    "physical registers that appear un-renamed in the virtual-register program are treated as independent variables of that program (as ppci's liveness does)",
    "ordinary instructions do not access the bytes of a spill slot allocated later (memory safety of the compiled function; Frame.alloc disjointness is C05)",
]

QUICK_TARGETS = ["x86_64", "arm", "riscv", "avr"]
ALL_TARGETS = ["x86_64", "arm", "arm:thumb", "riscv", "riscv:rvc", "m68k", "mips", "msp430", "avr", "xtensa", "or1k", "microblaze"]


# --------------------------------------------------------------------------------------
# physical register table of an architecture (independent of arch.info.alias)
# --------------------------------------------------------------------------------------
class PhysTable:
    def __init__(self, arch):
        from ppci.arch.registers import Register
        self.Register = Register
        self.arch = arch
        self.regs = []          # physical Register objects
        self.ids = {}           # id(obj) -> phys id
        for rc in arch.info.register_classes:
            for r in rc.registers:
                self.add(r)
        for k, v in arch.info.alias.items():
            self.add(k)
            for r in v:
                self.add(r)
        self._units = {}

    def add(self, r):
        if id(r) in self.ids:
            return self.ids[id(r)]
        assert r._num is not None or r.is_colored, r
        self.ids[id(r)] = len(self.regs)
        self.regs.append(r)
        for q in r.aliases:
            self.add(q)
        self._units = {}
        return self.ids[id(r)]

    def units(self, r):
        """set of ids of r and of all registers reachable through .aliases (its sub-registers)"""
        k = id(r)
        if k not in self._units:
            s = {self.add(r)}
            for q in r.aliases:
                s |= self.units(q)
            self._units[k] = s
        return self._units[k]

    def overlap_pairs(self):
        """all unordered pairs p<q of distinct physical registers that share a sub-register"""
        out = []
        n = len(self.regs)
        us = [self.units(r) for r in list(self.regs)]
        for i in range(n):
            for j in range(i + 1, n):
                if us[i] & us[j]:
                    out.append((i, j))
        return out

    def kind(self, T):
        m = T.__mro__
        root = m[m.index(self.Register) - 1]
        return (root, getattr(T, "bitsize", None))

    def resolve(self, T, num):
        """the physical register denoted by an operand of register class T with number num"""
        c = [p for p in self.regs if p.num == num and p._num is not None and (isinstance(p, T) or issubclass(T, type(p)))]
        if len(c) != 1:
            c = [p for p in self.regs if p.num == num and p._num is not None and self.kind(type(p)) == self.kind(T)]
        if len(c) != 1:
            raise LookupError(f"cannot resolve physical register class={T.__name__} num={num}: {[p.name for p in c]}")
        return self.ids[id(c[0])]


# --------------------------------------------------------------------------------------
# capture
# --------------------------------------------------------------------------------------
class CaptureArtefact(Exception):
    """the captured data is not in the shape the abstraction assumes (tooling problem, never a verdict)"""


def snap(instructions):
    """snapshot: list of (ins, uses, defs, clobbers, ismove, jumps) with the operand objects of this moment"""
    return [(i, list(i.used_registers), list(i.defined_registers), list(i.clobbers), bool(i.ismove), list(i.jumps))
            for i in instructions]


def same_snap(a, b):
    if len(a) != len(b):
        return False
    for x, y in zip(a, b):
        if x[0] is not y[0] or x[4] != y[4]:
            return False
        for k in (1, 2, 3, 5):
            if len(x[k]) != len(y[k]) or any(p is not q for p, q in zip(x[k], y[k])):
                return False
    return True


class FrameRecord:
    def __init__(self, arch, frame):
        self.arch = arch
        self.frame = frame
        self.name = frame.name
        self.snap0 = snap(frame.instructions)
        self.precoloured = None
        self.rewrites = []      # dicts: pre, post, temps, slot, groups
        self.snapF = None
        self.coalesced = None
        self.final = None
        self.error = None
        self.slots = []


class Capture:
    """Wrap the allocator from outside; collect one FrameRecord per alloc_frame call."""

    def __init__(self):
        self.records = []
        self.cur = None
        self.cur_rw = None
        self._saved = None

    def __enter__(self):
        from ppci.codegen import registerallocator as RA
        cap = self
        A = RA.GraphColoringRegisterAllocator
        G = RA.MiniGen
        from ppci.arch.stack import Frame
        self._saved = (A.alloc_frame, A.rewrite_program, A.remove_redundant_moves, G.gen_load, G.gen_store, Frame.alloc)
        o_alloc, o_rw, o_rm, o_ld, o_st, o_falloc = self._saved
        cap.allocs = {}

        def frame_alloc(self, size, alignment):
            loc = o_falloc(self, size, alignment)
            cap.allocs.setdefault(id(self), []).append((self, loc))     # keeps the frame alive, so the id stays unique
            return loc

        def alloc_frame(self, frame):
            rec = FrameRecord(self.arch, frame)
            cap.cur = rec
            try:
                o_alloc(self, frame)
                rec.final = snap(frame.instructions)
                rec.slots = [loc for (_f, loc) in cap.allocs.get(id(frame), [])]
            except Exception as e:  # allocator gave up / crashed: recorded, re-raised
                rec.error = f"{type(e).__name__}: {e}"
                raise
            finally:
                cap.records.append(rec)
                cap.cur = None

        def rewrite_program(self, node):
            rec = cap.cur
            rw = {"pre": snap(self.frame.instructions), "temps": list(node.temps), "groups": [], "slot": None}
            cap.cur_rw = rw
            try:
                o_rw(self, node)
            finally:
                cap.cur_rw = None
            rw["post"] = snap(self.frame.instructions)
            if rec is not None:
                rec.rewrites.append(rw)

        def remove_redundant_moves(self):
            rec = cap.cur
            if rec is not None:
                rec.snapF = snap(self.frame.instructions)
                rec.coalesced = list(self.coalescedMoves)
            o_rm(self)

        def gen_load(self, frame, vreg, slot):
            code = o_ld(self, frame, vreg, slot)
            if cap.cur_rw is not None:
                cap.cur_rw["groups"].append(("load", list(code), vreg, slot))
                cap.cur_rw["slot"] = slot
            return code

        def gen_store(self, frame, vreg, slot):
            code = o_st(self, frame, vreg, slot)
            if cap.cur_rw is not None:
                cap.cur_rw["groups"].append(("store", list(code), vreg, slot))
                cap.cur_rw["slot"] = slot
            return code

        A.alloc_frame, A.rewrite_program, A.remove_redundant_moves = alloc_frame, rewrite_program, remove_redundant_moves
        G.gen_load, G.gen_store = gen_load, gen_store
        Frame.alloc = frame_alloc
        return self

    def __exit__(self, *exc):
        from ppci.codegen import registerallocator as RA
        A = RA.GraphColoringRegisterAllocator
        G = RA.MiniGen
        from ppci.arch.stack import Frame
        A.alloc_frame, A.rewrite_program, A.remove_redundant_moves, G.gen_load, G.gen_store, Frame.alloc = self._saved
        return False


# --------------------------------------------------------------------------------------
# abstraction of a captured frame into Model.MCode terms
# --------------------------------------------------------------------------------------
class Numbering:
    """dense ids for Register objects, jump-target instructions (labels) and instructions (sem), all by identity"""

    def __init__(self):
        self.vid = {}
        self.vobj = []
        self.labs = {}
        self.sems = {}

    def lab(self, ins):
        return self.labs.setdefault(id(ins), len(self.labs))

    def sem(self, ins):
        return self.sems.setdefault(id(ins), len(self.sems))

    def v(self, r):
        k = id(r)
        if k not in self.vid:
            self.vid[k] = len(self.vobj)
            self.vobj.append(r)
        return self.vid[k]


def abstract_instr(t, num, is_target):
    ins, uses, defs, clob, mv, jumps = t
    u = [num.v(r) for r in uses]
    d = [num.v(r) for r in defs]
    wf_move = mv and len(u) == 1 and len(d) == 1 and not jumps and not clob
    return {"uses": u, "defs": d, "clob": clob, "move": bool(wf_move), "jumps": [num.lab(j) for j in jumps],
            "label": num.lab(ins) if is_target else None, "sem": num.sem(ins), "text": type(ins).__name__,
            "declared_move": mv}


def abstract_program(sn, num):
    """snapshot -> list of dicts (uses, defs, clobbers(objs), move, jumps(label ids), label, sem)"""
    index = {id(t[0]) for t in sn}
    targets = set()
    for t in sn:
        for j in t[5]:
            if id(j) not in index:
                raise CaptureArtefact(f"jump target {j} of {t[0]} is not in the instruction list")
            targets.add(id(j))
    return [abstract_instr(t, num, id(t[0]) in targets) for t in sn]


def succs(prog, labelpos, i):
    ins = prog[i]
    if ins["jumps"]:
        return [labelpos.get(l, len(prog)) for l in ins["jumps"]]
    return [i + 1]


def label_positions(prog):
    pos = {}
    for i, ins in enumerate(prog):
        if ins["label"] is not None and ins["label"] not in pos:
            pos[ins["label"]] = i
    return pos


def liveness(prog):
    """least solution of in[i] = use[i] ∪ (out[i] − def[i]), out[i] = ∪ in[succ]; returns list of sorted live-in lists"""
    n = len(prog)
    lp = label_positions(prog)
    sc = [succs(prog, lp, i) for i in range(n)]
    live = [set() for _ in range(n + 1)]
    use = [set(p["uses"]) for p in prog]
    dfs = [set(p["defs"]) for p in prog]
    changed = True
    while changed:
        changed = False
        for i in range(n - 1, -1, -1):
            out = set()
            for s in sc[i]:
                if s < n:
                    out |= live[s]
            new = use[i] | (out - dfs[i])
            if new != live[i]:
                live[i] = new
                changed = True
    return [sorted(s) for s in live[:n]]


# --------------------------------------------------------------------------------------
# Python reference of Model.RA.check (used to LOCATE a rejection; the verdict is Lean's)
# --------------------------------------------------------------------------------------
def ref_check(prog, colour, ov, removed, live, fixed=frozenset()):
    """returns list of problems (kind, index, detail); mirrors Model.RA.check"""
    n = len(prog)
    lp = label_positions(prog)
    problems = []

    def li(i):
        return live[i] if i < n else []

    fx = sorted(fixed)
    for a in range(len(fx)):
        for b in range(a + 1, len(fx)):
            if colour[fx[a]] == colour[fx[b]]:
                problems.append(("fixed-names-share-register", 0, (fx[a], fx[b])))
    e = li(0)
    for a in range(len(e)):
        for b in range(a + 1, len(e)):
            if e[a] != e[b] and ov(colour[e[a]], colour[e[b]]) and not (e[a] in fixed and e[b] in fixed):
                problems.append(("entry-live-values-alias", 0, (e[a], e[b])))
    for i, ins in enumerate(prog):
        sc = succs(prog, lp, i)
        lo = [v for s in sc for v in li(s)]
        lin = set(li(i))
        for u in ins["uses"]:
            if u not in lin:
                problems.append(("liveness-use-not-live-in", i, u))
        for v in lo:
            if v not in ins["defs"] and v not in lin:
                problems.append(("liveness-not-postfixpoint", i, v))
        if ins["move"] and ins["clob"]:
            problems.append(("move-with-clobbers", i, None))
        rm = removed[i]
        if rm and not (ins["move"] and colour[ins["defs"][0]] == colour[ins["uses"][0]]):
            problems.append(("removed-instruction-not-identity-move", i, None))
        for v in lo:
            if v in ins["defs"]:
                continue
            for d in ins["defs"]:
                if not ov(colour[d], colour[v]):
                    continue
                if ins["move"] and ins["uses"] == [v] and colour[d] == colour[v]:
                    continue
                if not rm and d in fixed and v in fixed:
                    continue
                problems.append(("def-clobbers-live", i, (d, v)))
            if not rm and v not in fixed:
                for q in ins["clob"]:
                    if ov(q, colour[v]):
                        problems.append(("clobber-hits-live", i, (q, v)))
        if not rm:
            ds = ins["defs"]
            for a in range(len(ds)):
                for b in range(a + 1, len(ds)):
                    if ov(colour[ds[a]], colour[ds[b]]):
                        problems.append(("defs-alias-each-other", i, (ds[a], ds[b])))
    return problems


# --------------------------------------------------------------------------------------
# frame -> abstract allocation problem
# --------------------------------------------------------------------------------------
def build_alloc_case(rec, phys):
    """FrameRecord (after a successful alloc_frame) -> dict for the checker"""
    if rec.snapF is None or rec.final is None:
        raise CaptureArtefact("alloc_frame finished without remove_redundant_moves")
    # chain of snapshots: snap0 -> rewrites -> snapF
    cur = rec.snap0
    for rw in rec.rewrites:
        if not same_snap(cur, rw["pre"]):
            raise CaptureArtefact("instruction list changed outside rewrite_program")
        cur = rw["post"]
    if not same_snap(cur, rec.snapF):
        raise CaptureArtefact("instruction list changed between last rewrite and colouring")
    co = {id(m) for m in rec.coalesced}
    kept = [t for t in rec.snapF if id(t[0]) not in co]
    if not same_snap(kept, rec.final):
        raise CaptureArtefact("final list is not snapF minus the coalesced moves")
    num = Numbering()
    prog = abstract_program(rec.snapF, num)
    removed = [id(t[0]) in co for t in rec.snapF]
    colour = []
    pre_col = []
    for r in num.vobj:
        if r._num is not None:                       # physical register used directly (precoloured)
            colour.append(phys.add(r))
            pre_col.append(True)
        else:
            if not r.is_colored:
                raise CaptureArtefact(f"register {r.name} has no colour after allocation")
            colour.append(phys.resolve(type(r), r.color))
            pre_col.append(False)
    for ins in prog:
        ins["clob"] = [phys.add(q) for q in ins["clob"]]
    pairs = phys.overlap_pairs()
    return {"prog": prog, "colour": colour, "removed": removed, "pairs": pairs, "nphys": len(phys.regs),
            "live": liveness(prog), "names": [r.name for r in num.vobj], "precoloured": pre_col,
            "fixed": [v for v, f in enumerate(pre_col) if f],
            "pnames": [p.name for p in phys.regs], "num": num}


def make_ov(pairs):
    s = set()
    for p, q in pairs:
        s.add((p, q)); s.add((q, p))
    return lambda p, q: p == q or (p, q) in s


# --------------------------------------------------------------------------------------
# program generator (C): register pressure, calls with many arguments, loops, diamonds, mixed widths
# --------------------------------------------------------------------------------------
# C types per target for which ppci's front-end + instruction selector work (probed); None = no C route
PALETTE = {
    "x86_64": ["int", "long", "char", "unsigned char", "short", "unsigned short", "unsigned int", "unsigned long"],
    "arm": ["int", "unsigned int"],
    "riscv": ["int", "unsigned int", "char", "unsigned char"],
    "riscv:rvc": ["int", "unsigned int", "char", "unsigned char"],
    "or1k": ["int", "unsigned int"],
    "microblaze": ["int", "unsigned int", "char"],
}

_ALLOPS = ["+", "-", "*", "&", "|", "^", "<<", ">>"]
_ALLCMP = ["<", ">", "==", "!=", "<=", ">="]
# IR features per target (probed with tiny programs; anything outside makes ppci's instruction selector give up,
# which is C29's business, not C06's).  types[0] is the type used for comparisons / loop counters / result.
IRFEAT = {
    "x86_64": dict(types=["i64", "i32", "i16", "i8", "u64", "u32", "u16", "u8"], ops=_ALLOPS, cmps=_ALLCMP, calls=True, maxargs=9, maxparams=6, casts=True),
    "arm": dict(types=["i32", "u32", "i8", "i16"], ops=_ALLOPS, cmps=_ALLCMP, calls=True, maxargs=6, maxparams=4, casts=True),
    "arm:thumb": dict(types=["i32", "u32", "i8"], ops=_ALLOPS, cmps=["<", ">", "==", "!=", ">="], calls=True, maxargs=3, maxparams=3, casts=True),
    "riscv": dict(types=["i32", "u32", "i8", "u8", "i16", "u16"], ops=_ALLOPS, cmps=_ALLCMP, calls=True, maxargs=8, maxparams=6, casts=True),
    "riscv:rvc": dict(types=["i32", "u32", "i8", "u8", "i16", "u16"], ops=_ALLOPS, cmps=_ALLCMP, calls=True, maxargs=8, maxparams=6, casts=True),
    "m68k": dict(types=["i32"], ops=["+", "-"], cmps=["<"], calls=False, maxargs=0, maxparams=4, casts=False, consts=False, loops=False),
    "mips": dict(types=["i32", "u32"], ops=["+", "-", "*", "&", "|", "^", "<<", ">>"], cmps=_ALLCMP, calls=True, maxargs=3, maxparams=4, casts=True),
    "msp430": dict(types=["i16", "u16", "i8", "u8"], ops=["+", "-", "*", "&", "|", "<<", ">>"], cmps=_ALLCMP, calls=True, maxargs=5, maxparams=4, casts=True),
    "avr": dict(types=["i16", "u16", "i8", "u8"], ops=["+", "-", "*", "&", "|", "<<", ">>"], cmps=_ALLCMP, calls=True, maxargs=3, maxparams=3, casts=True),
    "xtensa": dict(types=["i32", "u32"], ops=["+", "-", "*", "&", "|", "<<", ">>"], cmps=_ALLCMP, calls=True, maxargs=4, maxparams=4, casts=True),
    "or1k": dict(types=["i32", "u32", "i8"], ops=["+", "-", "*", "&", "|", "<<", ">>"], cmps=_ALLCMP, calls=True, maxargs=6, maxparams=4, casts=True),
    "microblaze": dict(types=["i32", "u32", "i8", "u8", "i16", "u16"], ops=_ALLOPS, cmps=_ALLCMP, calls=True, maxargs=6, maxparams=4, casts=True),
}


class CGen:
    def __init__(self, rng, types, nvals, nblocks, ops=("+", "-", "*", "&", "|", "^")):
        self.r = rng
        self.types = types
        self.nvals = nvals
        self.nblocks = nblocks
        self.ops = ops
        self.lines = []

    def ty(self):
        return self.r.choice(self.types)

    def atom(self, names):
        if self.r.random() < 0.15:
            return str(self.r.choice([1, 2, 3, 5, 7, 11, 100, 127]))
        return self.r.choice(names)

    def expr(self, names, depth=0):
        k = self.r.random()
        if depth >= 2 or k < 0.35:
            return self.atom(names)
        if k < 0.9:
            return f"({self.expr(names, depth + 1)} {self.r.choice(self.ops)} {self.expr(names, depth + 1)})"
        if k < 0.95:
            return f"({self.ty()})({self.expr(names, depth + 1)})"
        return f"({self.expr(names, depth + 1)} {self.r.choice(['<<', '>>'])} {self.r.choice([1, 2, 3])})"

    def cond(self, names):
        return f"{self.atom(names)} {self.r.choice(['<', '>', '==', '!=', '<=', '>='])} {self.atom(names)}"

    def noreturn_body(self, vals, externs, ind):
        """statements of an endless loop: values stay in registers across the call(s) of a region that never reaches the exit"""
        r = self.r
        out = []
        a, bb, c = r.choice(vals), r.choice(vals), r.choice(vals)
        out.append(f"{ind}{a} = {self.expr(vals)};")
        if externs:
            en, ety, eargs = r.choice(externs)
            out.append(f"{ind}{bb} = {bb} + {en}({', '.join(self.atom(vals) for _ in eargs)});")
        out.append(f"{ind}if ({self.cond(vals)}) {{ {c} = {self.expr(vals)}; }} else {{ {a} = {a} + {r.choice(vals)}; }}")
        if externs and r.random() < 0.5:
            en, ety, eargs = r.choice(externs)
            out.append(f"{ind}{c} = {c} ^ {en}({', '.join(self.atom(vals) for _ in eargs)});")
        out.append(f"{ind}{bb} = {bb} + {' + '.join(r.sample(vals, min(len(vals), 4)))};")
        return out

    def function(self, fname, externs, noreturn=False):
        r = self.r
        nparams = r.randint(1, 7)
        params = [(self.ty(), f"p{i}") for i in range(nparams)]
        rty = self.ty()
        out = [f"{rty} {fname}({', '.join(t + ' ' + n for t, n in params)}) {{"]
        names = [n for _, n in params]
        vals = []
        for i in range(self.nvals):
            t = self.ty()
            out.append(f"  {t} v{i} = {self.expr(names)};")
            names.append(f"v{i}")
            vals.append(f"v{i}")
        out.append("  int i;")
        panic_at = r.randrange(self.nblocks + 1) if (noreturn or r.random() < 0.2) else -1
        tail_loop = noreturn and r.random() < 0.4
        for b in range(self.nblocks):
            if b == panic_at:
                # a panic branch: region that never reaches the function exit
                out.append(f"  if ({self.cond(vals)}) {{")
                out.append("    for (;;) {")
                out += self.noreturn_body(vals, externs, "      ")
                out.append("    }")
                out.append("  }")
            k = r.random()
            if k < 0.3 and externs:
                en, ety, eargs = r.choice(externs)
                args = ", ".join(self.atom(vals) for _ in eargs)
                tgt = r.choice(vals)
                out.append(f"  {tgt} = {tgt} + {en}({args});")
            elif k < 0.6:
                a, bb, c = r.choice(vals), r.choice(vals), r.choice(vals)
                out.append(f"  for (i = 0; i < {r.choice(['p0', '3', a])}; i++) {{")
                out.append(f"    {a} = {self.expr(vals)};")
                if r.random() < 0.6:
                    out.append(f"    if ({self.cond(vals)}) {{ {bb} = {self.expr(vals)}; }} else {{ {c} = {self.expr(vals)}; }}")
                if r.random() < 0.3 and externs:
                    en, ety, eargs = r.choice(externs)
                    out.append(f"    {c} = {en}({', '.join(self.atom(vals) for _ in eargs)});")
                out.append("  }")
            elif k < 0.85:
                a, bb = r.choice(vals), r.choice(vals)
                out.append(f"  if ({self.cond(vals)}) {{ {a} = {self.expr(vals)}; {bb} = {a} + 1; }} else {{ {bb} = {self.expr(vals)}; }}")
            else:
                a = r.choice(vals)
                out.append(f"  while ({a} > {self.atom(vals)}) {{ {a} = {a} - {r.choice(['1', '3'])}; {r.choice(vals)} ^= {a}; }}")
        if panic_at == self.nblocks or tail_loop:
            # event loop whose only way out is a return in one branch / no way out at all
            out.append("  for (;;) {")
            out += self.noreturn_body(vals, externs, "    ")
            if not tail_loop:
                out.append(f"    if ({self.cond(vals)}) {{ return {r.choice(vals)}; }}")
                out.append(f"    if ({self.cond(vals)}) {{ for (;;) {{ {r.choice(vals)} += {r.choice(vals)}; }} }}")
            out.append("  }")
        out.append("  return " + " + ".join(vals) + ";")
        out.append("}")
        return "\n".join(out)

    def program(self, nfuncs, noreturn=False):
        r = self.r
        externs = []
        decls = []
        for e in range(r.randint(1, 3)):
            n = r.choice([1, 2, 4, 6, 8, 9])
            at = [self.ty() for _ in range(n)]
            rt = self.ty()
            externs.append((f"ext{e}", rt, at))
            decls.append(f"{rt} ext{e}({', '.join(t + ' a' + str(i) for i, t in enumerate(at))});")
        funcs = [self.function(f"fn{i}", externs, noreturn and i == 0) for i in range(nfuncs)]
        return "\n".join(decls + funcs) + "\n"


CORPUS = [
    # fixed programs that always run first
    ("pressure-call-loop", """
int g(int a, int b, int c, int d, int e, int f, int h, int i);
int f1(int a, int b, int c, int d, int e, int f) {
  int v0 = a*b, v1 = b*c, v2 = c*d, v3 = d*e, v4 = e*f, v5 = f*a, v6 = a+c, v7 = b+d, v8 = c+e, v9 = d+f;
  int v10 = a-b, v11 = b-c, v12 = c-d, v13 = d-e, v14 = e-f, v15 = a^f, v16 = b^e, v17 = c&d;
  int r = g(v0, v1, v2, v3, v4, v5, v6, v7);
  int i;
  for (i = 0; i < a; i++) { r += v8 * i; v9 = v9 + v10; if (r > v11) { v12 = v12 + 1; } else { v13 = v13 ^ r; } }
  return r + v0 + v1 + v2 + v3 + v4 + v5 + v6 + v7 + v8 + v9 + v10 + v11 + v12 + v13 + v14 + v15 + v16 + v17;
}
"""),
    ("mixed-width", """
int h2(int a, char b, char c);
char f2(char a, char b, int c, unsigned char d, unsigned char e) {
  char x = a + d; char y = b * e; int z = c - d;
  unsigned char u = a ^ b; unsigned char w = y + x;
  if (x > y) { z = h2(z, x, y) + u; x = x + 1; } else { y = y - 1; }
  while (z > 0) { z = z - w; x = x ^ u; y += x; }
  return x + y + z + u + w;
}
"""),
    # functions that have an exit AND a region from which the exit cannot be reached (bare-metal event loop,
    # panic loop in one branch, loop left only through a return): values must survive the calls in there
    ("non-returning-regions", """
void report(int i, int acc, int seed, int step, int scale);
int poll(int a, int b);
void event_loop(int seed, int step, int scale) {
  int i = 0;
  int acc = seed;
  for (;;) {
    acc = acc * scale + step;
    i = i + 1;
    report(i, acc, seed, step, scale);
  }
}
int blink(int *port, int mask, int period, int fault) {
  int n = 0;
  int k;
  if (fault) {
    for (;;) {
      for (k = 0; k < period; k++) { n = n + mask; }
      *port = *port ^ mask;
      port[1] = n + poll(n, period);
    }
  }
  return mask + period;
}
int serve(int a, int b, int c, int d, int e) {
  int s0 = a + b, s1 = b * c, s2 = c - d, s3 = d ^ e, s4 = e + a, s5 = a * d;
  for (;;) {
    int q = poll(s0, s1);
    if (q == 0) { return s0 + s1 + s2 + s3 + s4 + s5; }
    if (q < 0) { for (;;) { s2 = s2 + poll(s3, s4); report(s0, s1, s2, s3, s5); } }
    s0 = s0 + q; s1 = s1 ^ s4; s3 = s3 + s5;
  }
}
"""),
]


# --------------------------------------------------------------------------------------
# program generator (IR, built with the ir classes directly; used on every target, the only
# route on avr where the C front-end cannot be instantiated)
# --------------------------------------------------------------------------------------
class IRGen:
    """feat: dict(types=[ir type names], ops=[...], cmps=[...], calls=bool, maxargs=int, casts=bool)"""

    def __init__(self, rng, feat):
        from ppci import ir
        self.ir = ir
        self.r = rng
        self.feat = feat
        self.types = [getattr(ir, t) for t in feat["types"]]
        self.n = 0

    def name(self, p="t"):
        self.n += 1
        return f"{p}{self.n}"

    def emit(self, ins):
        self.block.add_instruction(ins)
        return ins

    def new_block(self):
        b = self.ir.Block(self.name("blk"))
        self.func.add_block(b)
        return b

    def const(self, v, ty):
        return self.emit(self.ir.Const(v, self.name("c"), ty))

    def conv(self, v, ty):
        if v.ty is ty:
            return v
        main = self.types[0]
        if v.ty is not main and ty is not main and v.ty.size != ty.size:
            v = self.emit(self.ir.Cast(v, self.name("cast"), main))      # small <-> small goes through the main type
        return self.emit(self.ir.Cast(v, self.name("cast"), ty))

    def pick_same(self, vals, ty):
        c = [v for v in vals if v.ty is ty]
        return self.r.choice(c) if c else None

    def operand(self, vals, ty):
        r = self.r
        if r.random() < 0.12 and self.feat.get("consts", True):
            return self.const(r.choice([1, 2, 3, 5, 7, 11, 100]), ty)
        v = self.pick_same(vals, ty)
        if v is not None and (r.random() < 0.7 or not self.feat.get("casts", True)):
            return v
        if self.feat.get("casts", True):
            return self.conv(r.choice(vals), ty)
        if v is not None:
            return v
        return self.const(r.choice([1, 2, 3]), ty)

    def binop(self, vals, ty):
        a = self.operand(vals, ty)
        b = self.operand(vals, ty)
        wide = ty.size == self.types[0].size
        op = self.r.choice(self.feat["ops"] if wide else self.feat.get("small_ops", ["+", "-"]))
        if op in ("<<", ">>"):
            b = self.const(self.r.choice([1, 2, 3]), ty)
        return self.emit(self.ir.Binop(a, op, b, self.name("v"), ty))

    def seg_straight(self, vals):
        for _ in range(self.r.randint(1, 4)):
            i = self.r.randrange(len(vals))
            vals[i] = self.binop(vals, vals[i].ty)

    def seg_call(self, vals):
        ext = self.r.choice(self.exts)
        args = [self.operand(vals, t) for t in ext.argument_types]
        res = self.emit(self.ir.FunctionCall(ext, args, self.name("res"), ext.return_ty))
        i = self.r.randrange(len(vals))
        ty = vals[i].ty
        if res.ty is ty or self.feat.get("casts", True):
            a = self.conv(res, ty)
            vals[i] = self.emit(self.ir.Binop(vals[i], "+", a, self.name("v"), ty))

    def seg_diamond(self, vals):
        ir, r = self.ir, self.r
        ty = self.types[0]
        a, b = self.operand(vals, ty), self.operand(vals, ty)
        yes, no, join = self.new_block(), self.new_block(), self.new_block()
        self.emit(ir.CJump(a, r.choice(self.feat["cmps"]), b, yes, no))
        idx = r.sample(range(len(vals)), min(len(vals), r.randint(1, 3)))
        outs = []
        for blk in (yes, no):
            self.block = blk
            v2 = list(vals)
            for i in idx:
                if r.random() < 0.8:
                    v2[i] = self.binop(v2, v2[i].ty)
            if self.exts and r.random() < 0.25:
                self.seg_call(v2)
            self.emit(ir.Jump(join))
            outs.append((self.block, v2))
        self.block = join
        for i in range(len(vals)):
            x, y = outs[0][1][i], outs[1][1][i]
            if x is y:
                vals[i] = x
            else:
                phi = self.emit(ir.Phi(self.name("phi"), vals[i].ty))
                phi.set_incoming(outs[0][0], x)
                phi.set_incoming(outs[1][0], y)
                vals[i] = phi

    def seg_loop(self, vals):
        ir, r = self.ir, self.r
        ty = self.types[0]
        pre = self.block
        zero = self.const(0, ty)
        bound = self.operand(vals, ty) if r.random() < 0.6 else self.const(r.choice([2, 3, 5]), ty)
        one = self.const(1, ty)
        head, body, exit_ = self.new_block(), self.new_block(), self.new_block()
        self.emit(ir.Jump(head))
        self.block = head
        cnt = self.emit(ir.Phi(self.name("i"), ty))
        cnt.set_incoming(pre, zero)
        idx = r.sample(range(len(vals)), min(len(vals), r.randint(1, 4)))
        phis = {}
        for i in idx:
            phi = self.emit(ir.Phi(self.name("lp"), vals[i].ty))
            phi.set_incoming(pre, vals[i])
            phis[i] = phi
            vals[i] = phi
        self.emit(ir.CJump(cnt, "<", bound, body, exit_))
        self.block = body
        v2 = list(vals)
        for i in idx:
            v2[i] = self.binop(v2, v2[i].ty)
        if r.random() < 0.4:
            self.seg_diamond(v2)
        if self.exts and r.random() < 0.3:
            self.seg_call(v2)
        nxt = self.emit(ir.Binop(cnt, "+", one, self.name("inc"), ty))
        self.emit(ir.Jump(head))
        for i in idx:
            phis[i].set_incoming(self.block, v2[i])
        cnt.set_incoming(self.block, nxt)
        self.block = exit_

    def seg_noreturn(self, vals):
        """a branch into an endless loop (no path to the function exit) that keeps many values live across its calls"""
        ir, r = self.ir, self.r
        ty = self.types[0]
        a, b = self.operand(vals, ty), self.operand(vals, ty)
        panic, cont, head = self.new_block(), self.new_block(), self.new_block()
        self.emit(ir.CJump(a, r.choice(self.feat["cmps"]), b, panic, cont))
        self.block = panic
        self.emit(ir.Jump(head))
        self.block = head
        idx = r.sample(range(len(vals)), min(len(vals), r.randint(1, 3)))
        v2 = list(vals)
        phis = {}
        for i in idx:
            phi = self.emit(ir.Phi(self.name("np"), vals[i].ty))
            phi.set_incoming(panic, vals[i])
            phis[i] = phi
            v2[i] = phi
        for i in idx:
            v2[i] = self.binop(v2, v2[i].ty)
        if self.exts:
            self.seg_call(v2)
        if r.random() < 0.4:
            self.seg_diamond(v2)
        if self.exts and r.random() < 0.5:
            self.seg_call(v2)
        i0 = idx[0]
        for w in r.sample(vals, min(len(vals), 4)):        # values from outside stay live through the whole region
            if w.ty is v2[i0].ty or self.feat.get("casts", True):
                v2[i0] = self.emit(ir.Binop(v2[i0], "+", self.conv(w, v2[i0].ty), self.name("v"), v2[i0].ty))
        self.emit(ir.Jump(head))
        for i in idx:
            phis[i].set_incoming(self.block, v2[i])
        self.block = cont

    def module(self, nvals, nsegs, nfuncs=1, noreturn=False):
        ir, r = self.ir, self.r
        m = ir.Module("gen")
        self.exts = []
        if self.feat.get("calls", True):
            for e in range(r.randint(1, 2)):
                n = r.randint(1, self.feat.get("maxargs", 6))
                ext = ir.ExternalFunction(f"ext{e}", [r.choice(self.types) for _ in range(n)], r.choice(self.types))
                m.add_external(ext)
                self.exts.append(ext)
        for k in range(nfuncs):
            rty = self.types[0]
            f = ir.Function(f"irfn{k}", ir.Binding.GLOBAL, rty)
            m.add_function(f)
            self.func = f
            params = []
            for i in range(r.randint(1, self.feat.get("maxparams", 4))):
                p = ir.Parameter(f"p{i}", r.choice(self.types))
                f.add_parameter(p)
                params.append(p)
            self.block = self.new_block()
            f.entry = self.block
            vals = []
            for i in range(nvals):
                ty = r.choice(self.types) if r.random() < 0.5 else self.types[0]
                vals.append(self.binop(params + vals, ty))
            force_at = r.randrange(nsegs + 1) if noreturn else -1
            for s in range(nsegs + 1):
                if s == force_at or (s < nsegs and r.random() < 0.1):
                    self.seg_noreturn(vals)
                if s == nsegs:
                    break
                k2 = r.random()
                if k2 < 0.3:
                    self.seg_straight(vals)
                elif k2 < 0.5 and self.exts:
                    self.seg_call(vals)
                elif k2 < 0.75 or not self.feat.get("loops", True):
                    self.seg_diamond(vals)
                else:
                    self.seg_loop(vals)
            acc = self.conv(vals[0], rty) if self.feat.get("casts", True) or vals[0].ty is rty else self.const(0, rty)
            for v in vals[1:]:
                if v.ty is rty or self.feat.get("casts", True):
                    acc = self.emit(ir.Binop(acc, "+", self.conv(v, rty), self.name("acc"), rty))
            self.emit(ir.Return(acc))
        return m


# --------------------------------------------------------------------------------------
# one rewrite_program call -> abstract spill step
# --------------------------------------------------------------------------------------
class SpillShape(Exception):
    """the rewrite does not have the shape 'load fresh before use / store fresh after def'"""

    def __init__(self, kind, what):
        super().__init__(what)
        self.kind = kind


def check_slot_new(rec, rw):
    """the slot of this rewrite shares no byte with any other stack allocation of the frame (allocas, other spill slots)"""
    slot = rw["slot"]
    if slot is None:
        return                                              # nothing was loaded or stored
    mine = [k for k, l in enumerate(rec.slots) if l is slot]
    if len(mine) != 1:
        raise SpillShape("slot-not-allocated-by-this-frame", f"spill slot {slot} was not returned by exactly one Frame.alloc call")
    for l in rec.slots:
        if l is not slot and l.offset < slot.offset + slot.size and slot.offset < l.offset + l.size:
            raise SpillShape("slot-overlaps-other-allocation", f"spill slot {slot} overlaps {l}")
    for other in rec.rewrites:
        if other is not rw and other["slot"] is slot:
            raise SpillShape("slot-shared-between-spilled-nodes", f"spill slot {slot} is used by two spilled nodes")


def build_spill_case(rw, phys):
    num = Numbering()
    pre, post = rw["pre"], rw["post"]
    temps = rw["temps"]
    tset = {id(t) for t in temps}
    pre_ids = {id(t[0]): k for k, t in enumerate(pre)}
    post_ids = {id(t[0]): k for k, t in enumerate(post)}
    group_of = {}
    for gi, (kind, code, vreg, slot) in enumerate(rw["groups"]):
        for ins in code:
            group_of[id(ins)] = gi
    for k in pre_ids:
        if k not in post_ids:
            raise SpillShape("instruction-lost", "an instruction of the list disappeared during the spill rewrite")
    # jump targets (shared between pre and post)
    targets = set()
    for t in pre:
        for j in t[5]:
            targets.add(id(j))
    for t in post:
        for j in t[5]:
            if id(j) not in post_ids:
                raise CaptureArtefact("jump target outside the list")
            if id(t[0]) in group_of:
                raise SpillShape("spill-code-jumps", "spill code contains a jump")
    pre_abs = [abstract_instr(t, num, id(t[0]) in targets) for t in pre]
    for a in pre_abs:
        a["clob"] = [phys.add(q) for q in a["clob"]]
    # plan: per pre instruction the (temp, fresh) pairs in ppci's processing order (= iteration order of node.temps)
    fresh = []
    plans = []
    for k, t in enumerate(pre):
        q = post[post_ids[id(t[0])]]
        if len(q[1]) != len(t[1]) or len(q[2]) != len(t[2]):
            raise SpillShape("operand-count-changed", f"operand lists of {t[0]} changed length")
        rep = {}
        for old, new in list(zip(t[1], q[1])) + list(zip(t[2], q[2])):
            if old is not new:
                if id(old) in rep and rep[id(old)] is not new:
                    raise SpillShape("inconsistent-rename", f"{old} renamed to two registers in {t[0]}")
                rep[id(old)] = new
        plan = []
        for tmp in temps:
            if id(tmp) in rep:
                plan.append((num.v(tmp), num.v(rep[id(tmp)])))
                fresh.append(num.v(rep[id(tmp)]))
        for k2 in rep:
            if k2 not in tset:
                raise SpillShape("renamed-foreign-register", f"a register outside the spilled node was renamed in {t[0]}")
        plans.append(plan)
    # abstract post list
    post_words = []
    i = 0
    used_outside = collections.Counter()
    for t in post:
        if id(t[0]) not in group_of:
            for r in t[1] + t[2]:
                used_outside[id(r)] += 1
    while i < len(post):
        t = post[i]
        gi = group_of.get(id(t[0]))
        if gi is None:
            if id(t[0]) not in pre_ids:
                raise SpillShape("unknown-instruction-inserted", f"{t[0]} was inserted but is not spill code")
            a = abstract_instr(t, num, id(t[0]) in targets)
            a["clob"] = [phys.add(q) for q in a["clob"]]
            post_words.append(["I", a])
            i += 1
            continue
        kind, code, vreg, slot = rw["groups"][gi]
        for k, ins in enumerate(code):
            if i + k >= len(post) or post[i + k][0] is not ins:
                raise SpillShape("spill-code-not-contiguous", f"{kind} code for {vreg} is not contiguous in the list")
        seg = post[i:i + len(code)]
        alld = [r for x in seg for r in x[2]]
        allu = [r for x in seg for r in x[1]]
        if kind == "load":
            if not any(r is vreg for r in alld):
                raise SpillShape("load-does-not-define-fresh", f"load code does not define {vreg}")
        else:
            if not any(r is vreg for r in allu) or any(r is vreg for r in alld):
                raise SpillShape("store-does-not-read-fresh", f"store code does not read {vreg}")
        scratch = []
        for r in alld + allu:
            if r is vreg:
                continue
            if r._num is not None:
                if any(r is x for x in alld) and num.v(r) not in scratch:
                    scratch.append(num.v(r))          # physical scratch register written by the spill code
                continue
            if used_outside[id(r)]:
                raise SpillShape("spill-code-temp-leaks", f"{kind} code for {vreg} uses {r} which also occurs outside")
        if slot is not rw["slot"]:
            raise SpillShape("several-slots", "one rewrite used two different slots")
        post_words.append(["L" if kind == "load" else "S", num.v(vreg), scratch])
        i += len(code)
    # scratch registers: all loads (stores) of one instruction share the union, as Model.RA.expand emits them
    owner = {}
    cur = None
    pend = []
    for w in post_words:                    # loads belong to the next ordinary instruction, stores to the previous one
        if w[0] == "L":
            pend.append(w)
        elif w[0] == "I":
            cur = w
            owner[id(w)] = {"L": pend, "S": []}
            pend = []
        else:
            if cur is None:
                raise SpillShape("store-before-any-instruction", "store code at the start of the list")
            owner[id(cur)]["S"].append(w)
    if pend:
        raise SpillShape("load-after-last-instruction", "load code at the end of the list")
    scr = {}
    for w in post_words:
        if w[0] == "I":
            o = owner[id(w)]
            lu = sorted({z for x in o["L"] for z in x[2]})
            su = sorted({z for x in o["S"] for z in x[2]})
            for x in o["L"]:
                x[2] = lu
            for x in o["S"]:
                x[2] = su
            scr[w[1]["sem"]] = (lu, su)
    plans = [(pl,) + scr.get(pre_abs[k]["sem"], ([], [])) for k, pl in enumerate(plans)]
    live = liveness(pre_abs)
    fixed = [v for v, r in enumerate(num.vobj) if r._num is not None]
    colour = [phys.add(r) if r._num is not None else 0 for r in num.vobj]
    return {"pre": pre_abs, "post": post_words, "temps": [num.v(t) for t in temps], "fresh": sorted(set(fresh)),
            "plans": plans, "live": live, "num": num, "fixed": fixed, "colour": colour, "pairs": phys.overlap_pairs()}


# --------------------------------------------------------------------------------------
# serialisation (see lean/Drivers/C06.lean)
# --------------------------------------------------------------------------------------
def csv(xs):
    return ",".join(str(x) for x in xs)


def instr_word(a, live=(), plan=None):
    w = ";".join([csv(a["uses"]), csv(a["defs"]), csv(a["clob"]), csv(a["jumps"]), "1" if a["move"] else "0",
                  "-" if a["label"] is None else str(a["label"]), str(a["sem"]), csv(live)])
    if plan is not None:
        w += ";" + ",".join(f"{t}:{f}" for t, f in plan[0]) + ";" + csv(plan[1]) + ";" + csv(plan[2])
    return w


def alloc_line(case):
    return " ".join(["check", "A=" + ",".join(f"{p}:{q}" for p, q in case["pairs"]), "C=" + csv(case["colour"]),
                     "X=" + csv(case["fixed"]), "R=" + csv([i for i, r in enumerate(case["removed"]) if r])]
                    + [instr_word(a, case["live"][i]) for i, a in enumerate(case["prog"])])


def spill_line(sc):
    words = ["spill", "A=" + ",".join(f"{p}:{q}" for p, q in sc["pairs"]), "C=" + csv(sc["colour"]), "X=" + csv(sc["fixed"]),
             "T=" + csv(sc["temps"]), "F=" + csv(sc["fresh"]), f"N={len(sc['pre'])}"]
    words += [instr_word(a, sc["live"][i], sc["plans"][i]) for i, a in enumerate(sc["pre"])]
    for w in sc["post"]:
        words.append("I" + instr_word(w[1]) if w[0] == "I" else f"{w[0]}{w[1]}/{csv(w[2])}")
    return " ".join(words)


# --------------------------------------------------------------------------------------
# locating a rejection: the instruction, the two values, and a path entry -> clobber -> read
# --------------------------------------------------------------------------------------
def witness_path(prog, i, v):
    """shortest control-flow path from the entry to instruction i, and from i to a read of v with no redefinition"""
    n = len(prog)
    lp = label_positions(prog)
    prev = {0: None}
    todo = [0]
    while todo and i not in prev:
        nxt = []
        for a in todo:
            for b in succs(prog, lp, a):
                if b < n and b not in prev:
                    prev[b] = a
                    nxt.append(b)
        todo = nxt
    to_i = []
    if i in prev:
        k = i
        while k is not None:
            to_i.append(k)
            k = prev[k]
        to_i.reverse()
    prev2 = {}
    todo = [b for b in succs(prog, lp, i) if b < n]
    for b in todo:
        prev2[b] = i
    read_at = None
    while todo and read_at is None:
        nxt = []
        for a in todo:
            if v in prog[a]["uses"]:
                read_at = a
                break
            if v in prog[a]["defs"]:
                continue
            for b in succs(prog, lp, a):
                if b < n and b not in prev2:
                    prev2[b] = a
                    nxt.append(b)
        todo = nxt
    to_read = []
    if read_at is not None:
        k = read_at
        while k != i:
            to_read.append(k)
            k = prev2[k]
        to_read.reverse()
    return to_i, to_read


def diagnose(case, texts, problems):
    out = []
    for kind, i, d in problems[:3]:
        item = {"kind": kind, "index": i, "instruction": texts[i] if i < len(texts) else "?"}
        if isinstance(d, tuple):
            a, v = d
            if kind == "clobber-hits-live":
                item["clobbered_register"] = case["pnames"][a]
            else:
                item["written_value"] = case["names"][a]
                item["written_register"] = case["pnames"][case["colour"][a]]
            item["live_value"] = case["names"][v]
            item["live_value_register"] = case["pnames"][case["colour"][v]]
            to_i, to_read = witness_path(case["prog"], i, v)
            item["path_entry_to_clobber"] = to_i[-12:]
            item["path_clobber_to_read"] = to_read[:12]
            if to_read:
                item["read_by"] = texts[to_read[-1]]
        elif d is not None:
            item["value"] = case["names"][d]
        out.append(item)
    return out


# --------------------------------------------------------------------------------------
# jobs (run in worker processes)
# --------------------------------------------------------------------------------------
class _Timeout(Exception):
    pass


def safe_str(ins):
    try:
        return str(ins)
    except Exception:  # e.g. riscv registers have no from_num: printing a coloured vreg raises
        return type(ins).__name__


def _on_alarm(*a):
    raise _Timeout()


def job_source(job):
    """(kind, payload) for a job; deterministic in job['seed']"""
    import random
    arch = job["arch"]
    rng = random.Random(job["seed"])
    if job["kind"] == "corpus":
        return "c", CORPUS[job["n"]][1]
    if job["kind"] == "c":
        g = CGen(rng, PALETTE[arch], nvals=rng.randint(4, 16), nblocks=rng.randint(1, 5))
        return "c", g.program(rng.randint(1, 2), noreturn=job.get("noreturn", False))
    g = IRGen(rng, IRFEAT[arch])
    if arch == "m68k":
        return "ir", g.module(nvals=rng.randint(1, 3), nsegs=rng.randint(0, 2), noreturn=job.get("noreturn", False))
    big = job.get("big", False)
    return "ir", g.module(nvals=rng.randint(10, 24) if big else rng.randint(3, 14), nsegs=rng.randint(2, 7) if big else rng.randint(1, 5),
                          noreturn=job.get("noreturn", False))


def run_job(job):
    """compile one program under capture; return request lines + metadata (picklable)"""
    import signal
    from ppci.api import cc, ir_to_object, get_arch
    res = {"job": job, "lines": [], "metas": [], "stats": collections.Counter(), "notes": []}
    st = res["stats"]
    try:
        arch = get_arch(job["arch"])
        kind, payload = job_source(job)
    except Exception as e:  # generator trouble is a tooling problem
        res["notes"].append(f"generator failed for {job}: {type(e).__name__}: {e}")
        st["generator_error"] += 1
        return res
    import contextlib
    import logging
    logging.disable(logging.CRITICAL)           # ppci logs C warnings ("Function does not return a value") to stderr
    old = signal.signal(signal.SIGALRM, _on_alarm)
    with Capture() as cap, contextlib.redirect_stdout(io.StringIO()):
        try:
            signal.alarm(job.get("timeout", 40))
            if kind == "c":
                cc(io.StringIO(payload), arch, opt_level=job.get("opt", 0))
            else:
                ir_to_object([payload], arch)
            st["compiled"] += 1
        except _Timeout:
            st["compile_timeout"] += 1
        except Exception as e:
            st["compile_error:" + type(e).__name__] += 1
        finally:
            signal.alarm(0)
            signal.signal(signal.SIGALRM, old)
    for rec in cap.records:
        if rec.error is not None or rec.final is None:
            st["allocator_gave_up"] += 1
            continue
        base = {"arch": job["arch"], "job": job, "frame": rec.name}
        try:
            phys = PhysTable(arch)
            case = build_alloc_case(rec, phys)
        except (CaptureArtefact, LookupError, AssertionError) as e:
            res["metas"].append(dict(base, kind="artefact", what=f"{type(e).__name__}: {e}"))
            res["lines"].append(None)
            continue
        texts = [f"{k}: {safe_str(t[0])}" for k, t in enumerate(rec.snapF)]
        ov = make_ov(case["pairs"])
        allp = ref_check(case["prog"], case["colour"], ov, case["removed"], case["live"], set(case["fixed"]))
        probs = [p for p in allp if p[0] != "entry-live-values-alias"]
        entry = [p for p in allp if p[0] == "entry-live-values-alias"]
        defined = {d for a in case["prog"] for d in a["defs"]}
        # a value that is live-in at entry and has no definition anywhere is read before being written:
        # there is no "most recent definition" to preserve; sharing a register is then not a clobber
        entry_bad = [p for p in entry if p[2][0] in defined and p[2][1] in defined]
        used = {case["colour"][v] for a in case["prog"] for v in a["uses"] + a["defs"]}
        alias_in_use = any((p, q) in {(x, y) for x, y in case["pairs"]} for p in used for q in used if p < q)
        meta = dict(base, kind="alloc", n=len(case["prog"]), rewrites=len(rec.rewrites), removed=sum(case["removed"]),
                    maxlive=max([len(l) for l in case["live"]] or [0]), alias_in_use=alias_in_use,
                    ref=[p[0] for p in probs[:5]], entry=len(entry), entry_bad=[(case["names"][p[2][0]], case["names"][p[2][1]]) for p in entry_bad],
                    entry_pairs=[(case["names"][p[2][0]], case["names"][p[2][1]]) for p in entry[:4]], declared_moves_not_wf=sum(1 for a in case["prog"] if a["declared_move"] and not a["move"]))
        if probs:
            meta["diag"] = diagnose(case, texts, probs)
        res["lines"].append(alloc_line(case))
        res["metas"].append(meta)
        for k, rw in enumerate(rec.rewrites):
            sb = dict(base, kind="spill", step=k, temps=[t.name for t in rw["temps"]])
            try:
                check_slot_new(rec, rw)
                sc = build_spill_case(rw, phys)
            except SpillShape as e:
                res["lines"].append(None)
                res["metas"].append(dict(sb, kind="spill-shape", shape=e.kind, what=str(e)))
                continue
            except CaptureArtefact as e:
                res["lines"].append(None)
                res["metas"].append(dict(sb, kind="artefact", what=str(e)))
                continue
            sb["scratch"] = any(w[0] != "I" and w[2] for w in sc["post"])
            sb["multi_temp"] = len(rw["temps"]) > 1
            sb["n"] = len(sc["pre"])
            res["lines"].append(spill_line(sc))
            res["metas"].append(sb)
    return res


# inputs of past findings: always run, in both tiers
REGRESSION_JOBS = [
    # fixed 8a3b4f9: fall-through into a jump target had no flow-graph edge (mips drops conditional jumps)
    {"arch": "mips", "big": False, "kind": "ir", "noreturn": False, "seed": 2841917993, "timeout": 60},
    {"arch": "mips", "big": False, "kind": "ir", "noreturn": False, "seed": 3194298828, "timeout": 60},
]


def make_jobs(ctx):
    targets = ALL_TARGETS if ctx.thorough else QUICK_TARGETS
    jobs = [dict(j) for j in REGRESSION_JOBS]
    for arch in targets:
        if arch in PALETTE:
            for n in range(len(CORPUS)):
                if n == 1 and arch not in ("x86_64", "riscv", "riscv:rvc"):
                    continue
                for opt in ((2,) if n == 2 else (0, 2) if ctx.thorough else ((0,) if n == 1 and arch == "x86_64" else (2,))):
                    jobs.append({"arch": arch, "kind": "corpus", "n": n, "opt": opt, "seed": 0})
    n_ir = 14 if ctx.thorough else 3
    n_c = 6 if ctx.thorough else 1
    for arch in targets:
        tmo = 8 if arch == "m68k" else 60
        for k in range(n_ir):
            jobs.append({"arch": arch, "kind": "ir", "seed": ctx.rng.getrandbits(32), "timeout": tmo,
                         "big": ctx.thorough and k % 3 == 2, "noreturn": k % 3 == 0})
        if arch in PALETTE:
            for k in range(n_c):
                seed = ctx.rng.getrandbits(32)
                for opt in ((0, 2) if ctx.thorough else (2,)):
                    jobs.append({"arch": arch, "kind": "c", "seed": seed, "opt": opt, "timeout": tmo, "noreturn": k % 2 == 0})
    return jobs


def job_id(job):
    return f"{job['arch']}/{job['kind']}/{job.get('n', job['seed'])}/O{job.get('opt', '-')}"


def check(ctx, jobs=None):
    import multiprocessing as mp
    from concurrent.futures import ThreadPoolExecutor
    from harness.common import BrokenCheck
    if jobs is None:
        jobs = make_jobs(ctx)
    t0 = time.time()
    with mp.get_context("fork").Pool(min(16, mp.cpu_count())) as pool:
        results = pool.map(run_job, jobs, chunksize=1)
    t_compile = time.time() - t0
    lines, metas = [], []
    for r in results:
        for k, v in r["stats"].items():
            ctx.count(k, v)
        for nt in r["notes"]:
            ctx.note(nt)
        for l, m in zip(r["lines"], r["metas"]):
            if l is None:
                if m["kind"] == "spill-shape":
                    ctx.count("eval_spill")
                    ctx.fail("spill:" + m["shape"], f"{m['arch']} {m['frame']} spill step {m['step']} of {m['temps']}: {m['what']}",
                             {"job": m["job"], "frame": m["frame"], "step": m["step"]})
                else:
                    ctx.count("capture_artefact")
                    ctx.disagree("capture", {"job": m["job"], "frame": m["frame"]}, m["what"], "expected shape of captured data")
                continue
            lines.append(l)
            metas.append(m)
    if ctx.counts.get("generator_error"):
        raise BrokenCheck("program generator failed: " + "; ".join(ctx.notes[-3:]))
    # ---- the Lean validator -------------------------------------------------------------
    t1 = time.time()
    nchunks = max(1, min(6, len(lines) // 40))
    order = sorted(range(len(lines)), key=lambda k: -len(lines[k]))
    chunks = [order[c::nchunks] for c in range(nchunks)]
    replies = [None] * len(lines)
    with ThreadPoolExecutor(nchunks) as ex:
        futs = [ex.submit(ctx.driver, "C06", [lines[k] for k in ch]) for ch in chunks]
        for ch, f in zip(chunks, futs):
            for k, rep in zip(ch, f.result()):
                replies[k] = rep
    t_lean = time.time() - t1
    archs_seen = collections.Counter()
    for m, rep in zip(metas, replies):
        jid = job_id(m["job"])
        if m["kind"] == "alloc":
            ctx.count("eval_alloc")
            ctx.count("instructions", m["n"])
            ctx.count("coalesced_moves_removed", m["removed"])
            ctx.count("spill_rewrites", m["rewrites"])
            archs_seen[m["arch"]] += 1
            if m["rewrites"] or m["removed"] or m["alias_in_use"]:
                ctx.nontrivial((jid, m["frame"]))
            if m["declared_moves_not_wf"]:
                ctx.count("moves_treated_as_ordinary_instructions", m["declared_moves_not_wf"])
            ref_ok = not m["ref"]
            if rep in ("ok accept", "ok accept entry-shared"):
                ctx.count("programs")
                if not ref_ok or (rep == "ok accept") != (m["entry"] == 0):
                    ctx.disagree("alloc-check", {"job": m["job"], "frame": m["frame"]},
                                 "python reference: " + str(m["ref"]) + f" entry conflicts {m['entry']}", rep)
                if rep != "ok accept":
                    ctx.count("frames_with_undefined_entry_values_sharing_a_register")
                    ctx.note(f"{jid} {m['frame']}: values that are live-in at entry and never defined share a register: {m['entry_pairs']}")
                    if m["entry_bad"]:
                        ctx.fail("alloc:entry-live-values-alias",
                                 f"{m['arch']} frame {m['frame']} ({jid}): two values live at function entry, both defined later, share a register: {m['entry_bad']}",
                                 {"job": m["job"], "frame": m["frame"]}, lean=rep)
            elif rep.startswith("ok reject"):
                ctx.count("alloc_rejected")
                if ref_ok:
                    ctx.disagree("alloc-check", {"job": m["job"], "frame": m["frame"]}, "python reference accepts", rep)
                else:
                    d = m.get("diag", [{}])
                    ctx.fail("alloc:" + m["ref"][0],
                             f"{m['arch']} frame {m['frame']} ({jid}): Lean validator: {rep}; {json.dumps(d[0], default=str)}",
                             {"job": m["job"], "frame": m["frame"]}, lean=rep, diagnosis=d)
            else:
                raise BrokenCheck(f"driver answered {rep!r} for an alloc request ({jid} {m['frame']})")
            ctx.sample({"job": jid, "frame": m["frame"], "instructions": m["n"], "spill_rewrites": m["rewrites"],
                        "removed_moves": m["removed"], "max_live": m["maxlive"], "lean": rep}, limit=6)
        else:
            ctx.count("eval_spill")
            if m.get("scratch"):
                ctx.count("spill_steps_with_physical_scratch")
            if m.get("multi_temp"):
                ctx.count("spill_steps_of_coalesced_nodes")
            if rep == "ok accept":
                ctx.count("spill_steps_validated")
            elif rep.startswith("ok reject"):
                what = rep.split()[2] if len(rep.split()) > 2 else "?"
                sig = "spill:rewrite-differs-from-model" if what == "shape" else ("spill:fresh" if what == "fresh" else "spill:instruction-condition")
                ctx.fail(sig, f"{m['arch']} frame {m['frame']} ({jid}) spill step {m['step']} of {m['temps']}: Lean validator: {rep}",
                         {"job": m["job"], "frame": m["frame"], "step": m["step"]}, lean=rep)
            else:
                raise BrokenCheck(f"driver answered {rep!r} for a spill request ({jid} {m['frame']})")
    for a, n in sorted(archs_seen.items()):
        ctx.count("frames:" + a, n)
    ctx.extra_cov["targets"] = sorted(archs_seen)
    ctx.extra_cov["targets_without_frames"] = sorted(set(ALL_TARGETS if ctx.thorough else QUICK_TARGETS) - set(archs_seen))
    ctx.extra_cov["jobs"] = len(jobs)
    ctx.extra_cov["request_bytes"] = sum(len(l) for l in lines)
    ctx.extra_cov["time_compile_s"] = round(t_compile, 1)
    ctx.extra_cov["time_lean_s"] = round(t_lean, 1)
    ctx.extra_cov["exhaustive"] = False
    if not ctx.counts.get("programs") and not ctx.failures:
        raise BrokenCheck("no frame was validated")


def replay(ctx, rp):
    """re-run exactly the program of a replay file (the job description is its input) against the current tree"""
    job = (rp.get("case") or {}).get("job")
    check(ctx, [job] if job else None)
    for f in ctx.failures:
        print("REPLAY failure:", f["signature"], f["what"][:600])
    if not ctx.failures:
        print("REPLAY: the validator accepts every frame of this program on the current tree")
