"""C39 bit-manipulation helpers: translation tie (T1: Gen.Py_bitfun is regenerated from ppci/utils/bitfun.py on
every run and proved equal to Model.Bitfun), correspondence of Model.Bitfun with the real functions, and
evaluation of the property on the real functions (oracle: Spec.Bits / Spec.ArmImm through the driver)."""
PROP = "C39"
LEAN_PROPS = "PpciVerif/Props/C39.lean"
LEAN_TARGETS = ["PpciVerif.Props.C39", "Drivers.C39"]
LEVEL = "proof"
LEVEL_TEXT = (
    "Lean theorems for ALL bit widths >= 1 and ALL values (no bound): rotl/rotr(v,count,bits) for 0<=v<2^bits and every integer count "
    "equal the rotation defined by bit index (result bit i = source bit (i-/+count) mod bits), are mutually inverse and stay in range; "
    "rotate_left/rotate_right are the same at width 32 on their count domain; reverse_bits has bit i = source bit bits-1-i (after the "
    "'fix:' commit; the pinned code dropped the top bit); to_signed/to_unsigned/correct/sign_extend equal wrapS/wrapU (the residue mod "
    "2^bits in the signed/unsigned interval) for every integer; clz/ctz/popcnt equal the leading/trailing-zero and population counts of "
    "the low `bits` bits of every integer incl. negative (two's complement) arguments; encode_imm32 returns a 12-bit rot:imm8 field "
    "that decodes (ROR(imm8,2*rot)) to v, and raises ValueError exactly when no such field exists, for every integer v. Also proved: "
    "align, wrap_negative, inrange, value_to_bytes_big_endian against their arithmetic definitions. Tie = translation + correspondence: "
    "16 helpers (rotate_right/left, rotl, rotr, reverse_bits, to_signed, to_unsigned, correct, clz, ctz, popcnt, sign_extend, encode_imm32, "
    "align, wrap_negative, inrange) are translated from the source text of the checked tree to Lean (Gen.Py_bitfun, fuel-indexed loops) on "
    "every run; gen_*_eq_model prove that each regenerated function equals the hand model for every value/count, every width >= 0 and every "
    "fuel above bits+1 (17 for encode_imm32, m+1 for align; FuelExhausted never returned = termination), and gen_*_spec restate the "
    "statement's helpers about the regenerated functions; the hand model is additionally run differentially against every real helper.")
LEVEL_NOTE = (
    "trusted: Lean kernel; axioms propext/Classical.choice/Quot.sound; the T1 translator translate/py2lean.py and its stated reading of the "
    "Python fragment (translate/SEMANTICS.md), cross-checked on every run by the differential run hand model <-> real functions (all widths "
    "<= 12 exhaustive in thorough, <= 8 quick; boundary/random 16/32/64 and odd widths); value_to_bytes_big_endian, value_to_bits, "
    "bits_to_bytes are outside the translated fragment (generator expression, lists of bools, subscripts) and stay tied by correspondence "
    "only; negative widths are outside the hand model; Spec.Bits/Spec.ArmImm are the reference "
    "definitions (written from the mathematical definitions / ARM ARM A5.2.4). Outside the helpers' domains (width 0, rotate_right "
    "count outside 0..32, rotation of values >= 2^bits) behaviour is modelled and compared but a difference there is only a note.")
TECHNIQUE = ("Lean 4 proof (bit extensionality on Nat/Int, induction over the loops) over a hand model; translation (py2lean) of the Python source "
             "to Lean on every run with machine-checked equality regenerated definition = hand model; + differential correspondence with the Python functions")
RULE = (
    "per helper: every value of every width 1..12 (thorough; quick 1..8) with every rotation count 0..w-1 plus counts outside that "
    "range; widths 13,16,24,31,32,33,63,64,65 with boundary values (0,1,2^k,2^k+-1,2^w-1,alternating patterns) and random values, "
    "negative and oversized arguments; encode_imm32: all 4096 rot:imm8 fields' values, their +-1 neighbours, boundaries, random 32-bit, "
    "negative and >= 2^32. distinct = distinct (helper,args); non-trivial = result differs from the argument or is an error, and the "
    "value is not 0")
TRUSTED = [
    "translate/py2lean.py (T1 translator; reading of the Python fragment in translate/SEMANTICS.md) + runtime Model.PyRt/Model.PyInt "
    "(Python & | ^ ~ on negative ints as infinite two's complement): Gen.Py_bitfun is its output for ppci/utils/bitfun.py of the checked tree",
    "hand model Model.Bitfun: proved equal to Gen.Py_bitfun (gen_*_eq_model, 16 helpers) and run differentially against the real functions on every check",
    "Spec.Bits / Spec.ArmImm (definitions by bit index and modular arithmetic; ARM modified-immediate = ROR(imm8, 2*rot))",
]
ASSUMPTIONS = [
    "CPython int semantics: & | << >> on negative ints are infinite two's complement, % with positive modulus is the non-negative residue",
    "bit widths, byte counts and alignment moduli are non-negative ints (negative widths are outside the model)",
    "asserts are enabled (python without -O) for rotate_left's count check",
]

# the input of the defect that was found and fixed; always evaluated first
CORPUS = [
    ("reverse_bits", (0b11100001, 8)), ("reverse_bits", (1, 1)), ("reverse_bits", (0x80000000, 32)), ("reverse_bits", (3, 2)),
    ("encode_imm32", (1 << 32,)), ("encode_imm32", ((1 << 32) + 1,)), ("encode_imm32", (0xFF000000,)), ("encode_imm32", (0x101,)),
    ("encode_imm32", (-1,)), ("encode_imm32", (0,)), ("encode_imm32", (0xF000000F,)), ("encode_imm32", (1 << 40,)),
    ("rotl", (1, -1, 8)), ("rotr", (1, 1, 1)), ("rotl", (0x80000000, 1, 32)), ("rotr", (1, 64, 64)),
    ("rotate_left", (0x80000001, 0)), ("rotate_left", (0x80000001, 31)), ("rotate_right", (1, 32)), ("rotate_right", (1, 0)),
    ("to_signed", (128, 8)), ("to_signed", (-129, 8)), ("to_signed", (1, 1)), ("to_unsigned", (-1, 64)),
    ("clz", (0, 32)), ("clz", (-1, 32)), ("clz", (1, 1)), ("ctz", (0, 64)), ("ctz", (-(1 << 63), 64)), ("popcnt", (-1, 64)),
    ("sign_extend", (0x80, 8)), ("sign_extend", (-129, 8)), ("sign_extend", (1, 1)),
    ("wrap_negative", (255, 8)), ("wrap_negative", (-128, 8)), ("wrap_negative", (256, 8)), ("wrap_negative", (-129, 8)),
    ("inrange", (127, 8)), ("inrange", (128, 8)), ("inrange", (-128, 8)), ("inrange", (-129, 8)),
    ("align", (5, 4)), ("align", (-5, 4)), ("align", (8, 4)), ("be_bytes", (-2, 2)), ("be_bytes", (0x12345678, 4)),
    # width 0 / out-of-domain behaviours (compared, a difference is only a note)
    ("rotl", (1, 1, 0)), ("clz", (0, 0)), ("sign_extend", (1, 0)), ("to_signed", (5, 0)), ("reverse_bits", (1, 0)),
    ("rotate_right", (1, 33)), ("rotate_right", (1, -1)), ("rotate_left", (1, 32)), ("rotate_left", (1, -1)),
    ("wrap_negative", (0, 0)), ("inrange", (0, 0)), ("align", (5, 0)), ("ctz", (0, 0)), ("popcnt", (5, 0)),
]

BIG_WIDTHS = [13, 16, 24, 31, 32, 33, 63, 64, 65]


def regen(ctx):
    """T1: translate ppci/utils/bitfun.py of the checked tree into Gen/Py_bitfun.lean"""
    from . import t1
    t1.regen(ctx, "bitfun")


def impl_table():
    from ppci.utils import bitfun as B
    return {
        "rotate_right": B.rotate_right, "rotate_left": B.rotate_left, "rotl": B.rotl, "rotr": B.rotr,
        "reverse_bits": B.reverse_bits, "to_signed": B.to_signed, "to_unsigned": B.to_unsigned,
        "correct": lambda v, b, s: B.correct(v, b, bool(s)),
        "clz": B.clz, "ctz": B.ctz, "popcnt": B.popcnt, "sign_extend": B.sign_extend,
        "be_bytes": B.value_to_bytes_big_endian, "value_to_bits": B.value_to_bits,
        "bits_to_bytes": lambda s: B.bits_to_bytes([c == "1" for c in s] if s != "-" else []),
        "encode_imm32": B.encode_imm32, "align": B.align, "wrap_negative": B.wrap_negative, "inrange": B.inrange,
    }


def canon(op, r):
    """canonical reply text of an implementation result"""
    if op in ("be_bytes", "bits_to_bytes"):
        return "ok " + (bytes(r).hex() if len(r) else "-")
    if op == "value_to_bits":
        return "ok " + ("".join("1" if b else "0" for b in r) if r else "-")
    if op == "inrange":
        return "ok " + ("True" if r else "False")
    if isinstance(r, bool) or not isinstance(r, int):
        return "ok <" + type(r).__name__ + ">"
    return f"ok {r}"


def run(impls, op, args):
    try:
        return canon(op, impls[op](*args))
    except Exception as e:  # noqa
        return "err " + type(e).__name__


def in_domain(op, a):
    """inside the helper's domain: the comparison is strict and the property is evaluated"""
    if op in ("rotl", "rotr"):
        v, c, w = a
        return w >= 1 and 0 <= v < (1 << w)
    if op == "rotate_right":
        return 0 <= a[0] < (1 << 32) and 0 <= a[1] <= 32
    if op == "rotate_left":
        return 0 <= a[0] < (1 << 32) and 0 <= a[1] < 32
    if op == "reverse_bits":
        return a[1] >= 1 and 0 <= a[0] < (1 << a[1])
    if op in ("to_signed", "to_unsigned", "correct", "clz", "sign_extend", "wrap_negative", "inrange"):
        return a[1] >= 1
    if op == "align":
        return a[1] >= 1
    return True   # ctz, popcnt, be_bytes, value_to_bits, bits_to_bytes, encode_imm32: total


def boundary(w):
    xs = {0, 1, 2, 3, (1 << w) - 1, (1 << w) - 2, 1 << (w - 1), (1 << (w - 1)) - 1, (1 << (w - 1)) + 1}
    for k in (1, 7, 8, 15, 16, 31, 32):
        if k < w:
            xs |= {1 << k, (1 << k) - 1, (1 << k) + 1, ((1 << w) - 1) ^ (1 << k)}
    xs.add(int("10" * w, 2) & ((1 << w) - 1))
    xs.add(int("01" * w, 2) & ((1 << w) - 1))
    xs.add(int("1100" * w, 2) & ((1 << w) - 1))
    return sorted(x for x in xs if 0 <= x < (1 << w))


def gen_cases(ctx):
    rng = ctx.rng
    cases = list(CORPUS)
    wmax = 12 if ctx.thorough else 8
    nrand = 150 if ctx.thorough else 30
    # --- exhaustive small widths ------------------------------------------------------------
    for w in range(1, wmax + 1):
        extra_counts = [-1, -w, -w - 2, w, w + 1, 2 * w + 3, rng.randint(-10 ** 6, 10 ** 6)]
        for v in range(1 << w):
            for c in list(range(w)) + extra_counts:
                cases.append(("rotl", (v, c, w)))
                cases.append(("rotr", (v, c, w)))
            for op in ("reverse_bits", "to_signed", "to_unsigned", "clz", "ctz", "popcnt", "sign_extend",
                       "wrap_negative", "inrange"):
                cases.append((op, (v, w)))
            cases.append(("correct", (v, w, v & 1)))
        # arguments outside [0, 2^w): negative (two's complement) and oversized
        for v in list(range(-(1 << w) - 2, 0)) + list(range(1 << w, (2 << w) + 2)):
            for op in ("to_signed", "to_unsigned", "clz", "ctz", "popcnt", "sign_extend", "wrap_negative", "inrange",
                       "reverse_bits"):
                cases.append((op, (v, w)))
            cases.append(("correct", (v, w, v & 1)))
            cases.append(("rotl", (v, rng.randrange(w), w)))
            cases.append(("rotr", (v, rng.randrange(w), w)))
    # --- large widths: boundary and random values -------------------------------------------
    for w in BIG_WIDTHS:
        vals = boundary(w) + [rng.getrandbits(w) for _ in range(nrand)]
        for v in vals:
            counts = {0, 1, w - 1, w, w + 1, -1, rng.randrange(w), rng.randrange(w), rng.randint(-(1 << 33), 1 << 33)}
            for c in sorted(counts):
                cases.append(("rotl", (v, c, w)))
                cases.append(("rotr", (v, c, w)))
            for x in (v, v - (1 << w), -v - 1, v + (1 << w), v - (1 << (w - 1))):
                for op in ("to_signed", "to_unsigned", "clz", "ctz", "popcnt", "sign_extend", "wrap_negative", "inrange"):
                    cases.append((op, (x, w)))
                cases.append(("correct", (x, w, rng.randrange(2))))
            cases.append(("reverse_bits", (v, w)))
            cases.append(("reverse_bits", (v + (rng.getrandbits(8) << w), w)))
        for v in boundary(w)[:12]:          # every count for a few values
            for c in range(w):
                cases.append(("rotl", (v, c, w)))
                cases.append(("rotr", (v, c, w)))
    # --- 32-bit rotate_left / rotate_right ----------------------------------------------------
    vals32 = boundary(32) + [rng.getrandbits(32) for _ in range(nrand)]
    for v in vals32:
        for n in range(33):
            cases.append(("rotate_right", (v, n)))
            cases.append(("rotate_left", (v, n)))
    for v in vals32[:20]:
        for n in (-1, -5, 33, 40):
            cases.append(("rotate_right", (v, n)))
            cases.append(("rotate_left", (v, n)))
        cases.append(("rotate_right", (v + (1 << 32), 4)))
        cases.append(("rotate_right", (-v - 1, 4)))
    # --- encode_imm32 -------------------------------------------------------------------------
    enc = set()
    for rot in range(16):
        for imm in range(256):
            v = ((imm >> (2 * rot)) | (imm << (32 - 2 * rot))) & 0xFFFFFFFF
            enc |= {v, v + 1, v - 1} if (imm % 16 == 0 or ctx.thorough) else {v}
    enc |= set(boundary(32)) | {rng.getrandbits(32) for _ in range(nrand * 5)}
    enc |= {-1, -2, -255, -256, -(1 << 31), -(1 << 32), 1 << 32, (1 << 32) + 1, (1 << 32) + 255, (1 << 33), (1 << 40) + 7,
            (1 << 32) | 0xFF000000, (1 << 32) | 0x12345678, (255 << 32)}
    enc |= {rng.getrandbits(8) << rng.randrange(0, 40) for _ in range(nrand)}
    enc |= {(rng.getrandbits(4) << 28) | rng.getrandbits(4) for _ in range(nrand)}
    for v in sorted(enc):
        cases.append(("encode_imm32", (v,)))
    # --- align, bytes, bit lists --------------------------------------------------------------
    for m in list(range(1, 18)) + [32, 64, 100, 4096]:
        vs = list(range(-2 * m - 1, 2 * m + 2)) if m <= 17 else \
            [-2 * m - 1, -2 * m, -m - 1, -m, -m + 1, -1, 0, 1, m - 1, m, m + 1, 2 * m - 1, 2 * m, 2 * m + 1] + \
            [rng.randint(-3 * m, 3 * m) for _ in range(12)]
        for v in vs + [rng.randint(-(1 << 40), 1 << 40) for _ in range(4)]:
            cases.append(("align", (v, m)))
    for k in range(0, 10):
        for v in [0, 1, -1, 255, 256, -256, (1 << (8 * k)) - 1, 1 << (8 * k), -(1 << (8 * k))] + \
                 [rng.randint(-(1 << (8 * k + 3)), 1 << (8 * k + 3)) for _ in range(20)]:
            cases.append(("be_bytes", (v, k)))
    for w in range(0, 20):
        for v in [rng.randint(-(1 << w) - 1, (1 << w) + 1) for _ in range(10)]:
            cases.append(("value_to_bits", (v, w)))
    for n in range(0, 20):
        for _ in range(4):
            s = "".join(rng.choice("01") for _ in range(n)) or "-"
            cases.append(("bits_to_bytes", (s,)))
    return cases


def spec_lines(op, a, impl):
    """driver requests whose replies the property evaluation of this case needs"""
    if op in ("rotl", "rotr"):
        v, c, w = a
        return [f"spec.{op} {w} {v} {c}"]
    if op == "rotate_right":
        return [f"spec.rotr 32 {a[0]} {a[1]}"]
    if op == "rotate_left":
        return [f"spec.rotl 32 {a[0]} {a[1]}"]
    if op == "reverse_bits":
        return [f"spec.reverse {a[1]} {a[0]}"]
    if op in ("to_signed", "sign_extend") or (op == "correct" and a[2]):
        return [f"spec.wrapS {a[1]} {a[0]}"]
    if op in ("to_unsigned", "correct"):
        return [f"spec.wrapU {a[1]} {a[0]}"]
    if op in ("clz", "ctz"):
        return [f"spec.{op} {a[1]} {a[0]}"]
    if op == "popcnt":
        return [f"spec.popcount {a[1]} {a[0]}"]
    if op == "be_bytes":
        return [f"spec.be_bytes {a[1]} {a[0]}"]
    if op == "inrange":
        return [f"spec.fitsS {a[1]} {a[0]}"]
    if op == "wrap_negative":
        return [f"spec.fitsS {a[1]} {a[0]}", f"spec.fitsU {a[1]} {a[0]}", f"spec.wrapU {a[1]} {a[0]}"]
    if op == "encode_imm32":
        ls = [f"spec.arm_representable {a[0]}"]
        if impl.startswith("ok ") and impl[3:].lstrip("-").isdigit():
            ls.append(f"spec.arm_decode {impl[3:]}")
        return ls
    return []


def bit_class(impl, spec, w):
    try:
        d = int(impl[3:]) ^ int(spec[3:])
    except ValueError:
        return "not-an-int"
    if d == 1 << (w - 1):
        return "top-bit-wrong"
    if d == 1:
        return "bit0-wrong"
    return "wrong-bits"


def evaluate(ctx, impls, op, a, impl, sp):
    """the property at one concrete input; `sp` = replies to spec_lines(op, a, impl)"""
    case = {"op": op, "args": list(a)}
    call = f"{op}{tuple(a)}"
    if op in ("rotl", "rotr", "rotate_right", "rotate_left", "reverse_bits"):
        w = a[2] if op in ("rotl", "rotr") else (a[1] if op == "reverse_bits" else 32)
        if impl.startswith("err"):
            ctx.fail(f"{op}:raises-{impl[4:]}", f"{call} raised {impl[4:]}", case, spec=sp[0])
        elif impl != sp[0]:
            cls = bit_class(impl, sp[0], w)
            if op == "reverse_bits" and int(impl[3:]) == int(sp[0][3:]) - 1 and int(impl[3:]) & 1 == 0:
                cls = "top-bit-dropped"      # result bit 0 (= the most significant source bit) is missing
            ctx.fail(f"{op}:{cls}", f"{call} = {impl[3:]}, definition by bit index gives {sp[0][3:]}", case, impl=impl, spec=sp[0])
        elif op in ("rotl", "rotr"):
            inv = impls["rotr" if op == "rotl" else "rotl"]
            try:
                back = inv(int(impl[3:]), a[1], a[2])
            except Exception as e:  # noqa
                back = type(e).__name__
            if back != a[0]:
                ctx.fail(f"{op}:inverse-not-identity", f"inverse rotation of {call} gives {back}", case, impl=impl)
    elif op in ("to_signed", "to_unsigned", "correct", "sign_extend"):
        if impl != sp[0]:
            cls = "raises-" + impl[4:] if impl.startswith("err") else (
                "wrong-representative" if (int(impl[3:]) - int(sp[0][3:])) % (1 << a[1]) == 0 else "wrong-residue")
            ctx.fail(f"{op}:{cls}", f"{call} -> {impl}, two's-complement definition gives {sp[0][3:]}", case, impl=impl, spec=sp[0])
    elif op in ("clz", "ctz", "popcnt"):
        if impl != sp[0]:
            cls = "raises-" + impl[4:] if impl.startswith("err") else "wrong-count"
            ctx.fail(f"{op}:{cls}", f"{call} -> {impl}, definition gives {sp[0][3:]}", case, impl=impl, spec=sp[0])
    elif op == "encode_imm32":
        rep = sp[0] == "ok True"
        if impl.startswith("ok "):
            if not rep:
                ctx.fail("encode_imm32:accepts-unrepresentable", f"{call} = {impl[3:]} but no rot:imm8 denotes {a[0]}", case, impl=impl)
            elif not (0 <= int(impl[3:]) < 4096) or sp[1] != f"ok {a[0]}":
                ctx.fail("encode_imm32:wrong-encoding", f"{call} = {impl[3:]} which decodes to {sp[1]}", case, impl=impl, decoded=sp[1])
        elif impl == "err ValueError":
            if rep:
                ctx.fail("encode_imm32:rejects-representable", f"{call} raised ValueError but the value is a rotated 8-bit immediate", case)
        else:
            ctx.fail(f"encode_imm32:raises-{impl[4:]}", f"{call} raised {impl[4:]}", case)
    # helpers of bitfun.py outside the property statement's list: their definitions are
    # theorems about the model; on the real code they are covered by the correspondence only.


def nontrivial(op, a, impl):
    if impl.startswith("err"):
        return True
    if op == "encode_imm32":
        return a[0] > 255
    if a[0] == 0:
        return False
    return impl != f"ok {a[0]}"


def check(ctx):
    impls = impl_table()
    cases = gen_cases(ctx)
    seen, uniq = set(), []
    for c in cases:
        if c not in seen:
            seen.add(c)
            uniq.append(c)
    cases = uniq
    reqs, impl, strict = [], [], []
    sreqs, sidx = [], []
    for op, a in cases:
        reqs.append(op + " " + " ".join(str(x) for x in a))
        r = run(impls, op, a)
        impl.append(r)
        dom = in_domain(op, a)
        strict.append(dom)
        ls = spec_lines(op, a, r) if dom else []
        sidx.append((len(sreqs), len(ls)))
        sreqs += ls
    out = ctx.driver("C39", reqs + sreqs)
    model, spec = out[: len(reqs)], out[len(reqs):]
    bad = [q for q, m in zip(reqs + sreqs, out) if m == "bad-op"]
    if bad:
        raise ctx_broken(f"driver rejected {len(bad)} requests, e.g. {bad[:3]}")
    ood_diff = 0
    for (op, a), rq, i, m, dom, (s0, sn) in zip(cases, reqs, impl, model, strict, sidx):
        ctx.count("eval_" + op)
        if i.startswith("err"):
            ctx.count("outcome_" + i[4:])
        if nontrivial(op, a, i):
            ctx.nontrivial(rq)
        if dom:
            if i != m:
                ctx.disagree(op, rq, i, m)
            evaluate(ctx, impls, op, a, i, spec[s0:s0 + sn])
        else:
            ctx.count("out_of_domain")
            if i != m:
                ood_diff += 1
                if ood_diff <= 5:
                    ctx.note(f"outside the helper's domain (not part of the property): {rq}: impl {i}, model {m}")
    if ood_diff:
        ctx.count("out_of_domain_differences", ood_diff)
    for k in (0, 4, len(CORPUS) + 700, len(cases) // 2, len(cases) - 1):
        if k < len(cases):
            ctx.sample({"request": reqs[k], "impl": impl[k], "model": model[k]})
    wmax = 12 if ctx.thorough else 8
    ctx.extra_cov["exhaustive"] = True
    ctx.extra_cov["exhaustive_domain"] = (f"every value 0..2^w-1 of every width w=1..{wmax} for rotl/rotr (every count 0..w-1), reverse_bits, "
                                          f"to_signed, to_unsigned, clz, ctz, popcnt, sign_extend; rot:imm8 image of encode_imm32 (4096 fields)")
    ctx.extra_cov["spec_evaluations"] = len(sreqs)


def ctx_broken(msg):
    from harness.common import BrokenCheck
    return BrokenCheck(msg)


def replay(ctx, rp):
    """re-run the recorded failing case (and the whole check) against the current tree"""
    case = rp.get("case") or {}
    if isinstance(case, dict) and "op" in case:
        impls = impl_table()
        op, a = case["op"], tuple(case["args"])
        i = run(impls, op, a)
        ls = spec_lines(op, a, i)
        out = ctx.driver("C39", [op + " " + " ".join(str(x) for x in a)] + ls)
        print(f"replay {op}{a}: impl={i} model={out[0]} spec={out[1:]}")
        if i != out[0]:
            ctx.disagree(op, str(case), i, out[0])
        evaluate(ctx, impls, op, a, i, out[1:])
    else:
        check(ctx)
