"""C01 the C front-end preserves the meaning of defined-behaviour C programs (partial: integer expressions + layout).

regen : dumps, for every target whose CContext/CCodeGenerator/CSemantics can be built, the live integer type table
        (CContext.type_size_map sizes/alignments, CCodeGenerator.ir_type_map ir types, pointer size, the type
        CSemantics gives `sizeof`), plus CSemantics.basic_ranks, BasicType type sets and the "unsigned" variants
        (RootScope.atomic_types) into lean/PpciVerif/Gen/CTypes.lean; Props.C01 re-checks Model.CType / Model.CLower /
        Model.CLayout against it and proves the cross-target consistency of the ir type map.
check : (a) EXHAUSTIVE over operator x type x type (and unary operator x type, cast x type x type, ?: x type x type):
            `R f(T1 a, T2 b) { return a op b; }` compiled by the REAL front-end; the typed AST (result type, inserted
            casts) and the decision tree of the emitted function (every IR instruction with its IR type) are compared
            with Model.CType.elaborate / Model.CLower (correspondence) and the typing with Spec.CExpr.typeOf (property);
        (b) random nested UB-free expressions over variables of all integer types, constants of all forms, sizeof:
            typed AST + decision tree vs model, and the real IR executed (ir_to_python in-process; Spec.IR reference
            interpreter through Drivers/IR on a subset; thorough: native x86-64) on boundary + random argument vectors
            vs Spec.CExpr.eval (property) and vs Spec.IRExpr.ieval of the model's tree (correspondence);
        (c) struct/union/array layouts: CContext.sizeof/alignment/offsetof vs Model.CLayout (correspondence) and
            Spec.CLayout (property); thorough: gcc's sizeof/_Alignof/offsetof validate Spec.CLayout, gcc's values of
            the generated expressions (compiled with -fsanitize=undefined) validate Spec.CExpr;
        (d) random statement-level programs (loops, if, switch, arrays, structs, pointers, calls) ppci vs gcc on
            random arguments: failing-input search only (no theorem).
"""
import io
import json
import logging
import os
import subprocess
import tempfile

from . import common

PROP = "C01"
LEAN_PROPS = "PpciVerif/Props/C01.lean"
LEAN_TARGETS = ["PpciVerif.Props.C01", "Drivers.C01"]
LEVEL = "proof"

INT_IDS = ["char", "unsigned char", "short", "unsigned short", "int", "unsigned int", "long", "unsigned long", "long long",
           "unsigned long long"]
TAGS = ["char", "uchar", "short", "ushort", "int", "uint", "long", "ulong", "llong", "ullong"]
TAG_OF_ID = dict(zip(INT_IDS, TAGS))
ID_OF_TAG = dict(zip(TAGS, INT_IDS))
BITS = {"char": 8, "uchar": 8, "short": 16, "ushort": 16, "int": 32, "uint": 32, "long": 64, "ulong": 64, "llong": 64, "ullong": 64}
SIGNED = {"char", "short", "int", "long", "llong"}
LAYOUT_IDS = INT_IDS + ["float", "double"]


# ----------------------------------------------------------------------------------------------
# translation: dump live tables
def _s(x):
    return '"' + str(x).replace("\\", "\\\\").replace('"', '\\"') + '"'


def arch_rows():
    """[(arch, status, [(tid, size, align, irty)], ptr_size, ptr_align, sizeof_type_id, size_t_id)]"""
    from ppci.api import get_arch
    from ppci.arch import target_list
    from ppci.lang.c import COptions
    from ppci.lang.c.context import CContext
    from ppci.lang.c.codegenerator import CCodeGenerator
    from ppci.lang.c.semantics import CSemantics
    rows = []
    for name in sorted(target_list.target_names):
        try:
            info = get_arch(name).info
            ctx = CContext(COptions(), info)
            cg = CCodeGenerator(ctx)
            sem = CSemantics(ctx)
            types = []
            for tid in LAYOUT_IDS:
                size, align = ctx.type_size_map[tid]
                types.append((tid, size, align, str(cg.ir_type_map[tid][0])))
            szof = sem.on_sizeof(sem.int_type, None).typ.type_id
            rows.append((name, "ok", types, info.get_size("ptr"), info.get_alignment("ptr"), szof, sem.size_t_type.type_id))
        except Exception as e:  # noqa  (avr/mcs6500/stm8: no 32-bit `long` in the arch info)
            rows.append((name, type(e).__name__, [], 0, 0, "", ""))
    return rows


def gen_text():
    from ppci.lang.c.semantics import CSemantics
    from ppci.lang.c.scope import RootScope
    from ppci.lang.c.nodes.types import BasicType
    rs = RootScope()

    def strs(xs):
        return "[" + ", ".join(_s(x) for x in xs) + "]"

    def pairs(xs, q=False):
        return "[" + ", ".join(f"({_s(i)}, {_s(r) if q else r})" for i, r in xs) + "]"

    ranks = [(i, CSemantics.basic_ranks[i]) for i in INT_IDS]
    unsv = [(i, rs.get_type(["unsigned"] + i.split()).type_id) for i in INT_IDS if i in BasicType.SIGNED_INTEGER_TYPES]
    archs = []
    for name, st, types, ps, pa, szof, szt in arch_rows():
        ts = "[" + ", ".join(f"({_s(t)}, {s}, {a}, {_s(i)})" for t, s, a, i in types) + "]"
        archs.append(f"  ({_s(name)}, {_s(st)}, {ts}, {ps}, {pa}, {_s(szof)}, {_s(szt)})")
    out = [
        "/- GENERATED by harness/c01.py regen() from the live ppci objects of the checked tree - do not edit -/",
        "namespace Gen.CTypes", "",
        "/-- `CSemantics.basic_ranks` of the integer types -/",
        f"def basicRanks : List (String × Nat) := {pairs(ranks)}", "",
        "/-- `BasicType.SIGNED_INTEGER_TYPES`, `PROMOTABLE_INTEGER_TYPES`, `INTEGER_TYPES` (sorted) -/",
        f"def signedTypes : List String := {strs(sorted(BasicType.SIGNED_INTEGER_TYPES))}",
        f"def promotableTypes : List String := {strs(sorted(BasicType.PROMOTABLE_INTEGER_TYPES))}",
        f"def integerTypes : List String := {strs(sorted(BasicType.INTEGER_TYPES))}", "",
        "/-- `RootScope().get_type([\"unsigned\"] + tid.split()).type_id` for the signed integer types -/",
        f"def unsignedVariants : List (String × String) := {pairs(unsv, True)}", "",
        "/-- per target: (name, \"ok\" | exception raised while building CContext/CCodeGenerator/CSemantics,",
        "    [(type id, `type_size_map` size, alignment, `ir_type_map` ir type)], pointer size, pointer alignment,",
        "    type id of a `sizeof` expression (`on_sizeof(...).typ`), `size_t_type` id) -/",
        "def archs : List (String × String × List (String × Nat × Nat × String) × Nat × Nat × String × String) := [",
        ",\n".join(archs),
        "]", "",
        "end Gen.CTypes", "",
    ]
    return "\n".join(out)


def regen(ctx):
    txt = gen_text()
    p = common.LEAN / "PpciVerif" / "Gen" / "CTypes.lean"
    if not p.exists() or p.read_text() != txt:
        p.parent.mkdir(exist_ok=True)
        p.write_text(txt)
