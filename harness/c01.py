"""C01 the C front-end preserves the meaning of defined-behaviour C programs (partial: integer expressions + layout).

regen : dumps, for every target whose CContext/CCodeGenerator/CSemantics can be built, the live integer type table
        (CContext.type_size_map sizes/alignments, CCodeGenerator.ir_type_map ir types, pointer size, the type
        CSemantics gives `sizeof`), plus CSemantics.basic_ranks, BasicType type sets and the "unsigned" variants
        (RootScope.atomic_types) into lean/PpciVerif/Gen/CTypes.lean; Props.C01 re-checks Model.CType / Model.CLower /
        Model.CLayout against it and proves the cross-target consistency of the ir type map.
check : (a) EXHAUSTIVE over operator x type x type (and unary operator x type, cast x type x type, ?: x type x type):
            `R f(T1 a, T2 b) { return a op b; }` compiled by the REAL front-end; the typed AST (result type, inserted
            casts) and the decision tree of the emitted function (every IR instruction with its IR type) are compared
            with Model.CType.elaborate / Model.CLower (correspondence) and the typing with Spec.CExpr.typeOf (property);
        (b) random nested UB-free expressions over variables of all integer types, constants of all forms, sizeof:
            typed AST + decision tree vs model, and the real IR executed (ir_to_python in-process; Spec.IR reference
            interpreter through Drivers/IR on a subset; thorough: native x86-64) on boundary + random argument vectors
            vs Spec.CExpr.eval (property) and vs Spec.IRExpr.ieval of the model's tree (correspondence);
        (c) struct/union/array layouts: CContext.sizeof/alignment/offsetof vs Model.CLayout (correspondence) and
            Spec.CLayout (property); thorough: gcc's sizeof/_Alignof/offsetof validate Spec.CLayout, gcc's values of
            the generated expressions (compiled with -fsanitize=undefined) validate Spec.CExpr;
        (d) random statement-level programs (loops, if, switch, arrays, structs, pointers, calls) ppci vs gcc on
            random arguments: failing-input search only (no theorem).
"""
import io
import json
import logging
import os
import subprocess
import tempfile

from . import common

PROP = "C01"
LEAN_PROPS = "PpciVerif/Props/C01.lean"
LEAN_TARGETS = ["PpciVerif.Props.C01", "Drivers.C01"]
LEVEL = "proof"
LEVEL_TEXT = (
    "PARTIAL claim (integer expressions and object layout, x86_64). Lean theorems, for ALL expressions of any size and nesting built "
    "from variables of the 11 integer types, integer constants (all bases/suffixes), character constants, unary + - ~ !, binary "
    "+ - * / % << >> & | ^ < > <= >= == != && ||, ?: and casts, and for ALL values of the variables: (typing) the model of ppci's "
    "semantic actions elaborates every expression C types and gives it exactly C's type (integer promotions, usual arithmetic "
    "conversions, constant types, result types), with finite table theorems stating the exact conversions inserted for every operator "
    "on every pair of the 10 BasicTypes; (values) whenever C defines the value (Spec.CExpr = Spec.CInt + variables; undefined behaviour "
    "= no value) the IR instructions the model of the code generator emits (IR operator and IR type per node; comparison / && || ! ?: "
    "as conditional-jump skeletons) evaluate to that value under the instruction semantics of the reference IR interpreter Spec.IR, "
    "and the emitted condition code branches on value != 0; (layout) for all struct/union/array types over basic types and pointers "
    "without bit-fields, size, alignment and member offsets computed by the model of CContext equal the System V x86-64 layout "
    "(members at the lowest aligned offset, size rounded up to the alignment; holds after fix 755c1e7); (tables) on every target whose "
    "C front-end builds the IR type of each integer C type has its width and signedness EXCEPT unsigned int on msp430 (open finding). "
    "(assignments) in the model of gen_binop/gen_inplace_mutation every call and every ++/-- written in an assignment expression "
    "(= op= ++ -- on array-index, *p and p->f designations, nested, with commas) is emitted exactly once and every assignment stores "
    "exactly once - the designation of a compound assignment is evaluated once; the model's load/store/call sequence is compared "
    "verbatim with the real emitted function for every assignment operator on every lvalue form. "
    "(switch) in the model of gen_switch/gen_case/gen_default every switch dispatches on exactly the case/default labels that "
    "lexically belong to it, in source order, for any nesting, and lowering a nested statement leaves the enclosing switch's label "
    "dictionary unchanged (save/restore); compared with the dispatch chains of the real emitted function for every generated "
    "control-flow program. "
    "sizeof expressions are EXCLUDED from the typing and value theorems: ppci gives them a signed type (open finding, Lean-proved "
    "witnesses). The models are hand-written; their tables are re-checked (decide) against a dump of the live objects on every run, "
    "and they are tied to the source by a differential run that is EXHAUSTIVE over operator x type x type for typing and emitted code "
    "and sampled for nested expressions, operand values and layouts. NOT claimed (only searched by differential runs against gcc, no "
    "theorem): statements, control flow, pointers and pointer arithmetic, arrays as values, calls, assignment and ++/--, switch, "
    "loops, the parser (precedence), bit-fields, anonymous members, floating point, enums, targets other than x86_64 for "
    "typing/values/layout."
)
LEVEL_NOTE = (
    "trusted: Lean kernel; axioms propext/Classical.choice/Quot.sound; Spec.CInt/Spec.CExpr (C11 on LP64, gcc's implementation-defined "
    "choices; validated against gcc 12 -fsanitize=undefined in the thorough tier on the generated expressions, not proved); Spec.IR "
    "instruction semantics; Spec.IRExpr: the tree-shaped composition of those instructions that abstracts block names, jumps and phi "
    "bookkeeping of the conditional skeletons - its relation to the block-structured function is NOT proved, it is re-established per "
    "generated program by symbolically executing the real function into the same decision tree and by running the real IR with Spec.IR "
    "itself and with ir_to_python; Spec.CLayout (psABI text; validated against gcc in the thorough tier); hand model <-> source "
    "correspondence is exhaustive for single operators on all type pairs but sampled for nested trees, values and layouts."
)
TECHNIQUE = ("Lean 4 proof: structural induction over expression trees with an invariant (type, value code, condition code); finite case "
             "analysis by decide +kernel over operators x type pairs; omega on wrap arithmetic after case split over the 11 types; "
             "mutual structural induction over object types for layout; table translation (decide against dumped live tables); "
             "differential correspondence of the real c_to_ir (typed AST + symbolic execution of the emitted function into a decision "
             "tree) with the model through a line-protocol driver")
RULE = ("(a) every operator x BasicType x BasicType program (2187: 18 binary x 10 x 10, 4 unary x 11, 121 casts, 100+11 ?:): typed AST "
        "and emitted decision tree compared, values on boundary x boundary + random vectors; (b) corpus of past defects/boundaries, then "
        "random expression trees of depth <= 4 (quick) / 5 (thorough) over 1..6 variables of random types with boundary-biased "
        "argument vectors; (c) layout corpus + random struct/union/array types of depth <= 3. distinct = distinct (program, argument "
        "vector) or layout type. non-trivial = the real front-end inserted an implicit conversion (single-operator programs), or C's "
        "value differs from the value computed with unbounded integers and no conversions (wrap, sign change, truncation, short-circuit "
        "of an undefined operand), or the layout contains padding")
TRUSTED = [
    "hand models Model.CType / Model.CLower / Model.CLayout of ppci/lang/c/{semantics,codegenerator,context}.py (integer BasicTypes, x86_64), tied by Gen.CTypes tables (decide) and a differential run of c_to_ir on every check",
    "Model.CBridge.toSrc: how a tree is written in C and read back by ppci's lexer/parser (exercised by the differential run, fully parenthesised text, not modelled)",
    "Spec.CExpr / Spec.CInt: C11 integer expressions on LP64 as gcc implements the implementation-defined parts; validated against gcc 12 with -fsanitize=undefined (thorough)",
    "Spec.IR instruction semantics and Spec.IRExpr (tree-shaped composition; block/phi structure abstracted, re-established per program by the harness)",
    "Spec.CLayout: System V x86-64 psABI data layout; validated against gcc 12 (thorough)",
    "harness/c01_lib.py decision_tree: symbolic execution of the real ir.Function (alloca slots, phis resolved along the path)",
]
ASSUMPTIONS = [
    "x86_64 (LP64) for typing, values and layout; char is signed",
    "generated expressions are printed fully parenthesised, so operator precedence of ppci's parser is not under test",
    "variables are function parameters read through their stack slot (no aliasing, no volatile)",
]

INT_IDS = ["char", "unsigned char", "short", "unsigned short", "int", "unsigned int", "long", "unsigned long", "long long",
           "unsigned long long"]
TAGS = ["char", "uchar", "short", "ushort", "int", "uint", "long", "ulong", "llong", "ullong"]
TAG_OF_ID = dict(zip(INT_IDS, TAGS))
ID_OF_TAG = dict(zip(TAGS, INT_IDS))
BITS = {"char": 8, "uchar": 8, "short": 16, "ushort": 16, "int": 32, "uint": 32, "long": 64, "ulong": 64, "llong": 64, "ullong": 64}
SIGNED = {"char", "short", "int", "long", "llong"}
LAYOUT_IDS = INT_IDS + ["float", "double"]


# ----------------------------------------------------------------------------------------------
# translation: dump live tables
def _s(x):
    return '"' + str(x).replace("\\", "\\\\").replace('"', '\\"') + '"'


def arch_rows():
    """[(arch, status, [(tid, size, align, irty)], ptr_size, ptr_align, sizeof_type_id, size_t_id)]"""
    from ppci.api import get_arch
    from ppci.arch import target_list
    from ppci.lang.c import COptions
    from ppci.lang.c.context import CContext
    from ppci.lang.c.codegenerator import CCodeGenerator
    from ppci.lang.c.semantics import CSemantics
    rows = []
    for name in sorted(target_list.target_names):
        try:
            info = get_arch(name).info
            ctx = CContext(COptions(), info)
            cg = CCodeGenerator(ctx)
            sem = CSemantics(ctx)
            types = []
            for tid in LAYOUT_IDS:
                size, align = ctx.type_size_map[tid]
                types.append((tid, size, align, str(cg.ir_type_map[tid][0])))
            szof = sem.on_sizeof(sem.int_type, None).typ.type_id
            rows.append((name, "ok", types, info.get_size("ptr"), info.get_alignment("ptr"), szof, sem.size_t_type.type_id))
        except Exception as e:  # noqa  (avr/mcs6500/stm8: no 32-bit `long` in the arch info)
            rows.append((name, type(e).__name__, [], 0, 0, "", ""))
    return rows


def gen_text():
    from ppci.lang.c.semantics import CSemantics
    from ppci.lang.c.scope import RootScope
    from ppci.lang.c.nodes.types import BasicType
    rs = RootScope()

    def strs(xs):
        return "[" + ", ".join(_s(x) for x in xs) + "]"

    def pairs(xs, q=False):
        return "[" + ", ".join(f"({_s(i)}, {_s(r) if q else r})" for i, r in xs) + "]"

    ranks = [(i, CSemantics.basic_ranks[i]) for i in INT_IDS]
    unsv = [(i, rs.get_type(["unsigned"] + i.split()).type_id) for i in INT_IDS if i in BasicType.SIGNED_INTEGER_TYPES]
    archs = []
    for name, st, types, ps, pa, szof, szt in arch_rows():
        ts = "[" + ", ".join(f"⟨{_s(t)}, {s}, {a}, {_s(i)}⟩" for t, s, a, i in types) + "]"
        archs.append(f"  ⟨{_s(name)}, {_s(st)}, {ts}, {ps}, {pa}, {_s(szof)}, {_s(szt)}⟩")
    out = [
        "/- GENERATED by harness/c01.py regen() from the live ppci objects of the checked tree - do not edit -/",
        "namespace Gen.CTypes", "",
        "/-- `CSemantics.basic_ranks` of the integer types -/",
        f"def basicRanks : List (String × Nat) := {pairs(ranks)}", "",
        "/-- `BasicType.SIGNED_INTEGER_TYPES`, `PROMOTABLE_INTEGER_TYPES`, `INTEGER_TYPES` (sorted) -/",
        f"def signedTypes : List String := {strs(sorted(BasicType.SIGNED_INTEGER_TYPES))}",
        f"def promotableTypes : List String := {strs(sorted(BasicType.PROMOTABLE_INTEGER_TYPES))}",
        f"def integerTypes : List String := {strs(sorted(BasicType.INTEGER_TYPES))}", "",
        "/-- `RootScope().get_type([\"unsigned\"] + tid.split()).type_id` for the signed integer types -/",
        f"def unsignedVariants : List (String × String) := {pairs(unsv, True)}", "",
        "/-- one basic type on one target: `CContext.type_size_map[tid]` and `CCodeGenerator.ir_type_map[tid][0]` -/",
        "structure TypeRow where",
        "  tid : String",
        "  size : Nat",
        "  align : Nat",
        "  irTy : String",
        "  deriving DecidableEq, Repr", "",
        "/-- one target: status is \"ok\" or the exception raised while building CContext/CCodeGenerator/CSemantics;",
        "    pointer size and alignment; type id of a `sizeof` expression (`on_sizeof(...).typ`); `size_t_type` id -/",
        "structure ArchRow where",
        "  name : String",
        "  status : String",
        "  types : List TypeRow",
        "  ptrSize : Nat",
        "  ptrAlign : Nat",
        "  sizeofTy : String",
        "  sizeT : String",
        "  deriving DecidableEq, Repr", "",
        "def archs : List ArchRow := [",
        ",\n".join(archs),
        "]", "",
        "end Gen.CTypes", "",
    ]
    return "\n".join(out)


def regen(ctx):
    txt = gen_text()
    p = common.LEAN / "PpciVerif" / "Gen" / "CTypes.lean"
    if not p.exists() or p.read_text() != txt:
        p.parent.mkdir(exist_ok=True)
        p.write_text(txt)


# ----------------------------------------------------------------------------------------------
# cases
from . import c01_lib as L  # noqa: E402
from . import c01_stmt as ST  # noqa: E402
from . import c01_flow as FL  # noqa: E402
from . import c01_const as KC  # noqa: E402

PPCI_TYPES = ["char", "uchar", "short", "ushort", "int", "uint", "long", "ulong", "llong", "ullong"]


def V(t, i):
    return ("V", t, i)


def lit(v, suf="n", base="d"):
    return ("L", base, suf, v)


def B(op, a, b):
    return ("B", op, a, b)


def U(op, a):
    return ("U", op, a)


def K(t, a):
    return ("K", t, a)


def Q(c, a, b):
    return ("Q", c, a, b)


# (tree, [argument vectors]): past defects and boundary cases, always run first
CORPUS = [
    # the defects repaired by 21f7d05 (typing)
    (B("lt", V("schar", 0), V("uchar", 1)), [[-1, 1], [1, 1], [-128, 255]]),
    (B("shr", V("int", 0), V("uint", 1)), [[-8, 1], [-1, 31], [2147483647, 3]]),
    (B("lt", V("llong", 0), V("ulong", 1)), [[-1, 1], [1, 2], [-9223372036854775808, 0]]),
    (U("neg", V("uchar", 0)), [[1], [255], [0]]),
    (U("bnot", V("ushort", 0)), [[0], [65535]]),
    (U("bnot", V("uchar", 0)), [[0], [255]]),
    (U("neg", V("schar", 0)), [[-128], [127]]),
    (B("shl", V("uchar", 0), V("long", 1)), [[255, 23], [1, 30]]),
    (B("eq", V("ushort", 0), V("short", 1)), [[65535, -1], [1, 1]]),
    (Q(V("long", 0), lit(1), lit(2)), [[4294967296], [0], [1]]),
    (Q(V("int", 0), V("schar", 1), V("uchar", 2)), [[1, -1, 200], [0, -1, 200]]),
    (B("add", lit(2147483648), lit(1)), [[]]),
    (B("add", ("C", 200), lit(1)), [[]]),
    # arithmetic conversions / truncating division / shifts / casts
    (B("div", V("int", 0), V("int", 1)), [[-7, 2], [7, -2], [-2147483648, 1], [2147483647, -1]]),
    (B("mod", V("int", 0), V("int", 1)), [[-7, 2], [7, -2], [-7, -2], [-2147483647, -1]]),
    (B("div", V("uint", 0), V("int", 1)), [[4294967295, -1], [7, 2]]),
    (B("mod", V("long", 0), V("uchar", 1)), [[-9223372036854775807, 255], [-1, 2]]),
    (B("shr", V("llong", 0), V("schar", 1)), [[-9223372036854775808, 63], [-1, 0]]),
    (B("shr", V("ullong", 0), V("int", 1)), [[18446744073709551615, 63], [18446744073709551615, 1]]),
    (B("shl", V("uint", 0), V("ullong", 1)), [[4294967295, 31], [1, 0]]),
    (B("mul", V("ushort", 0), V("ushort", 1)), [[255, 255], [46340, 46340]]),
    (B("add", V("uint", 0), V("long", 1)), [[4294967295, 1], [0, -1]]),
    (B("sub", V("uint", 0), V("int", 1)), [[0, 1], [5, -5]]),
    (B("band", V("schar", 0), V("ushort", 1)), [[-1, 65535], [-128, 255]]),
    (B("bxor", V("long", 0), V("uint", 1)), [[-1, 4294967295]]),
    (K("schar", V("int", 0)), [[200], [-129], [127]]),
    (K("uchar", V("llong", 0)), [[-1], [256]]),
    (K("ushort", K("schar", V("int", 0))), [[-1], [128]]),
    (K("ulong", V("schar", 0)), [[-1], [5]]),
    (K("int", V("ullong", 0)), [[18446744073709551615], [2147483648]]),
    (B("land", V("char", 0), B("div", lit(1), V("int", 1))), [[0, 0], [1, 1], [1, 2]]),
    (B("lor", V("ulong", 0), B("mod", lit(1), V("int", 1))), [[1, 0], [0, 1], [0, 7]]),
    (U("lnot", V("ullong", 0)), [[0], [4294967296]]),
    (U("lnot", B("lt", V("int", 0), V("uint", 1))), [[-1, 1], [0, 1]]),
    (Q(B("land", V("char", 0), V("long", 1)), U("neg", V("ushort", 2)), lit(4294967296)), [[1, 1, 3], [0, 1, 3], [1, 0, 3]]),
    (B("add", U("plus", V("char", 0)), U("plus", V("ushort", 1))), [[-1, 65535]]),
    (B("lt", lit(0xffffffff, "n", "x"), lit(0)), [[]]),
    (B("lt", U("neg", lit(1)), lit(0, "u")), [[]]),
    (B("shl", lit(1), lit(31, "u")), [[]]),
]


# sizeof has a SIGNED type in ppci (open finding ctype:sizeof:signed): these reproduce it on every run
SIZEOF_CORPUS = [
    (("Z", "int", 4), [[]]),
    (B("gt", B("sub", ("Z", "int", 4), lit(5)), lit(0)), [[]]),      # 1 in C (unsigned arithmetic), 0 with a signed sizeof
    (B("lt", V("int", 0), ("Z", "long", 8)), [[-1], [3]]),
]


def single_operator_cases():
    """(label, tree, params) for every operator x type (x type)"""
    out = []
    for op in L.ARITH + L.SHIFT + L.CMP + L.LOGIC:
        for a in PPCI_TYPES:
            for b in PPCI_TYPES:
                out.append((f"bin:{op}:{a}:{b}", B(op, V(a, 0), V(b, 1)), [a, b]))
    for op in L.UNOPS:
        for a in L.TYPES:
            out.append((f"un:{op}:{a}", U(op, V(a, 0)), [a]))
    for t in L.TYPES:
        for a in L.TYPES:
            out.append((f"cast:{t}:{a}", K(t, V(a, 0)), [a]))
    for a in PPCI_TYPES:
        for b in PPCI_TYPES:
            out.append((f"cond:{a}:{b}", Q(V("int", 2), V(a, 0), V(b, 1)), [a, b, "int"]))
    for c in L.TYPES:
        out.append((f"condc:{c}", Q(V(c, 0), lit(1), lit(2)), [c]))
    return out


def type_class(t):
    if t in ("char", "schar", "short"):
        return "promotable-signed"
    if t in ("uchar", "ushort"):
        return "promotable-unsigned"
    return t


def op_class(e):
    k = e[0]
    if k == "B":
        op = e[1]
        return "arith" if op in L.ARITH else "shift" if op in L.SHIFT else "cmp" if op in L.CMP else "logic"
    if k == "U":
        return e[1]
    return {"Q": "cond", "K": "cast", "V": "var", "L": "literal", "C": "charconst", "Z": "sizeof"}[k]


def root_types_text(e, types_of):
    return ":".join(type_class(types_of.get(id(x), "?")) for x in e[1:] if isinstance(x, tuple))


def pair_vectors(params, rng, n_extra):
    """argument vectors for a single-operator case: boundary x boundary (sampled) + random"""
    bs = [L.boundary_values(t) for t in params]
    out = []
    if len(params) == 1:
        out = [[v] for v in bs[0]]
    else:
        key = [[bs[i][0], bs[i][-1], 0 if 0 in bs[i] else bs[i][0], 1, bs[i][len(bs[i]) // 2]] for i in range(len(params))]
        for x in key[0]:
            for y in key[1]:
                out.append([x, y] + [1] * (len(params) - 2))
        if len(params) == 3:
            out += [[key[0][0], key[1][1], 0], [key[0][1], key[1][0], 0]]
    out += L.gen_args(rng, params, n_extra)
    return out


# ----------------------------------------------------------------------------------------------
def check(ctx):
    import time
    rng = ctx.rng
    thorough = ctx.thorough
    phases = {}
    ctx.extra_cov["phase_seconds"] = phases
    t0 = time.time()
    cases = []          # dict(label, tree, params, argvs, kind)

    def add(label, tree, params, argvs, kind):
        cases.append({"label": label, "tree": tree, "params": params, "argvs": argvs, "kind": kind})

    def params_of(tree):
        vs = L.variables(tree)
        return [vs.get(j, "int") for j in range(max(vs) + 1)] if vs else []

    for i, (tree, argvs) in enumerate(CORPUS):
        add(f"corpus{i}", tree, params_of(tree), argvs, "corpus")
    for i, (tree, argvs) in enumerate(SIZEOF_CORPUS):
        add(f"sizeof{i}", tree, params_of(tree), argvs, "sizeof")
    singles = single_operator_cases()
    for label, tree, params in singles:
        argvs = pair_vectors(params, rng, 4 if thorough else 2)
        if not thorough:
            argvs = rng.sample(argvs, min(len(argvs), 6 if label.startswith("bin:") else 8))
        add(label, tree, params, argvs, "single")
    n_random = 1200 if thorough else 160
    for i in range(n_random):
        np_ = rng.randint(1, 6)
        params = [rng.choice(L.TYPES) for _ in range(np_)]
        depth = rng.choice([2, 3, 3, 4, 4, 5] if thorough else [2, 3, 3, 4])
        tree = L.gen_expr(rng, depth, params)
        if L.size(tree) > 60:
            continue
        add(f"rand{i}", tree, params, L.gen_args(rng, params, 14 if thorough else 6), "random")

    # ---- the real front-end (process pool) ------------------------------------------------------
    per_unit = 60
    jobs = []
    for k in range(0, len(cases), per_unit):
        chunk = cases[k:k + per_unit]
        src = "\n".join(L.func_text(f"f{k + j}", "llong", c["params"], c["tree"]) for j, c in enumerate(chunk)) + "\n"
        funcs = [(f"f{k + j}", c["argvs"]) for j, c in enumerate(chunk)]
        # Spec.IR itself executes: the corpus unit, and a sample of the others
        sir = k == 0 or rng.random() < (0.25 if thorough else 0.05)
        jobs.append({"src": src, "funcs": funcs, "spec_ir": sir, "native": False, "want_native": thorough and rng.random() < 0.15})
    ltypes, ljobs, lreqs, lsub = layout_prepare(ctx)
    sjobs = stmt_prepare(ctx)
    ejobs, ereqs, efam = events_prepare(ctx)
    fjobs, freqs = flow_prepare(ctx)
    kjobs = const_prepare(ctx)
    all_results = L.run_units(jobs + ljobs + sjobs + ejobs + fjobs + kjobs)
    kresults = all_results[len(all_results) - len(kjobs):]
    all_results = all_results[:len(all_results) - len(kjobs)]
    fresults = all_results[len(jobs) + len(ljobs) + len(sjobs) + len(ejobs):]
    all_results = all_results[:len(jobs) + len(ljobs) + len(sjobs) + len(ejobs)]
    results, lresults = all_results[:len(jobs)], all_results[len(jobs):len(jobs) + len(ljobs)]
    sresults = all_results[len(jobs) + len(ljobs):len(jobs) + len(ljobs) + len(sjobs)]
    eresults = all_results[len(jobs) + len(ljobs) + len(sjobs):]

    # a unit that does not compile is split so that the offending function is alone
    def flatten(jobs, results):
        per_case = {}
        retry = []
        for job, res in zip(jobs, results):
            if res["status"] == "ok":
                for name, _ in job["funcs"]:
                    per_case[int(name[1:])] = res["funcs"][name]
            elif len(job["funcs"]) == 1:
                per_case[int(job["funcs"][0][0][1:])] = {"error": res["status"], "msg": res["msg"]}
            else:
                lines = job["src"].splitlines()
                h = len(lines) // 2
                for part in ((lines[:h], job["funcs"][:h]), (lines[h:], job["funcs"][h:])):
                    retry.append({"src": "\n".join(part[0]) + "\n", "funcs": part[1], "spec_ir": False, "native": False})
        return per_case, retry
    per_case, retry = flatten(jobs, results)
    rounds = 0
    while retry and rounds < 8:
        rr = L.run_units(retry)
        pc, retry = flatten(retry, rr)
        per_case.update(pc)
        rounds += 1
    phases["frontend"] = round(time.time() - t0, 1)
    t0 = time.time()

    # ---- the model and the specification (one driver run) -----------------------------------------
    reqs = []
    slots = []
    for i, c in enumerate(cases):
        p = L.proto(c["tree"])
        slots.append(len(reqs))
        reqs += [f"stype {p}", f"relab {p}", f"rtree {p}" if L.nconds(c["tree"]) <= 10 else f"stype {p}"]
        for args in c["argvs"]:
            env = "[" + ",".join(str(a) for a in args) + "]"
            reqs += [f"seval {env} {p}", f"rieval {env} {p}"]
    all_replies = ctx.driver("C01", reqs + lreqs + ereqs + freqs)
    replies, lreplies = all_replies[:len(reqs)], all_replies[len(reqs):len(reqs) + len(lreqs)]
    ereplies = all_replies[len(reqs) + len(lreqs):len(reqs) + len(lreqs) + len(ereqs)]
    freplies = all_replies[len(reqs) + len(lreqs) + len(ereqs):]
    phases["driver"] = round(time.time() - t0, 1)
    t0 = time.time()

    failing = []          # (case index, argument vectors that expose it)
    for i, c in enumerate(cases):
        base = slots[i]
        stype = replies[base][3:]
        m_ast = replies[base + 1][3:]
        m_tree = replies[base + 2][3:] if L.nconds(c["tree"]) <= 10 else None
        obs = per_case.get(i, {"error": "lost"})
        ctx.count("eval_" + c["kind"])
        label = c["label"]
        text = L.render_c(c["tree"])
        if "error" in obs:
            # the model elaborates every typed expression; the real front-end must compile it
            ctx.count("compile_" + obs["error"])
            if stype != "none":
                ctx.disagree("compile", {"label": label, "c": text}, obs["error"] + ": " + obs.get("msg", ""), m_ast)
                ctx.fail(f"ccompile:{op_class(c['tree'])}:{obs['error']}",
                         f"`{text}` has type {stype} in C but the front-end raised {obs['error']}: {obs.get('msg', '')}",
                         {"label": label, "c": text, "params": c["params"]})
            continue
        ctx.count("programs")
        # --- correspondence: typed AST and emitted code
        if obs["ast"] != m_ast:
            ctx.disagree("typed-ast", {"label": label, "c": text}, obs["ast"], m_ast)
        if m_tree is not None and obs["tree"] is not None:
            ctx.count("eval_tree")
            if obs["tree"] != m_tree:
                ctx.disagree("ir-decision-tree", {"label": label, "c": text}, obs["tree"], m_tree)
        # --- the property: typing.  The type ppci gives the expression is read off the real AST
        bad_args = []
        real_ty = ast_type(obs["ast"])
        type_bad = stype != "none" and real_ty != L.MODEL_OF_SPEC.get(stype, stype)
        if not type_bad and c["kind"] == "single" and "icast" in obs["ast"]:
            ctx.nontrivial(label)
        # --- the property: values
        vals = obs.get("vals") or []
        nat = obs.get("native")
        for j, args in enumerate(c["argvs"]):
            sv = replies[base + 3 + 2 * j][3:]
            mv = replies[base + 4 + 2 * j][3:]
            if sv == "none":
                ctx.count("skipped_undefined")
                continue
            ctx.count("eval_value")
            want_v = L.wrap("llong", int(sv))
            got = vals[j] if j < len(vals) else "missing"
            if mv != str(want_v) and c["kind"] != "sizeof":
                # the theorem says this cannot happen (sizeof excepted): the model's code computes C's value
                ctx.disagree("model-value-vs-spec", {"label": label, "c": text, "args": args}, mv, str(want_v))
            if got != want_v:
                bad_args.append(args)
            elif want_v != wrap_naive(c, args):
                ctx.nontrivial((label if c["kind"] != "random" else text, tuple(args)))
        if type_bad or bad_args:
            c["ast"] = obs["ast"]
            failing.append((i, bad_args, type_bad))
        if c["kind"] in ("corpus", "random") and len(ctx.samples) < 6 and i % 37 == 0:
            ctx.sample({"c": text, "params": c["params"], "typed_ast": obs["ast"][:300], "spec_type": stype,
                        "args": c["argvs"][:2], "values": vals[:2]})
    phases["compare"] = round(time.time() - t0, 1)
    t0 = time.time()

    # ---- extra search (thorough): native x86-64 execution of ppci's own code for the DEFINED argument vectors.
    #      A difference is a back-end matter (C04/C05: e.g. phis lowered before a conditional jump) and is only noted.
    njobs, nindex = [], []
    for job in jobs:
        if not job.get("want_native"):
            continue
        funcs, idx = [], []
        for name, argvs in job["funcs"]:
            ci = int(name[1:])
            if "error" in per_case.get(ci, {"error": 1}):
                funcs = None
                break
            js = [j for j in range(len(argvs)) if replies[slots[ci] + 3 + 2 * j][3:] != "none"][:8]
            funcs.append((name, []))
            idx.append((ci, name, js))
        if funcs:
            njobs.append({"src": job["src"], "funcs": [(n, [cases[ci]["argvs"][j] for j in js]) for ci, n, js in idx],
                          "spec_ir": False, "native": True, "no_ir2py": True})
            nindex.append(idx)
    if njobs:
        for res, idx in zip(L.run_units(njobs), nindex):
            if res["status"] != "ok":
                continue
            for ci, name, js in idx:
                nat = res["funcs"].get(name, {}).get("native") or []
                for j, got in zip(js, nat):
                    ctx.count("eval_native")
                    want_v = L.wrap("llong", int(replies[slots[ci] + 3 + 2 * j][3:]))
                    if got != want_v:
                        ctx.count("native_differs")
                        if ctx.counts["native_differs"] <= 5:
                            ctx.note(f"native x86-64 run differs (back-end, C04/C05, not reported under C01): "
                                     f"{L.render_c(cases[ci]['tree'])} args={cases[ci]['argvs'][j]}: {got} vs {want_v}")
    phases["native"] = round(time.time() - t0, 1)
    t0 = time.time()

    # ---- Spec.IR executes the real modules (subset) -----------------------------------------------
    ir_lines, ir_index = [], []
    for job, res in zip(jobs, results):
        if res["status"] == "ok" and res.get("irtext"):
            ir_lines += ["config ptr 8", "load " + res["irtext"], "wf"]
            for name, argvs in job["funcs"]:
                ci = int(name[1:])
                for j, args in enumerate(argvs[: (6 if thorough else 3)]):
                    ir_index.append((len(ir_lines), ci, j))
                    ir_lines.append(f"run {name} 100000 " + " ".join(str(a) for a in args))
    # the statement-level corpus unit is run by Spec.IR as well (return value, globals, external-call trace)
    stmt_ir = []
    if sresults and "error" not in sresults[0] and sresults[0].get("irtext"):
        ir_lines += ["config ptr 8", "load " + sresults[0]["irtext"], "wf"]
        for n, f in zip(sjobs[0]["names"], sjobs[0]["fs"]):
            for k in sjobs[0]["ks"][n][:1]:
                stmt_ir.append((len(ir_lines), n, f, k))
                ir_lines.append(f"run {n} 200000 {k}")
    flow_ir = []
    if fresults and "error" not in fresults[0] and fresults[0].get("irtext"):
        ir_lines += ["config ptr 8", "load " + fresults[0]["irtext"], "wf"]
        for n, f in zip(fjobs[0]["names"], fjobs[0]["fs"]):
            for args in fjobs[0]["argvs"][n][: (6 if thorough else 3)]:
                flow_ir.append((len(ir_lines), n, f, args))
                ir_lines.append(f"run {n} 400000 {args[0]} {args[1]}")
    if ir_lines:
        ir_rep = ctx.driver("IR", ir_lines)
        from . import irrun
        for pos, n, f, args in flow_ir:
            ctx.count("eval_flow_specir")
            want = FL.run_reference(f, args[0], args[1])
            got = irrun.strip_steps(ir_rep[pos])[3:]
            if got != want:
                ctx.fail("cflow:specir:" + stmt_diff(got, want), f"{n}({args[0]}, {args[1]}): Spec.IR run of the emitted function gives "
                         f"`{got[:200]}`, C gives `{want[:200]}`", {"function": FL.c_function(n, f), "args": args})
        for pos, n, f, k in stmt_ir:
            ctx.count("eval_stmt_specir")
            want = ST.expected(f, k, sresults[0]["order"])
            got = irrun.strip_steps(ir_rep[pos])[3:]
            if got != want:
                ctx.fail("cstmt:specir:" + stmt_diff(got, want), f"{n}({k}u): Spec.IR run of the emitted function gives `{got[:200]}`, "
                         f"C gives `{want[:200]}`", {"function": ST.c_function(n, f), "k": k})
        already = {i for i, _, _ in failing}
        for pos, ci, j in ir_index:
            c = cases[ci]
            sv = replies[slots[ci] + 3 + 2 * j][3:]
            if sv == "none":
                continue
            ctx.count("eval_specir")
            r = ir_rep[pos]
            got = L.parse_ret(r[3:]) if r.startswith("ok ret=") else r
            want_v = L.wrap("llong", int(sv))
            if got != want_v and ci not in already:
                already.add(ci)
                failing.append((ci, [c["argvs"][j]], False))
    phases["specir"] = round(time.time() - t0, 1)
    t0 = time.time()
    # ---- failures: shrink to the smallest failing subtree, which names the signature ---------------
    report_failures(ctx, cases, failing)
    phases["failures"] = round(time.time() - t0, 1)
    t0 = time.time()

    check_tables(ctx)
    stmt_finish(ctx, sjobs, sresults)
    events_finish(ctx, ejobs, eresults, ereplies, efam)
    flow_finish(ctx, fjobs, fresults, freplies)
    const_finish(ctx, kjobs, kresults)
    check_layout(ctx, ltypes, lresults, lreplies, lsub)
    phases["layout"] = round(time.time() - t0, 1)
    t0 = time.time()
    if thorough:
        validate_spec_with_gcc(ctx, cases, replies, slots)
        phases["gcc"] = round(time.time() - t0, 1)
        t0 = time.time()
    program_differential(ctx)
    phases["programs"] = round(time.time() - t0, 1)
    ctx.extra_cov["phase_seconds"] = phases
    ctx.extra_cov["exhaustive"] = True
    ctx.extra_cov["exhaustive_domain"] = (f"{len(singles)} single-operator programs: 18 binary operators x 10 x 10 BasicTypes, 4 unary x 11, "
                                          "casts 11 x 11, ?: 10 x 10 branch types + 11 condition types (typing and emitted code); "
                                          "operand VALUES, nested expressions and layouts are sampled")


def wrap_naive(c, args):
    """value of the expression computed with unbounded Python integers and no conversions (only for the
    'non-trivial' statistic: a case is non-trivial when C's value differs from this)"""
    def ev(e):
        k = e[0]
        if k == "V":
            return args[e[2]]
        if k == "L":
            return e[3]
        if k == "C":
            return e[1]
        if k == "Z":
            return e[2]
        if k == "K":
            return ev(e[2])
        if k == "U":
            x = ev(e[2])
            return {"neg": -x, "bnot": ~x, "lnot": int(x == 0), "plus": x}[e[1]]
        if k == "Q":
            return ev(e[2]) if ev(e[1]) else ev(e[3])
        a, b = ev(e[2]), ev(e[3])
        op = e[1]
        if a is None or b is None or (op in ("shl", "shr") and not 0 <= b < 128) or (op in ("div", "mod") and b == 0):
            raise ArithmeticError
        try:
            return {"add": lambda: a + b, "sub": lambda: a - b, "mul": lambda: a * b, "div": lambda: a // b,
                    "mod": lambda: a % b, "shl": lambda: a << b, "shr": lambda: a >> b, "band": lambda: a & b,
                    "bor": lambda: a | b, "bxor": lambda: a ^ b, "lt": lambda: int(a < b), "gt": lambda: int(a > b),
                    "le": lambda: int(a <= b), "ge": lambda: int(a >= b), "eq": lambda: int(a == b),
                    "ne": lambda: int(a != b), "land": lambda: int(bool(a) and bool(b)),
                    "lor": lambda: int(bool(a) or bool(b))}[op]()
        except Exception:  # noqa
            return None
    try:
        return ev(c["tree"])
    except Exception:  # noqa
        return None


def ast_type(s):
    """type tag at the root of a canonical typed-AST string, looking through the implicit cast `on_return` adds"""
    w = s.replace("(", " ").split()
    if w and w[0] == "icast" and len(w) > 1 and w[1] == "llong":
        inner = s[len("(icast llong "):-1]
        return type_tag(inner)
    return type_tag(s)


def type_tag(s):
    w = s.replace("(", " ").replace(")", " ").split()
    if not w:
        return "?"
    if w[0] in ("un", "bin"):
        return w[2]
    return w[1] if len(w) > 1 else "?"


def decl_text(c):
    return ", ".join(f"{L.CNAME[t]} v{i}" for i, t in enumerate(c["params"])) or "no variables"


_type_cache = {}


def root_operand_types(tree, replies=None, reqs=None):
    """C types of the operands of the root operator (for the failure signature): variables give their type,
    anything else is reported as 'expr'"""
    out = []
    for x in tree[1:]:
        if isinstance(x, tuple):
            out.append(x[1] if x[0] == "V" else "expr")
    return out or ["leaf"]


def subtrees_postorder(e):
    for x in e[1:]:
        if isinstance(x, tuple):
            yield from subtrees_postorder(x)
    yield e


def evaluate_trees(ctx, trees, params, argvs, spec_ir=False):
    """compile each tree as its own function with the REAL front-end, run it, and ask the driver for C's type/value.
    -> [{"tree", "c", "real_ty", "ast", "stype", "rows": [(args, got, want|None)], "error"}], irtext"""
    src = "\n".join(L.func_text(f"f{k}", "llong", params, t) for k, t in enumerate(trees)) + "\n"
    job = {"src": src, "funcs": [(f"f{k}", argvs) for k in range(len(trees))], "spec_ir": spec_ir, "native": False}
    res = L.run_unit(job)
    reqs = []
    for t in trees:
        p = L.proto(t)
        reqs.append(f"stype {p}")
        for args in argvs:
            reqs.append("seval [" + ",".join(str(a) for a in args) + f"] {p}")
    rep = ctx.driver("C01", reqs)
    out = []
    n = 1 + len(argvs)
    for k, t in enumerate(trees):
        row = {"tree": t, "c": L.render_c(t), "stype": rep[k * n][3:], "rows": [], "error": None, "name": f"f{k}"}
        if res["status"] != "ok":
            row["error"] = res["status"] + ": " + res["msg"]
            out.append(row)
            continue
        obs = res["funcs"][f"f{k}"]
        row["ast"] = obs.get("ast", "")
        row["real_ty"] = ast_type(row["ast"])
        vals = obs.get("vals") or []
        for j, args in enumerate(argvs):
            sv = rep[k * n + 1 + j][3:]
            want = None if sv == "none" else L.wrap("llong", int(sv))
            row["rows"].append((args, vals[j] if j < len(vals) else "missing", want))
        out.append(row)
    return out, res.get("irtext")


def smallest_failing(ctx, case, argvs):
    """the smallest subtree of the case whose typing or value (on one of argvs) is wrong on the real code"""
    seen, trees = set(), []
    for t in subtrees_postorder(case["tree"]):
        if t not in seen:
            seen.add(t)
            trees.append(t)
    trees.sort(key=L.size)
    rows, _ = evaluate_trees(ctx, trees, case["params"], argvs)
    if any(r["error"] for r in rows):
        # a subtree alone may not compile together with the others: evaluate one by one
        rows = []
        for t in trees:
            rows += evaluate_trees(ctx, [t], case["params"], argvs)[0]
    for r in rows:
        if r["error"]:
            continue
        if r["real_ty"] != L.MODEL_OF_SPEC.get(r["stype"], r["stype"]) and r["stype"] != "none":
            return r, "type"
        for args, got, want in r["rows"]:
            if want is not None and got != want:
                return r, ("value", args, got, want)
    return None, None


def leaf_kind(x):
    return type_class(x[1]) if x[0] == "V" else {"L": "literal", "C": "charconst", "Z": "sizeof"}.get(x[0], "expr")


def child_types(ctx, tree):
    """failure-signature part: the operand classes of the root operator (variables: their type class; constants by
    kind; nested operands: the class of their C type, asked from the specification)"""
    kids = [x for x in tree[1:] if isinstance(x, tuple)]
    if not kids:
        return ["leaf"]
    if all(k[0] in "VLCZ" for k in kids):
        return [leaf_kind(k) for k in kids]
    rep = ctx.driver("C01", [f"stype {L.proto(k)}" for k in kids])
    return [leaf_kind(k) if k[0] in "VLCZ" else type_class(r[3:]) for k, r in zip(kids, rep)]


def is_minimal(tree):
    return all(x[0] in "VLCZ" for x in tree[1:] if isinstance(x, tuple))


def report_failures(ctx, cases, failing, limit=8):
    """failing: [(case index, [argument vectors with a wrong value], type is wrong)]"""
    n_shrunk = [0]
    for n, (i, bad_args, type_bad) in enumerate(failing):
        c = cases[i]
        text = L.render_c(c["tree"])
        info = {"label": c["label"], "c": text, "params": c["params"], "args": bad_args[:2]}
        if c["kind"] == "sizeof":
            # these programs exist to expose exactly one thing: the type ppci gives `sizeof` (open finding)
            ctx.fail("ctype:sizeof:signed", f"`{text}` with {decl_text(c)}: " +
                     ("ppci types it differently from C" if type_bad else f"wrong value for args {bad_args[:1]}") +
                     " because `sizeof` has a signed type", info)
            continue
        if is_minimal(c["tree"]):
            # a single operator on variables / constants: nothing to shrink, the signature names operator and operand classes
            kinds = ":".join(child_types(ctx, c["tree"]))
            if type_bad:
                ctx.fail(f"ctype:{op_class(c['tree'])}:{kinds}", f"`{text}` with {decl_text(c)} has a different type in C "
                         f"than the one ppci gives it (typed AST: {c.get('ast', '')[:200]})", info)
            else:
                ctx.fail(f"cvalue:{op_class(c['tree'])}:{kinds}", f"`{text}` with {decl_text(c)} args={bad_args[:1]}: the emitted IR "
                         "does not compute C's value", info)
            continue
        if n_shrunk[0] >= limit:
            ctx.fail(f"c{'type' if type_bad else 'value'}:{op_class(c['tree'])}:unshrunk",
                     f"`{text}` with {decl_text(c)}: {'wrong type' if type_bad else 'wrong value'} (args {bad_args[:1]}); "
                     f"more than {limit} failing programs, not shrunk", info)
            continue
        argvs = bad_args[:4] or c["argvs"][:2] or [[]]
        n_shrunk[0] += 1
        r, what = smallest_failing(ctx, c, argvs)
        if r is None:
            ctx.fail(f"cvalue:{op_class(c['tree'])}:whole", f"`{text}` with {decl_text(c)} args={bad_args[:1]}: the emitted IR does not "
                     "compute C's value (no subtree fails alone)", info)
            continue
        sub = r["tree"]
        kinds = ":".join(child_types(ctx, sub))
        if what == "type":
            sig = "ctype:sizeof:signed" if sub[0] == "Z" else f"ctype:{op_class(sub)}:{kinds}"
            ctx.fail(sig, f"`{r['c']}` with {decl_text(c)} has type {r['stype']} in C, ppci gives it {r['real_ty']}"
                     + (f" (smallest failing part of `{text}`)" if sub != c["tree"] else ""),
                     {"label": c["label"], "c": r["c"], "params": c["params"], "within": text}, impl=r["ast"], spec=r["stype"])
        else:
            _, args, g, w = what
            # is it the executor? run the same function by the Spec.IR reference interpreter
            rows2, irtext = evaluate_trees(ctx, [sub], c["params"], [args], spec_ir=True)
            verdict = ""
            if irtext:
                rep = ctx.driver("IR", ["config ptr 8", "load " + irtext, "wf",
                                        "run f0 100000 " + " ".join(str(a) for a in args)])
                sv = L.parse_ret(rep[3][3:]) if rep[3].startswith("ok ret=") else rep[3]
                if sv == w:
                    ctx.note(f"ir_to_python computes {g} for `{r['c']}` args={args} but Spec.IR computes C's value {w}: "
                             "executor (C24) difference, not a front-end defect")
                    continue
                verdict = f"; Spec.IR run: {sv}"
            ctx.fail(f"cvalue:{op_class(sub)}:{kinds}",
                     f"`{r['c']}` with {decl_text(c)} args={args}: emitted IR computes {g}, C gives {w}{verdict}",
                     {"label": c["label"], "c": r["c"], "params": c["params"], "args": args, "within": text}, impl=g, spec=w)


# ----------------------------------------------------------------------------------------------
def check_tables(ctx):
    """the property on the live type tables of every target: the IR type of an integer C type has its width and signedness;
    `sizeof` has an unsigned type as wide as `size_t_type`"""
    from ppci.lang.c.nodes.types import BasicType
    irinfo = {"i8": (8, True), "i16": (16, True), "i32": (32, True), "i64": (64, True),
              "u8": (8, False), "u16": (16, False), "u32": (32, False), "u64": (64, False)}
    for name, st, types, ps, pa, szof, szt in arch_rows():
        if st != "ok":
            ctx.count("arch_unbuildable")
            continue
        sizes = {}
        for tid, size, align, irty in types:
            sizes[tid] = size
            if tid not in INT_IDS:
                continue
            ctx.count("eval_irtype")
            bits, sg = irinfo.get(irty, (None, None))
            want_signed = tid in BasicType.SIGNED_INTEGER_TYPES
            if bits != 8 * size or sg != want_signed:
                ctx.fail(f"cirtype:{name}:{tid}",
                         f"on {name} the C type `{tid}` ({size} bytes, {'signed' if want_signed else 'unsigned'}) is lowered to IR type {irty}",
                         {"arch": name, "type": tid}, impl=irty)
        ctx.count("eval_sizeof_type")
        if szof in BasicType.SIGNED_INTEGER_TYPES or sizes.get(szof) != sizes.get(szt):
            ctx.fail("ctype:sizeof:signed", f"on {name} a sizeof expression has type `{szof}` (size_t is an unsigned type, 6.5.3.4p5)",
                     {"arch": name}, impl=szof)


# ----------------------------------------------------------------------------------------------
LAYOUT_CORPUS = [
    ("S", [("P", "int"), ("P", "char")]),                                  # size 8 (was 5)
    ("S", [("P", "char"), ("P", "int")]),
    ("S", [("P", "char"), ("P", "double"), ("P", "char")]),               # 24
    ("N", [("A", 5, ("P", "char")), ("P", "int")]),                        # union: 8 (was 5)
    ("S", [("P", "char"), ("S", [("P", "int"), ("P", "char")]), ("P", "char")]),      # nested struct aligned by ITS alignment
    ("S", [("P", "short"), ("A", 3, ("S", [("P", "char"), ("P", "short")])), ("P", "char")]),
    ("S", [("A", 3, ("P", "char")), ("P", "short")]),
    ("S", [("P", "ptr"), ("P", "char")]),
    ("S", [("N", [("P", "char"), ("P", "long")]), ("P", "short")]),
    ("S", [("P", "char")]),
    ("N", [("P", "short"), ("A", 3, ("P", "char"))]),                      # union 4
    ("S", [("P", "llong"), ("P", "float"), ("P", "ushort"), ("P", "uchar")]),
    ("A", 3, ("S", [("P", "int"), ("P", "char")])),                        # array of padded structs: 24
    ("S", [("S", [("P", "char")]), ("S", [("P", "short")]), ("S", [("P", "int")]), ("S", [("P", "long")])]),
]


def layout_prepare(ctx):
    """-> (types, jobs for the front-end pool, driver requests)"""
    rng = ctx.rng
    types = list(LAYOUT_CORPUS)
    for _ in range(800 if ctx.thorough else 130):
        types.append(L.gen_lty(rng, rng.choice([1, 2, 2, 3])))
    per = LAYOUT_PER
    jobs = []
    for k in range(0, len(types), per):
        src, _, inits = L.layout_source(types[k:k + per], with_inits=True)
        jobs.append({"kind": "layout", "src": src, "n": len(types[k:k + per]), "inits": inits})
    reqs = []
    for t in types:
        p = L.lty_proto(t)
        reqs += [f"mlayout {p}", f"slayout {p}"]
    subs = {}
    for t in types:
        if L.int_only(t):
            L.subtypes(t, subs)
    sub_keys = sorted(subs)
    reqs += [f"slayout {k}" for k in sub_keys]
    return types, jobs, reqs, sub_keys


LAYOUT_PER = 50


def check_layout(ctx, types, results, rep, sub_keys):
    per = LAYOUT_PER
    info = {}
    for k, r in zip(sub_keys, rep[2 * len(types):]):
        a, b2, c2 = r[3:].split(" ", 2)
        info[k] = (int(a), int(b2), [int(x) for x in c2.strip("[]").split(",") if x])
    gcc_rows = None
    if ctx.thorough:
        gcc_rows, err = L.gcc_layout(types)
        if gcc_rows is None:
            raise common.BrokenCheck("gcc failed on the layout program: " + err)
    for i, t in enumerate(types):
        res = results[i // per]
        ctx.count("eval_layout")
        case = {"type": L.lty_proto(t), "c": L.layout_source([t])[0]}
        if res["status"] != "ok":
            ctx.fail("clayout:compile:" + res["status"], f"declarations do not compile: {res['msg']}", case)
            continue
        row = res["rows"][i % per]
        if "error" in row:
            ctx.fail("clayout:raises", f"CContext raised {row['error']}", case)
            continue
        impl = f"{row['size']} {row['align']} [{','.join(str(o) for o in row['offsets'])}]"
        model = rep[2 * i][3:]
        spec = rep[2 * i + 1][3:]
        if impl != model:
            ctx.disagree("layout", case, impl, model)
        s_size, s_align, s_offs = spec.split(" ", 2)
        kind = {"S": "struct", "N": "union", "A": "array", "P": "scalar"}[t[0]]
        if str(row["align"]) != s_align:
            ctx.fail(f"clayout:align:{kind}", f"alignment {row['align']}, System V gives {s_align}", case, impl=impl, spec=spec)
        if f"[{','.join(str(o) for o in row['offsets'])}]" != s_offs:
            ctx.fail(f"clayout:offset:{kind}", f"member offsets {row['offsets']}, System V gives {s_offs}", case, impl=impl, spec=spec)
        if str(row["size"]) != s_size:
            ctx.fail(f"clayout:size:{kind}", f"sizeof = {row['size']}, System V gives {s_size} (size is a multiple of the alignment)",
                     case, impl=impl, spec=spec)
        else:
            if t[0] in "SN" and int(s_size) != sum_sizes(t):
                ctx.nontrivial(("layout", L.lty_proto(t)))
        # what reaches the IR: the global object's size and alignment, and the sizeof constant
        if row["var_amount"] is not None and (str(row["var_amount"]) != s_size or str(row["var_align"]) != s_align):
            ctx.fail(f"clayout:irvar:{kind}", f"ir.Variable has amount {row['var_amount']} alignment {row['var_align']}, "
                     f"System V gives {s_size}/{s_align}", case)
        if row["sizeof_const"] is not None and str(row["sizeof_const"]) != s_size:
            ctx.fail(f"clayout:sizeof-const:{kind}", f"sizeof(g) is lowered to the constant {row['sizeof_const']}, System V gives {s_size}", case)
        # global memory contents: the image of an initialised object (scalars at the System V offsets, zero padding)
        if row.get("image") is not None and L.int_only(t):
            ctx.count("eval_init_image")
            want = L.expected_image(t, info).hex()
            if row["image"] != want:
                ctx.fail(f"clayout:init-image:{kind}", f"initialised global has the bytes {row['image']}, the System V layout gives {want}",
                         case, impl=row["image"], spec=want)
        if gcc_rows is not None:
            g = gcc_rows[i]
            gs = f"{g[0]} {g[1]} [{','.join(str(o) for o in g[2])}]"
            ctx.count("eval_gcc_layout")
            if gs != spec:
                raise common.BrokenCheck(f"Spec.CLayout disagrees with gcc on {case['c']}: spec {spec}, gcc {gs}")
    ctx.sample({"layout": L.lty_proto(types[4]), "impl": results[0]["rows"][4] if results[0]["status"] == "ok" else results[0]["msg"],
                "spec": rep[9]})


def sum_sizes(t):
    """sum of the scalar sizes (a layout is non-trivial when padding exists, i.e. size differs from this sum)"""
    k = t[0]
    if k == "P":
        return {"char": 1, "uchar": 1, "short": 2, "ushort": 2, "int": 4, "uint": 4, "float": 4}.get(t[1], 8)
    if k == "A":
        return t[1] * sum_sizes(t[2])
    if k == "S":
        return sum(sum_sizes(x) for x in t[1])
    return max([sum_sizes(x) for x in t[1]] or [0])


# ----------------------------------------------------------------------------------------------
def validate_spec_with_gcc(ctx, cases, replies, slots):
    """thorough tier: gcc 12 (-fsanitize=undefined) as the oracle of Spec.CExpr on the generated expressions:
    same type (via _Generic), same value wherever the specification defines one, and the sanitizer reports no
    undefined behaviour there.  A disagreement means the SPECIFICATION is wrong: broken check, never a verdict."""
    pool = [(i, c) for i, c in enumerate(cases) if replies[slots[i]][3:] != "none"]
    ctx.rng.shuffle(pool)
    chosen = [x for x in pool if x[1]["kind"] == "corpus"] + [x for x in pool if x[1]["kind"] == "single"][:700] + \
             [x for x in pool if x[1]["kind"] == "random"][:900]
    per = 150
    for k in range(0, len(chosen), per):
        chunk = chosen[k:k + per]
        gc, keep = [], []
        for i, c in chunk:
            # only the argument vectors for which the specification defines a value are executed (an undefined
            # division would trap and take the rest of the program's output with it)
            js = [j for j in range(min(6, len(c["argvs"]))) if replies[slots[i] + 3 + 2 * j][3:] != "none"]
            keep.append(js)
            gc.append(("llong", c["params"], c["tree"], [c["argvs"][j] for j in js]))
        out, err = L.gcc_values(gc)
        if out is None:
            raise common.BrokenCheck("gcc rejected the generated program: " + err)
        for (i, c), js, (tname, vals) in zip(chunk, keep, out):
            stype = replies[slots[i]][3:]
            ctx.count("eval_gcc_type")
            if tname != stype:
                raise common.BrokenCheck(f"Spec.CExpr.typeOf disagrees with gcc on `{L.render_c(c['tree'])}` ({decl_text(c)}): "
                                         f"spec {stype}, gcc {tname}")
            for j, gv in zip(js, vals):
                sv = replies[slots[i] + 3 + 2 * j][3:]
                ctx.count("eval_gcc_value")
                want = L.wrap("llong", int(sv))
                if gv == "UB":
                    raise common.BrokenCheck(f"Spec.CExpr defines `{L.render_c(c['tree'])}` args={c['argvs'][j]} = {sv} but gcc's "
                                             "sanitizer reports undefined behaviour")
                if gv != want:
                    raise common.BrokenCheck(f"Spec.CExpr.eval disagrees with gcc on `{L.render_c(c['tree'])}` ({decl_text(c)}) "
                                             f"args={c['argvs'][j]}: spec {want}, gcc {gv}")


def search(ctx):
    """Props no longer build (a dumped table changed, a theorem about the regenerated tables is false): the driver does
    not depend on Gen/Props, so the failing-input search is the ordinary check with the specification as oracle."""
    ok, _log = ctx.lake_build(["Drivers.C01", "Drivers.IR"])
    if ok:
        check(ctx)
    else:
        ctx.note("driver does not build either: no failing-input search possible")


def replay(ctx, rp):
    check(ctx)


# ----------------------------------------------------------------------------------------------
STMT_KS = [0, 3, 4000000000, 7, 1, 65535, 12345678, 4294967295]


def stmt_prepare(ctx):
    """assignment operators and ++/-- on lvalues with side effects (see harness/c01_stmt.py): jobs for the front-end pool"""
    g = ST.Gen(ctx.rng)
    fs = ST.corpus_functions() + [g.function() for _ in range(160 if ctx.thorough else 10)]
    nk = 6 if ctx.thorough else 2
    jobs = []
    per = 26
    for k in range(0, len(fs), per):
        chunk = fs[k:k + per]
        names = [f"s{k + j}" for j in range(len(chunk))]
        src = ST.PRELUDE + "\n".join(ST.c_function(n, f) for n, f in zip(names, chunk)) + "\n"
        ks = {n: [STMT_KS[0]] + ctx.rng.sample(STMT_KS[1:], nk - 1) for n in names}
        jobs.append({"kind": "stmt", "src": src, "names": names, "ks": ks, "fs": chunk})
    return jobs


def events_prepare(ctx):
    """every assignment operator and ++/-- on every lvalue form: order and multiplicity of loads, stores and calls"""
    fam = ST.family(ctx.thorough)
    jobs, per = [], 120
    for k in range(0, len(fam), per):
        names = [f"e{k + j}" for j in range(len(fam[k:k + per]))]
        src = ST.EV_PRELUDE + "\n".join(ST.family_function(n, st) for n, (_, st) in zip(names, fam[k:k + per])) + "\n"
        jobs.append({"kind": "events", "src": src, "names": names})
    return jobs, ["events " + ST.ev_stmt(st) for _, st in fam], fam


def events_finish(ctx, jobs, results, replies, fam):
    k = 0
    for job, res in zip(jobs, results):
        for n in job["names"]:
            label, st = fam[k]
            model = replies[k][3:]
            k += 1
            text = ST.c_stmts([st], "")[0]
            ctx.count("eval_assign_events")
            if "error" in res:
                ctx.fail("cassign:compile:" + res["error"].split(":")[0], f"`{text}` does not compile: {res['error']}", {"c": text})
                continue
            real = res["events"].get(n, "(missing)")
            if real != model:
                ctx.disagree("assignment-events", {"label": label, "c": text}, real, model)
            # the property on the real code: calls and stores written once are emitted once
            want_ext, want_gets, want_st = ST.written_effects(st)
            w = real.split()
            got = (w.count("call0"), w.count("call1"), sum(1 for x in w if x.startswith("st")))
            if got != (want_ext, want_gets, want_st):
                ctx.fail(f"cassign:multiplicity:{label.split(' ')[0]}",
                         f"`{text}` writes {want_ext} call(s) of ext, {want_gets} of gets and {want_st} store(s); the emitted code has "
                         f"{got[0]}, {got[1]} and {got[2]}: events `{real}` (model: `{model}`)", {"label": label, "c": text})
            elif len(w) > 3:
                ctx.nontrivial(("assign-events", label))


def const_prepare(ctx):
    """constant expressions over 64-bit operands in global initialisers, static locals, case labels, array sizes and
    enumerators (harness/c01_const.py); the constant evaluator's theorem is C27's, its effect on the program is searched here"""
    jobs = []
    for _ in range(6 if ctx.thorough else 1):
        for arrays in (False, True):
            src, checks = KC.build(ctx.rng, (60 if ctx.thorough else 30) if not arrays else 15, arrays=arrays)
            jobs.append({"kind": "const", "src": src, "checks": checks, "calls": [(c[1], c[2]) for c in checks if c[0] == "call"]})
    return jobs


def const_finish(ctx, jobs, results):
    for job, res in zip(jobs, results):
        if "error" in res:
            ctx.fail("cconst:compile:" + res["error"].split(":")[0], f"the front-end does not compile the constant-expression program: "
                     f"{res['error']}", {"source": job["src"]})
            continue
        gcc = None
        if ctx.thorough:
            gcc, err = KC.run_gcc(job["src"], job["checks"])
            if gcc is None:
                raise common.BrokenCheck("gcc rejected the constant-expression program: " + err)
        cr = {(n, tuple(a)): r for n, a, r in res["calls"]}
        if "ir2py_error" in res and cr:
            ctx.fail("cconst:not-executable", f"ir_to_python cannot load the compiled constant-expression program: {res['ir2py_error']}",
                     {"source": job["src"]})
        for c in job["checks"]:
            if c[0] == "call" and "ir2py_error" in res:
                continue
            ctx.count("eval_const_" + c[0])
            if c[0] == "global":
                want, got, key = (c[3] & KC.M64).to_bytes(8, "little").hex(), res["globals"].get(c[1]), ("global", c[1])
                gwant = c[3]
                what = f"`{KC.TYPES[c[2]][0]} g = {c[4]};` is initialised with the bytes {got}, C gives {want} (= {c[3]})"
            elif c[0] == "amount":
                want, got, key = c[2], res["amounts"].get(c[1]), ("amount", c[1])
                gwant = c[2]
                what = f"`{c[3]}` has {got} bytes, C gives {want}"
            else:
                want, got, key = c[3], cr.get((c[1], tuple(c[2]))), ("call", c[1], tuple(c[2]))
                gwant = c[3]
                what = f"{c[4]}: {c[1]}({', '.join(str(x) for x in c[2])}) returns {got}, C gives {want}"
            if gcc is not None:
                ctx.count("eval_const_gcc")
                gv = gcc.get(key)
                if c[0] == "global" and gv is not None and gv < 0 <= gwant:
                    gv &= KC.M64
                if gv != gwant:
                    raise common.BrokenCheck(f"the constant-expression reference disagrees with gcc on {key}: gcc {gcc.get(key)}, reference {gwant} ({c[4]})")
            if got != want:
                ctx.fail(f"cconst:{c[0] if c[0] != 'call' else c[1][0]}:{c[5] if c[0] != 'amount' else c[4]}", what, {"check": list(c[:5]), "source": job["src"]})
            else:
                ctx.nontrivial(("const", c[0], c[1], c[4] if c[0] != "amount" else c[3]))


def flow_prepare(ctx):
    """control flow with code-generator state (nested switch / loops / break / continue / goto): see harness/c01_flow.py"""
    g = FL.Gen(ctx.rng)
    fs = FL.corpus_functions() + [g.function() for _ in range(220 if ctx.thorough else 14)]
    jobs, reqs, per = [], [], 20
    for k in range(0, len(fs), per):
        chunk = fs[k:k + per]
        names = [f"w{k + j}" for j in range(len(chunk))]
        src = FL.PRELUDE + "\n".join(FL.c_function(n, f) for n, f in zip(names, chunk)) + "\n"
        argvs = {n: FL.arg_vectors(f, ctx.rng, 40 if ctx.thorough else 14) for n, f in zip(names, chunk)}
        jobs.append({"kind": "flow", "src": src, "names": names, "argvs": argvs, "fs": chunk, "spec_ir": k == 0})
        reqs += ["switches " + FL.sw_proto_list(f["body"]) for f in chunk]
    return jobs, reqs


def flow_finish(ctx, jobs, results, replies):
    k = 0
    for job, res in zip(jobs, results):
        if "error" in res:
            k += len(job["names"])
            ctx.fail("cflow:compile:" + res["error"].split(":")[0], f"the front-end does not compile a generated program: {res['error']}",
                     {"source": job["src"]})
            continue
        gcc = None
        if ctx.thorough:
            gcc, err = FL.run_gcc(job["src"], job["names"], job["argvs"])
            if gcc is None:
                raise common.BrokenCheck("gcc rejected a generated control-flow program: " + err)
        for n, f in zip(job["names"], job["fs"]):
            text = FL.c_function(n, f)
            model = replies[k][3:]
            k += 1
            # the label bookkeeping: dispatch chains of the real function vs Model.CSwitch (= what the source prescribes)
            ctx.count("eval_switch_structure")
            chains = res["switches"][n]
            real = FL.real_switch_text(chains)
            if real != model:
                ctx.disagree("switch-dispatch", {"function": text}, real, model)
                ctx.fail("cflow:switch-labels", f"{n}: the switches of the emitted function dispatch on `{real}` (constants in order | D = has a "
                         f"default target), the source prescribes `{model}`", {"function": text}, impl=real, spec=model)
            for i, why in FL.default_targets_ok(chains):
                ctx.fail("cflow:switch-default-target", f"{n}: the default jump of switch #{i} goes to a block {why} of its own body",
                         {"function": text})
            for j, args in enumerate(job["argvs"][n]):
                ctx.count("eval_flow")
                want = FL.run_reference(f, args[0], args[1])
                if gcc is not None:
                    ctx.count("eval_flow_gcc")
                    if gcc[n][j] != want:
                        raise common.BrokenCheck(f"the reference evaluator disagrees with gcc on {n}({args[0]}, {args[1]}): gcc "
                                                 f"`{gcc[n][j]}`, evaluator `{want}`\n{text}")
                got = res["rows"][n][j]
                if got != want:
                    ctx.fail("cflow:differs:" + stmt_diff(got, want),
                             f"{n}({args[0]}, {args[1]}): ppci front-end + ir_to_python gives `{got[:240]}`, C gives `{want[:240]}`",
                             {"function": text, "args": args}, impl=got, spec=want)
                else:
                    ctx.nontrivial(("flow", text, tuple(args)))


def stmt_diff(got, want):
    """which observable differs first: ret | globals | trace"""
    gw, ww = got.split(" "), want.split(" ")
    for a, b2 in zip(gw, ww):
        if a != b2:
            return a.split("=", 1)[0] if "=" in a else "shape"
    return "shape"


def stmt_finish(ctx, jobs, results):
    for job, res in zip(jobs, results):
        if "error" in res:
            ctx.fail("cstmt:compile:" + res["error"].split(":")[0], f"the front-end does not compile a generated program: {res['error']}",
                     {"source": job["src"]})
            continue
        gcc = None
        if ctx.thorough:
            out, err = ST.run_gcc(job["src"], job["names"], job["ks"])
            if out is None:
                raise common.BrokenCheck("gcc rejected a generated statement-level program: " + err)
            gcc, gorder = out
        for n, f in zip(job["names"], job["fs"]):
            text = ST.c_function(n, f)
            # static: every call written once in the source is emitted exactly once
            ctx.count("eval_stmt_static")
            c = res["calls"][n]
            for callee, want_n in (("ext", f["ncalls"]), ("gets", f["ngets"])):
                if c.get(callee, 0) != want_n:
                    ctx.fail(f"cstmt:call-emitted-{c.get(callee, 0)}-times:{callee}",
                             f"{n}: the source calls {callee} at {want_n} place(s), the emitted function contains {c.get(callee, 0)} call "
                             "instruction(s): an operand with a side effect is evaluated more than once (or dropped)", {"function": text})
            for j, k in enumerate(job["ks"][n]):
                ctx.count("eval_stmt")
                want = ST.expected(f, k, res["order"])
                if gcc is not None:
                    ctx.count("eval_stmt_gcc")
                    gw = ST.expected(f, k, gorder)
                    if gcc[n][j] != gw:
                        raise common.BrokenCheck(f"the reference evaluator disagrees with gcc on {n}({k}u): gcc `{gcc[n][j]}`, "
                                                 f"evaluator `{gw}`\n{text}")
                got = res["rows"][n][j]
                if got != want:
                    ctx.fail("cstmt:differs:" + stmt_diff(got, want),
                             f"{n}({k}u): ppci front-end + ir_to_python gives `{got[:240]}`, C gives `{want[:240]}`",
                             {"function": text, "k": k}, impl=got, spec=want)
                elif "trace=-" not in want:
                    ctx.nontrivial(("stmt", text, k))


# ----------------------------------------------------------------------------------------------
def program_differential(ctx):
    """NOT covered by any theorem (statements, control flow, arrays, structs, pointers, calls, assignment operators, the
    global memory image): random UB-free functions compiled by the real front-end and run by ir_to_python are compared
    with the same functions compiled by gcc (-fsanitize=undefined) on random arguments.  Failing-input search only."""
    rng = ctx.rng
    nprog = 100 if ctx.thorough else 6
    per = 10
    for k in range(0, nprog, per):
        src, funcs = L.gen_programs(rng, min(per, nprog - k))
        argvs = {name: L.gen_args(rng, [L.PARAM_TAG[t] for t in pts], 8 if ctx.thorough else 4) for name, pts in funcs}
        ours = L.run_programs_ppci(src, funcs, argvs)
        theirs, err = L.run_programs_gcc(src, funcs, argvs)
        if theirs is None:
            raise common.BrokenCheck("gcc rejected a generated program: " + err)
        if "error" in ours:
            ctx.count("program_compile_error")
            ctx.fail("cprogram:compile:" + ours["error"].split(":")[0], f"the front-end does not compile a generated program: {ours['error']}",
                     {"source": src})
            continue
        for name, pts in funcs:
            for j, args in enumerate(argvs[name]):
                g = theirs[name][j]
                if g is None or g == "UB":
                    ctx.count("program_skipped_ub")
                    continue
                ctx.count("eval_program")
                want_ret, want_g = g.split()
                o = ours[name][j]
                ow = o.split()
                got_ret = ow[0] if ow else o
                got_g = next((w for w in ow if w.startswith("globals=")), "globals=")
                ok = got_ret == want_ret and got_g == "globals=g=" + want_g[2:]
                if not ok:
                    ctx.fail("cprogram:differs", f"{name}({', '.join(str(a) for a in args)}): ppci front-end + ir_to_python gives `{o[:120]}`, "
                             f"gcc gives `{g}`", {"function": name, "args": args, "source": src})
