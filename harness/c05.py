"""C05 — cross-target machine code preserves IR behaviour (PARTIAL: slivers + failing-input search).

Theorems (lean/PpciVerif/Props/C05.lean), each tied to /repo by a differential run on every check:
  * Frame.alloc (both frame-pointer conventions): slots disjoint / aligned / inside the frame
  * riscv constant materialisation: Li and the two rvc CONSTI32 patterns leave v mod 2^32 in rd (Spec.RV32)
  * determine_arg_locations of arm / riscv: locations pairwise distinct
  * PeepHoleStream is the identity on streams without effect()-bearing instructions (every target but x86-64)
  * register conventions of riscv / arm: regen() dumps callee_save, call clobbers, argument/return and allocatable registers of the live
    arch objects into Gen/RVABI.lean, Gen/ARMABI.lean; `decide` theorems (no allocatable register is preserved by nobody, callee_save = psABI)
  * riscv prologue/epilogue stack discipline (stack machine); real lists decoded and run in Spec.RV32 around an adversarial body
Always-on failing-input search (NO theorem):
  * riscv / riscv:rvc: generated IR modules (and C front-end output) are compiled and linked by ppci, the image is
    executed by Spec.RV32 (Lean, driver C05 `rv*` operations) and compared with Spec.IR (driver IR, ptr size 4)
  * x86_64: generated IR modules executed natively (ppci.utils.codepage, forked child) and compared with Spec.IR
  * arm, thumb, mips, m68k, …: nothing executable exists in the sandbox; only compiled (peephole / Frame.alloc capture)
"""
import io

from . import common, cgslivers

PROP = "C05"
LEAN_PROPS = "PpciVerif/Props/C05.lean"
LEAN_TARGETS = ["PpciVerif.Props.C05", "Drivers.C05", "Drivers.IR"]
LEVEL = "proof"
LEVEL_TEXT = (
    "PARTIAL. End-to-end correctness of generated machine code is NOT proved for any target (no machine semantics of ARM, Thumb, "
    "m68k, MIPS, x86-64 exists here; instruction selection is not modelled). Exactly these slivers are Lean theorems, for all "
    "inputs: (1) Frame.alloc, frame pointer at the top and at the bottom: for every allocation history with positive sizes and "
    "alignments every call returns a slot of the requested size at a multiple of the requested alignment, slots are pairwise "
    "disjoint and inside the frame, the frame alignment dominates every requested one; (2) riscv constants: for every integer v, "
    "(hi<<12)+signext12(lo) = v (mod 2^32), and executing what Li renders to (addi / lui;addi), c.li, and c.lui;addi under the rvc "
    "pattern's condition with Spec.RV32.step leaves v mod 2^32 in rd, changes no other register and no memory; the rvc condition "
    "holds exactly when the upper part fits c.lui's signed non-zero 6-bit field; (3) determine_arg_locations of ARM/Thumb and "
    "RISC-V (with and without rvf): for every signature no two arguments share a register or a stack byte; (4) PeepHoleStream "
    "returns every stream without effect()-bearing instructions unchanged (all targets but x86-64); (5) riscv prologue/epilogue "
    "stack discipline: for every frame size, outgoing-argument area and list of saved callee-saved registers, and every body that "
    "keeps sp and the save area (it may clobber every other register and all other memory), epilogue after body after prologue "
    "restores sp, ra, fp and every saved register - on a word-granular stack machine over the modelled instruction lists; the real "
    "gen_prologue/gen_epilogue byte strings are decoded against the model and executed by Spec.RV32 around an adversarial body on "
    "every run; (6) register conventions, as tables regenerated from the live riscv / riscv:rvc / riscv:rvf / arm / arm:thumb "
    "architecture objects on every run and checked by `decide`: every allocatable register is either clobbered by the emitted call "
    "instruction or in callee_save (arm: or the frame pointer), riscv callee_save is exactly the psABI set s0-s11 within the "
    "allocatable registers, argument and return registers are a0-a7 and declared clobbered. Cited, proved under other "
    "properties: register allocation validated per frame on each target (C06), riscv/arm/thumb encodings, fields and relocations "
    "(C08, C10, C11), linker layout (C12). Everything else is covered only by a failing-input search that proves nothing: riscv "
    "and riscv:rvc images of generated IR functions executed in the Lean RV32 interpreter, and x86-64 code executed natively, "
    "both compared with the reference IR semantics Spec.IR. ARM, Thumb, m68k, MIPS execution: not covered at all. OPEN FINDING "
    "(reproduced on every run by a static check of the selected instruction lists on ten targets): the mips back end emits nothing "
    "for a conditional jump (pattern_cjmp is a stub and the mips ISA defines no conditional branch instruction), so every mips "
    "function with a branch is miscompiled.")
LEVEL_NOTE = (
    "trusted: Lean kernel; axioms propext/Classical.choice/Quot.sound; hand models of Frame.alloc, Li / rvc constant patterns, "
    "determine_arg_locations, PeepHoleStream tied to the source by sampled differential runs (exhaustive for signatures of <= 3 "
    "(thorough 4) arguments); Spec.RV32 and Spec.IR are specifications written from the ISA manual / the IR documentation; the "
    "execution search covers integer-only functions of <= 4 arguments on riscv")
TECHNIQUE = ("Lean 4 proofs over hand models (induction over histories / signatures, modular arithmetic, Spec.RV32 execution) + "
             "differential correspondence with the real functions; failing-input search by executing compiled code in a Lean RV32 "
             "interpreter and natively on x86-64 against the Lean IR reference semantics")
RULE = ("eval_frame_alloc_* = one allocation history (fixed + random: sizes 1..100, alignments 1..32, zero size / zero alignment calls); "
        "eval_riscv_const = one (target option, CONST pattern, value) materialised by the real pattern function and executed in Spec.RV32 "
        "(values: 2^k±2, boundaries of the 6/12/20-bit fields, bit-11 cases, random to 32 bits); eval_arg_locations_* = one signature "
        "(all signatures up to 3 (thorough 4) arguments over the target's scalar types and three blob sizes, random longer ones); "
        "eval_riscv_frame_* = one (used registers, stack size, out_calls) frame: real prologue/epilogue decoded, compared with the model and executed "
        "around the adversarial body; eval_exec_* = one execution of a compiled function compared with Spec.IR (corpus incl. three-level call chains "
        "with 7/8/10-argument callees, i.e. stack-passed arguments, and values live across the calls); non-trivial = history with > 2 calls, signature with > 4 "
        "arguments, every constant, every executed (module, function)")
TRUSTED = [
    "hand models Model.FrameAlloc, Model.RVLi, Model.ArgLoc, Model.Peephole, Model.RVFrame (tied by differential runs on every check)",
    "the frame theorem's machine is a word-granular stack machine (Model.RVFrame.exec), not Spec.RV32; the link to Spec.RV32 is the per-run execution of the real byte strings",
    "Spec.RVABI (register roles of the RISC-V psABI, written from the psABI document); translator regen() in harness/c05.py (dumps live tables into Gen/*.lean)",
    "Spec.RV32 (RV32IMC decode + step, from the ISA manual, validated against llvm-mc by C08) and Spec.IR (reference IR semantics, notes/IR.md)",
    "ppci's own linker and the layout used to build the riscv images (C11/C12 cover it)",
    "harness/irgen.py, harness/irser.py, harness/irrun.py (generator, structural serialiser, native runner)",
]
ASSUMPTIONS = [
    "riscv calling convention as ppci implements it: arguments in x12..x17, result in x10, sp/fp grow down from 0xF000, return to ra",
    "generated IR is UB-free (guards on / % << >>), integer-only, 32-bit arithmetic on riscv; 32/64-bit arithmetic on x86_64 because the x86_64 "
    "selector has no 8/16-bit mul/div/rem/neg patterns (C29 findings) - narrower values go through memory and casts",
    "address-dependent results (globals initialised with addresses) are masked",
]

RV_LAYOUT = ("MEMORY code LOCATION=0x1000 SIZE=0x6000 { SECTION(code) }\n"
             "MEMORY ram LOCATION=0x8000 SIZE=0x4000 { SECTION(data) }\n")


# ---- translation: the register conventions of the live arch objects ---------------------------------------------

def _conv(march):
    """(allocatable, callee_save, clobbers of the real call instruction, argument registers, return register, frame pointer) as numbers"""
    from ppci.api import get_arch
    from ppci import ir
    from ppci.arch.registers import Register
    arch = get_arch(march)
    alloc = sorted({r.num for rc in arch.info.register_classes for r in (rc.registers or []) if rc.name in ("reg", "loreg")})
    callee = [r.num for r in arch.callee_save]
    frame = arch.new_frame("regen", None)
    calls = [i for i in arch.gen_call(frame, "callee", [], None) if getattr(i, "clobbers", None)]
    if len(calls) != 1:
        raise ValueError(f"{march}: gen_call emitted {len(calls)} instructions with clobbers")
    clob = [r.num for r in calls[0].clobbers]
    args = [l.num for l in arch.determine_arg_locations([ir.i32] * 12) if isinstance(l, Register)]
    rv = arch.determine_rv_location(ir.i32).num
    return alloc, callee, clob, args, rv, arch.fp.num


def _gen_text(ns, marches, header):
    def lst(xs):
        return "[" + ", ".join(str(x) for x in xs) + "]"
    out = [f"/-! GENERATED by harness/c05.py:regen from the live ppci architecture objects - do not edit.\n{header} -/", f"namespace Gen.{ns}", ""]
    for march in marches:
        alloc, callee, clob, args, rv, fp = _conv(march)
        n = march.replace(":", "_")
        out += [f"/-- `{march}`: registers of the allocatable integer classes -/", f"def {n}_allocatable : List Nat := {lst(alloc)}",
                f"def {n}_calleeSave : List Nat := {lst(callee)}",
                f"/-- `clobbers` of the call instruction that `gen_call` emits -/", f"def {n}_callClobbers : List Nat := {lst(clob)}",
                f"def {n}_argRegs : List Nat := {lst(args)}", f"def {n}_retReg : Nat := {rv}", f"def {n}_fp : Nat := {fp}", ""]
    out.append(f"end Gen.{ns}")
    return "\n".join(out) + "\n"


def regen(ctx):
    for ns, marches, header in (("RVABI", ["riscv", "riscv:rvc", "riscv:rvf"], "RISC-V: `arch.callee_save`, the clobbers of the emitted call, argument/return registers, allocatable registers."),
                                ("ARMABI", ["arm", "arm:thumb"], "ARM / Thumb (ppci's own convention: arguments in R1-R4, result in R0).")):
        text = _gen_text(ns, marches, header)
        path = common.LEAN / "PpciVerif" / "Gen" / f"{ns}.lean"
        if not path.exists() or path.read_text() != text:
            path.write_text(text)


# ---- corpus -----------------------------------------------------------------------------------------

def corpus_modules():
    """hand-made IR modules: the two shapes of the phi-copy defect (fixed in /repo 038896b) and constants"""
    from ppci import ir
    from . import irgen
    out = []

    def fn3(name, build, nparams):
        m = ir.Module(name)
        f = ir.Function("f", ir.Binding.GLOBAL, ir.i32)
        m.add_function(f)
        ps = [ir.Parameter(n, ir.i32) for n in "abn"[:nparams]]
        for p in ps:
            f.add_parameter(p)
        build(f, ps)
        return m
    # (1) swapped loop-header phis live on the exit edge
    def b1(f, ps):
        a, b, n = ps
        e, L, E = ir.Block("entry"), ir.Block("L"), ir.Block("E")
        for blk in (e, L, E):
            f.add_block(blk)
        f.entry = e
        z = ir.Const(0, "z", ir.i32)
        e.add_instruction(z)
        e.add_instruction(ir.Jump(L))
        x, y, c = ir.Phi("x", ir.i32), ir.Phi("y", ir.i32), ir.Phi("c", ir.i32)
        for p in (x, y, c):
            L.add_instruction(p)
        one = ir.Const(1, "one", ir.i32)
        L.add_instruction(one)
        c1 = ir.Binop(c, "+", one, "c1", ir.i32)
        L.add_instruction(c1)
        x.set_incoming(e, a); x.set_incoming(L, y)
        y.set_incoming(e, b); y.set_incoming(L, x)
        c.set_incoming(e, z); c.set_incoming(L, c1)
        L.add_instruction(ir.CJump(c1, "<", n, L, E))
        E.add_instruction(ir.Return(x))
    m = fn3("c05_phi_swap", b1, 3)
    ent = irgen.Entry("f", [ir.i32] * 3, ir.i32, True)
    out.append((irgen.Generated(m, [ent], []), [(ent, [5, 9, k]) for k in (0, 1, 2, 3)]))
    # (2) the condition of the latch reads a header phi
    def b2(f, ps):
        a, n = ps
        e, L, E = ir.Block("entry"), ir.Block("L"), ir.Block("E")
        for blk in (e, L, E):
            f.add_block(blk)
        f.entry = e
        e.add_instruction(ir.Jump(L))
        x = ir.Phi("x", ir.i32)
        L.add_instruction(x)
        one = ir.Const(1, "one", ir.i32)
        L.add_instruction(one)
        x1 = ir.Binop(x, "+", one, "x1", ir.i32)
        L.add_instruction(x1)
        x.set_incoming(e, a); x.set_incoming(L, x1)
        L.add_instruction(ir.CJump(x, "<", n, L, E))
        E.add_instruction(ir.Return(x1))
    m = fn3("c05_phi_cond", b2, 2)
    ent = irgen.Entry("f", [ir.i32] * 2, ir.i32, True)
    out.append((irgen.Generated(m, [ent], []), [(ent, [0, 3]), (ent, [5, 7]), (ent, [2, 0])]))
    # (3) constants through the whole pipeline (the rvc c.lui range defect, fixed in /repo 0edc68d)
    m = ir.Module("c05_consts")
    ents, cases = [], []
    for k, v in enumerate([0x1F900, 0x1F7FF, 0x1FFFF, -0x20801, -1000000, 0x7FFFF800, -2048, 2048, 31, -33, 100000]):
        f = ir.Function(f"k{k}", ir.Binding.GLOBAL, ir.i32)
        m.add_function(f)
        blk = ir.Block(f"k{k}_entry")
        f.add_block(blk)
        f.entry = blk
        p = ir.Parameter("a", ir.i32)
        f.add_parameter(p)
        c = ir.Const(v, "c", ir.i32)
        blk.add_instruction(c)
        r = ir.Binop(p, "+", c, "r", ir.i32)
        blk.add_instruction(r)
        blk.add_instruction(ir.Return(r))
        e = irgen.Entry(f.name, [ir.i32], ir.i32, True)
        ents.append(e)
        cases += [(e, [0]), (e, [7])]
    out.append((irgen.Generated(m, ents, []), cases))
    # (4) an operand that is used again after ~x / -x / a widening cast (riscv computed them in place, fixed in /repo)
    m = ir.Module("c05_inplace")
    ents, cases = [], []

    def unary(name, build):
        f = ir.Function(name, ir.Binding.GLOBAL, ir.i32)
        m.add_function(f)
        blk = ir.Block(name + "_entry")
        f.add_block(blk)
        f.entry = blk
        a = ir.Parameter("a", ir.i32)
        f.add_parameter(a)
        r = build(blk, a)
        blk.add_instruction(ir.Return(r))
        e = irgen.Entry(name, [ir.i32], ir.i32, True)
        ents.append(e)
        for v in (0, 1, 7, -1, 128, 0x80, 0x8000, 40000, -40000, 2147483647):
            cases.append((e, [v]))

    def add(blk, i):
        blk.add_instruction(i)
        return i
    unary("inv_reuse", lambda b, a: add(b, ir.Binop(add(b, ir.Unop("~", a, "u", ir.i32)), "+", a, "r", ir.i32)))
    unary("neg_reuse", lambda b, a: add(b, ir.Binop(add(b, ir.Unop("-", a, "u", ir.i32)), "^", a, "r", ir.i32)))

    def casts(b, a):
        s8 = add(b, ir.Cast(a, "s8", ir.i8))
        x = add(b, ir.Cast(s8, "x", ir.i32))            # sign extension
        u8 = add(b, ir.Cast(s8, "u8", ir.u8))
        y = add(b, ir.Cast(u8, "y", ir.i32))            # zero extension of the same byte
        s16 = add(b, ir.Cast(a, "s16", ir.i16))
        z = add(b, ir.Cast(s16, "z", ir.i32))
        u16 = add(b, ir.Cast(s16, "u16", ir.u16))
        w = add(b, ir.Cast(u16, "w", ir.i32))
        c3 = add(b, ir.Const(3, "c3", ir.i32))
        t1 = add(b, ir.Binop(x, "*", c3, "t1", ir.i32))
        t2 = add(b, ir.Binop(t1, "+", y, "t2", ir.i32))
        t3 = add(b, ir.Binop(t2, "*", c3, "t3", ir.i32))
        t4 = add(b, ir.Binop(t3, "+", z, "t4", ir.i32))
        t5 = add(b, ir.Binop(t4, "*", c3, "t5", ir.i32))
        return add(b, ir.Binop(t5, "+", w, "t6", ir.i32))
    unary("cast_reuse", casts)

    def signcasts(b, a):
        """signed narrow -> unsigned wide keeps the VALUE modulo 2^n, i.e. sign-extends (riscv zero-extended, fixed in /repo)"""
        s8 = add(b, ir.Cast(a, "s8", ir.i8))
        x = add(b, ir.Cast(s8, "x", ir.u32))            # I8TOU32
        s16 = add(b, ir.Cast(a, "s16", ir.i16))
        y = add(b, ir.Cast(s16, "y", ir.u32))           # I16TOU32
        h = add(b, ir.Cast(s8, "h", ir.u16))            # I8TOU16
        z = add(b, ir.Cast(h, "z", ir.u32))             # U16TOU32
        c3 = add(b, ir.Const(3, "c3", ir.u32))
        t1 = add(b, ir.Binop(x, "*", c3, "t1", ir.u32))
        t2 = add(b, ir.Binop(t1, "+", y, "t2", ir.u32))
        t3 = add(b, ir.Binop(t2, "*", c3, "t3", ir.u32))
        t4 = add(b, ir.Binop(t3, "+", z, "t4", ir.u32))
        return add(b, ir.Cast(t4, "r", ir.i32))
    unary("cast_sign", signcasts)
    out.append((irgen.Generated(m, ents, []), cases))
    out.append(ops_module([ir.i32, ir.u32], "c05_ops32"))
    return out


def ops_module(types, name):
    """one function per (type, binary operator / comparison): f(a, b) = a op b on boundary operands (divisor and shift count guarded)"""
    from ppci import ir
    from . import irgen
    m = ir.Module(name)
    ents, cases = [], []
    for t in types:
        lo, hi = irgen.type_range(t)
        vals = [0, 1, 2, 7, 31, hi, hi - 1, lo, lo + 1 if t.signed else 255, (1 << (t.bits - 1)) - 5, 0x12345678 % (hi + 1)]
        if t.signed:
            vals += [-1, -2, -30]
        else:
            vals += [hi - 29, 1 << (t.bits - 1)]
        for op in ["+", "-", "*", "/", "%", "&", "|", "^", "<<", ">>", "<", ">=", "=="]:
            fname = f"op_{t.name}_" + {"+": "add", "-": "sub", "*": "mul", "/": "div", "%": "rem", "&": "and", "|": "or", "^": "xor",
                                       "<<": "shl", ">>": "shr", "<": "lt", ">=": "ge", "==": "eq"}[op]
            f = ir.Function(fname, ir.Binding.GLOBAL, t)
            m.add_function(f)
            blk = ir.Block(fname + "_entry")
            f.add_block(blk)
            f.entry = blk
            a, b = ir.Parameter("a", t), ir.Parameter("b", t)
            f.add_parameter(a)
            f.add_parameter(b)

            def add(i, blk=blk):
                blk.add_instruction(i)
                return i
            if op in ("<", ">=", "=="):
                yes, no = ir.Block(fname + "_yes"), ir.Block(fname + "_no")
                f.add_block(yes)
                f.add_block(no)
                add(ir.CJump(a, op, b, yes, no))
                c1 = ir.Const(1, "c1", t)
                yes.add_instruction(c1)
                yes.add_instruction(ir.Return(c1))
                c0 = ir.Const(0, "c0", t)
                no.add_instruction(c0)
                no.add_instruction(ir.Return(c0))
            else:
                rhs = b
                if op in ("<<", ">>"):
                    rhs = add(ir.Binop(b, "&", add(ir.Const(t.bits - 1, "mask", t)), "cnt", t))
                elif op in ("/", "%"):      # divisor in 1..256: never 0, never -1
                    rhs = add(ir.Binop(add(ir.Binop(b, "&", add(ir.Const(255, "m", t)), "lowb", t)), "+", add(ir.Const(1, "one", t)), "dv", t))
                add(ir.Return(add(ir.Binop(a, op, rhs, "r", t))))
            e = irgen.Entry(fname, [t, t], t, True)
            ents.append(e)
            pairs = [(vals[i], vals[(i * 5 + k) % len(vals)]) for k in (1, 3) for i in range(len(vals))]
            for x, y in pairs[:14]:
                cases.append((e, [x, y]))
    return irgen.Generated(m, ents, []), cases


CHAIN_SRC = """
int gacc[4];
int h8(int a, int b, int c, int d, int e, int f, int g, int h) { gacc[0] = gacc[0] + a + h; return a + 2 * b + 3 * c + 4 * d + 5 * e + 6 * f + 7 * g + 8 * h; }
int h7(int a, int b, int c, int d, int e, int f, int g) { gacc[1] = gacc[1] ^ g; return (a ^ b) + (c ^ d) * 3 + (e ^ f) * 5 + g * 7; }
int h10(int a, int b, int c, int d, int e, int f, int g, int h, int i, int j) { return a - b + c - d + e - f + g - h + i * 3 - j * 5; }
int g2(int x, int y) { int p = x * 3 + 1; int q = y * 5 + 2; int r = x - y; int s = x ^ y; int t = h8(p, q, r, s, x, y, p + q, r + s); int u = h7(t, p, q, r, s, x, y); return t + u + p * q + r * s; }
int g3(int x, int y, int z) { int p = x + y; int q = y + z; int r = z + x; int t = h10(p, q, r, x, y, z, p ^ q, q ^ r, r ^ p, 7); gacc[2] = gacc[2] + t; return t * 3 + p + q * 5 + r * 7 + g2(p, r); }
int tab[16] = { 3, -5, 7, 11, -13, 17, 19, -23, 29, 31, -37, 41, 43, 47, -53, 59 };
int g12(int x) { int a0 = tab[0] + x; int a1 = tab[1] ^ x; int a2 = tab[2] - x; int a3 = tab[3] * x; int a4 = tab[4] + x * 3; int a5 = tab[5] ^ (x + 1);
  int a6 = tab[6] - x * 5; int a7 = tab[7] + x * 7; int a8 = tab[8] ^ (x * 9); int a9 = tab[9] - x * 11; int a10 = tab[10] + x * 13; int a11 = tab[11] ^ (x * 15); int a12 = tab[12] - x * 17;
  int t = h8(a0, a1, a2, a3, a4, a5, a6, a7);
  return t + a0 + a1 * 2 + a2 * 3 + a3 * 4 + a4 * 5 + a5 * 6 + a6 * 7 + a7 * 8 + a8 * 9 + a9 * 10 + a10 * 11 + a11 * 12 + a12 * 13; }
int f12(int x) { int b0 = tab[4] * x; int b1 = tab[5] + x; int b2 = tab[6] ^ x; int b3 = tab[7] - x; int b4 = tab[8] * x + 1; int b5 = tab[9] + x * 2; int b6 = tab[10] ^ (x * 3);
  int b7 = tab[11] - x * 4; int b8 = tab[12] + x * 5; int b9 = tab[13] ^ (x * 6); int b10 = tab[14] - x * 7; int b11 = tab[15] + x * 8; int b12 = tab[0] ^ (x * 9);
  int t = g12(x + 1);
  int u = g12(t & 255);
  return (t ^ u) + b0 + b1 * 3 + b2 * 5 + b3 * 7 + b4 * 9 + b5 * 11 + b6 * 13 + b7 * 15 + b8 * 17 + b9 * 19 + b10 * 21 + b11 * 23 + b12 * 25; }
int f(int a, int b) { int k1 = a * 7 + 3; int k2 = b * 11 + 5; int k3 = a - b; int k4 = a ^ (b * 2); int k5 = a + b; int v = g2(k1, k2); int w = g2(k3, k4); return v + 2 * w + k1 + k2 * 3 + k3 * 5 + k4 * 7 + k5 * 9; }
int f2(int a) { int i; int s = 0; int m = a * 3 + 1; for (i = 0; i < 3; i = i + 1) { s = s + g2(a + i, m) + m * i; m = m + s; } return s + m; }
int f3(int a, int b, int c) { int k1 = a * b; int k2 = b * c; int k3 = c * a; int k4 = a + b + c; int v = g3(a, b, c); int w = g3(k1, k2, k3); int u = g2(v, w); return u + v * 3 + w * 5 + k1 + k2 * 7 + k3 * 9 + k4 * 11; }
"""


def chain_modules(levels):
    """three-level call chains f -> g -> h(7/8/10 scalar arguments: more than the six argument registers of riscv) with values
    kept live across the calls (callee-saved registers in use), from the C front-end, optimised at each level"""
    from ppci import api, ir
    from . import irgen
    out = []
    for lvl in levels:
        m = api.c_to_ir(io.StringIO(CHAIN_SRC), "riscv")
        api.optimize(m, level=lvl)
        m.debug_db = None
        m.name = f"c05_chain_O{lvl}"
        ents = {n: irgen.Entry(n, [ir.i32] * k, ir.i32, True) for n, k in (("f", 2), ("f2", 1), ("f3", 3), ("g2", 2), ("f12", 1), ("g12", 1))}
        cases = [(ents["f"], [1, -1]), (ents["f"], [0, 0]), (ents["f"], [123456, -7]), (ents["f2"], [5]), (ents["f2"], [-9]),
                 (ents["f3"], [1, 2, 3]), (ents["f3"], [-5, 70000, 11]), (ents["g2"], [3, 4]),
                 (ents["f12"], [1]), (ents["f12"], [-77]), (ents["f12"], [123456]), (ents["g12"], [5])]
        out.append((irgen.Generated(m, list(ents.values()), []), cases, f"c-chain-O{lvl}"))
    return out


def cfg_riscv():
    from ppci import ir
    from . import irgen
    wide = [ir.i32, ir.u32]
    # allocas off: irgen initialises them with i64 stores, which the riscv selector does not cover (C29)
    return irgen.GenConfig(int_types=wide, param_types=wide, mem_types=[ir.i8, ir.i16, ir.i32, ir.u8, ir.u16, ir.u32],
                           floats=False, externals=False, total_stmts=28, loop_bound=3, max_params=4, max_funcs=2,
                           copyblob=False, recursion=False, allocas=False)


def cfg_x86():
    from ppci import ir
    from . import irgen
    wide = [ir.i32, ir.i64, ir.u32, ir.u64]
    return irgen.GenConfig(int_types=wide, param_types=wide, mem_types=list(irgen.INT_TYPES), floats=False, total_stmts=40)


# ---- riscv images in the Lean RV32 interpreter ----------------------------------------------------------

def rv_build(module, march):
    from ppci import api
    obj = api.ir_to_object([module], march)
    o2 = api.link([obj], layout=io.StringIO(RV_LAYOUT))
    syms = {s.name: o2.get_symbol_id_value(s.id) for s in o2.symbols if s.defined}
    images = [(img.name, img.address, bytes(img.data)) for img in o2.images]
    return syms, images


def rv_requests(g, cases, syms, images, fuel):
    lines = ["rvreset"]
    for name, addr, data in images:
        if data:
            lines.append(f"rvmem {addr} {data.hex()}")
    ram = [(a, d) for n, a, d in images if n != "code" and d]
    per_case = []
    for e, args in cases:
        start = len(lines)
        for a, d in ram:
            lines.append(f"rvmem {a} {d.hex()}")
        lines.append(f"rvrun {syms[e.name]} {fuel} " + " ".join(str(int(x)) for x in args))
        run_at = len(lines) - 1
        dumps = []
        for v in g.module.variables:
            lines.append(f"rvdump {syms[v.name]} {v.amount}")
            dumps.append((v.name, len(lines) - 1))
        per_case.append((run_at, dumps))
    return lines, per_case


def compile_targets_only(ctx, g, marches):
    """targets without an executable semantics here: compile only (feeds the peephole / Frame.alloc captures)"""
    from ppci import api
    for march in marches:
        try:
            api.ir_to_object([g.module], march)
            ctx.count("compiled_" + march.replace(":", "_"))
        except Exception as e:  # noqa  instruction-selector holes etc. are C29's findings
            ctx.count("codegen_error_" + march.replace(":", "_") + "_" + type(e).__name__)


def exec_search(ctx, parts):
    """failing-input search; appends its driver requests to `parts` and returns the function to call afterwards"""
    from . import irgen, irrun
    import random
    thorough = ctx.thorough
    items = [(g, cases, "corpus") for g, cases in corpus_modules()]
    base = ctx.rng.randrange(1 << 30)
    n_rv = 24 if thorough else 3
    try:
        items += chain_modules([0, 1, 2, "s"] if thorough else [0, 2])
    except Exception as e:  # noqa
        ctx.note(f"chain_modules unavailable: {type(e).__name__}: {e}"[:200])
    for k in range(n_rv):
        r = random.Random(base + k)
        cfg = cfg_riscv()
        if k % 2:
            cfg.max_params = 8        # internal calls with stack-passed arguments (riscv has six argument registers)
        g = irgen.gen_module(r, cfg, name=f"rv{base + k}")
        cases = [(e, a) for e in g.entries if e.external_ok and len(e.params) <= 6 for a in irgen.gen_args(r, e, 3 if thorough else 2)]
        items.append((g, cases, f"gen-seed-{base + k}"))
    # C front-end output for riscv (no externals: the interpreter has no host calls)
    try:
        for g in irgen.c_modules("riscv"):
            if g.externals:
                continue
            r = random.Random(base)
            cases = [(e, a) for e in g.entries for a in irgen.gen_args(r, e, 2)]
            if cases:
                items.append((g, cases, "c-frontend"))
    except Exception as e:  # noqa
        ctx.note(f"c_modules('riscv') unavailable: {type(e).__name__}: {e}"[:200])
    x_items = [(g, cases, tag) for g, cases, tag in corpus_modules_tagged()]
    n_x = 20 if thorough else 3
    for k in range(n_x):
        r = random.Random(base + 1000 + k)
        g = irgen.gen_module(r, cfg_x86(), name=f"x{base + 1000 + k}")
        cases = [(e, a) for e in g.entries if e.external_ok for a in irgen.gen_args(r, e, 4 if thorough else 3)]
        x_items.append((g, cases, f"gen-seed-{base + 1000 + k}"))
    # Spec.IR first, ONE driver start for all modules (serialises them before any code generator touches them)
    ir_lines, index = [], []
    for g, cases, tag in items:
        ls = irrun.spec_requests(g, cases, fuel=60000, ptr=4)
        index.append((len(ir_lines), len(ls)))
        ir_lines += ls
    x_index = []
    for g, cases, tag in x_items:
        ls = irrun.spec_requests(g, cases, fuel=200000, ptr=8)
        x_index.append((len(ir_lines), len(ls)))
        ir_lines += ls
    spec_out = ctx.driver("IR", ir_lines)
    texts = {id(g): irser_text(g) for g, _, tag in items + x_items if tag != "c-frontend"}
    rv_lines, rv_meta = [], []
    peep = cgslivers.PeepCapture()
    allocs = cgslivers.AllocCapture()
    with peep, allocs:
        for (g, cases, tag), (start, n) in zip(items, index):
            rep = spec_out[start:start + n]
            load, wf = rep[1], rep[2]
            if not load.startswith("ok") or wf != "ok 1":
                ctx.note(f"{g.module.name}: Spec.IR rejects the module (load={load[:40]} wf={wf[:80]}); skipped")
                ctx.count("module_rejected_by_spec")
                continue
            runs = rep[3:]
            good = [(c, s) for c, s in zip(cases, runs) if s.startswith("ok ret=")]
            ctx.count("spec_not_ok_runs", len(cases) - len(good))
            for march in ("riscv", "riscv:rvc"):
                try:
                    syms, images = rv_build(g.module, march)
                except Exception as e:  # noqa   instruction-selector holes (i64 on riscv …) are C29's findings
                    ctx.count("codegen_error_" + march.replace(":", "_") + "_" + type(e).__name__)
                    ctx.note(f"{g.module.name} {march}: {type(e).__name__}: {str(e)[:100]}")
                    continue
                ctx.count("compiled_" + march.replace(":", "_"))
                lines, per_case = rv_requests(g, [c for c, _ in good], syms, images, fuel=400000)
                rv_meta.append((g, tag, march, good, len(rv_lines), per_case))
                rv_lines += lines
            compile_targets_only(ctx, g, ["arm", "arm:thumb", "mips", "m68k"] if thorough else ["arm"])
    # peephole / Frame.alloc on the non-x86 targets just compiled
    parts.append(cgslivers.peephole_check(ctx, peep.streams, "ir_to_object riscv/arm/mips", expect_identity=True))
    parts.append(cgslivers.captured_frames_check(ctx, allocs, "ir_to_object riscv/arm/mips"))

    def rv_finish(rv_out):
        for g, tag, march, good, off, per_case in rv_meta:
            pg = irrun.pointer_globals(g.module)
            mtag = march.replace(":", "_")
            for ((e, args), spec), (run_at, dumps) in zip(good, per_case):
                ctx.count("eval_exec_" + mtag)
                ctx.nontrivial((g.module.name, e.name, march))
                rr = rv_out[off + run_at]
                case = {"module": g.module.name, "from": tag, "march": march, "function": e.name, "args": [int(a) for a in args],
                        "ir": texts.get(id(g), "(C front-end output)")}
                if tag.startswith("c-chain"):
                    case["c_source"] = CHAIN_SRC
                want = irrun.mask_globals(irrun.strip_steps(spec)[3:], pg)
                if not rr.startswith("ok ret="):
                    kind = rr.split()[1] if rr.startswith("ok ") else "driver"
                    why = rr.split()[2] if kind == "fault" and len(rr.split()) > 2 else kind
                    ctx.fail(f"riscv-exec:{march}:{why}", f"{g.module.name}.{e.name}{tuple(args)} on {march}: RV32 run ended with `{rr}`; Spec.IR: {want}",
                             case, spec=spec, machine=rr)
                    continue
                x10 = int(rr.split("ret=")[1].split()[0])
                ret = "none" if e.ret is None else irrun.show_val(e.ret, irrun.wrap(e.ret, x10))
                globs = [(name, bytes.fromhex(rv_out[off + k][3:]) if rv_out[off + k] != "ok -" else b"") for name, k in dumps]
                got = irrun.mask_globals(irrun.canon(ret, globs, []), pg)
                if not irrun.same_modulo_undef(want, got):
                    part = "ret" if want.split(" globals=")[0] != got.split(" globals=")[0] else "globals"
                    ctx.fail(f"riscv-exec:{march}:wrong-{part}", f"{g.module.name}.{e.name}{tuple(args)} on {march}: machine code gives {got}; Spec.IR: {want}",
                             case, spec=spec, machine=got)
            if good:
                ctx.sample({"module": g.module.name, "march": march, "function": good[0][0][0].name, "args": [int(a) for a in good[0][0][1]],
                            "spec": good[0][1][:120]})
    parts.append((rv_lines, rv_finish))

    def x86_native():
        for (g, cases, tag), (start, n) in zip(x_items, x_index):
            rep = spec_out[start:start + n]
            if not rep[1].startswith("ok") or rep[2] != "ok 1":
                ctx.count("module_rejected_by_spec")
                continue
            natives = irrun.native_results(g, cases)
            pg = irrun.pointer_globals(g.module)
            for (e, args), spec, nat in zip(cases, rep[3:], natives):
                if not spec.startswith("ok ret="):
                    ctx.count("spec_not_ok_runs")
                    continue
                want = irrun.mask_globals(irrun.strip_steps(spec)[3:], pg)
                got = irrun.mask_globals(nat, pg)
                case = {"module": g.module.name, "from": tag, "march": "x86_64", "function": e.name, "args": [int(a) for a in args],
                        "ir": texts.get(id(g), "?")}
                if nat.startswith("codegen "):
                    ctx.count("codegen_error_x86_64")
                    ctx.note(f"{g.module.name}: x86_64 {nat[:160]}")
                    break
                ctx.count("eval_exec_x86_64")
                ctx.nontrivial((g.module.name, e.name, "x86_64"))
                if not nat.startswith("ret="):
                    ctx.fail(f"x86_64-exec:{nat.split()[0]}", f"{g.module.name}.{e.name}{tuple(args)} natively: {nat[:200]}; Spec.IR: {want}", case, spec=spec, machine=nat)
                    continue
                if not irrun.same_modulo_undef(want, got):
                    w, gg = want.split(" "), got.split(" ")
                    part = "ret" if w[0] != gg[0] else "globals" if w[1] != gg[1] else "trace"
                    ctx.fail(f"x86_64-exec:wrong-{part}", f"{g.module.name}.{e.name}{tuple(args)} natively gives {got[:300]}; Spec.IR: {want[:300]}",
                             case, spec=spec, machine=got)
    return x86_native


def corpus_modules_tagged():
    """x86_64 corpus: the hand-made modules + the IR text files of corpus/C05 (past failing inputs)"""
    from ppci import ir
    from ppci.irutils import Reader
    from . import irgen
    from ppci import ir as _ir
    out = [(g, cases, "corpus") for g, cases in corpus_modules() if g.module.name not in ("c05_consts", "c05_ops32")]
    g64, c64 = ops_module([_ir.i32, _ir.u32, _ir.i64, _ir.u64], "c05_ops")
    out.append((g64, c64, "corpus"))
    for path in sorted((common.VERIF / "corpus" / "C05").glob("*.ir")):
        with open(path) as f:
            m = Reader().read(f)
        ents = [irgen.Entry(fn.name, [a.ty for a in fn.arguments], fn.return_ty if isinstance(fn, ir.Function) else None, True)
                for fn in m.functions if not fn.arguments]
        exts = [(x.name, list(x.argument_types), getattr(x, "return_ty", None)) for x in m.externals
                if isinstance(x, ir.ExternalSubRoutine)]
        out.append((irgen.Generated(m, ents, exts), [(e, []) for e in ents], "corpus:" + path.name))
    return out


def irser_text(g):
    from . import irser
    try:
        return irser.serialize(g.module)[:6000]
    except Exception:  # noqa
        return "?"


CJUMP_TARGETS = ["x86_64", "arm", "arm:thumb", "riscv", "riscv:rvc", "m68k", "mips", "xtensa", "or1k", "microblaze"]


def cjump_structural(ctx):
    """static check, no execution: for every target and every IR condition the instruction list selected for
    `cjmp a <cond> b ? yes : no` must contain a conditional control transfer - an instruction whose `jumps` names the `yes`
    label together with a second continuation, followed (directly or through the second continuation) by the way to `no`.
    Reproduces the open finding `mips:cjmp-not-emitted` on every run; any other target failing is a new signature."""
    from ppci import api, ir
    from ppci.codegen import registerallocator as RA
    frames = []
    orig = RA.GraphColoringRegisterAllocator.alloc_frame

    def wrap(self, frame):
        frames.append(frame)
        return orig(self, frame)

    def mod(cond, t):
        m = ir.Module("cj")
        f = ir.Function("f", ir.Binding.GLOBAL, t)
        m.add_function(f)
        e, y, n = ir.Block("cj_entry"), ir.Block("cj_yes"), ir.Block("cj_no")
        for blk in (e, y, n):
            f.add_block(blk)
        f.entry = e
        a, b = ir.Parameter("a", t), ir.Parameter("b", t)
        f.add_parameter(a)
        f.add_parameter(b)
        e.add_instruction(ir.CJump(a, cond, b, y, n))
        y.add_instruction(ir.Return(a))
        n.add_instruction(ir.Return(b))
        return m
    RA.GraphColoringRegisterAllocator.alloc_frame = wrap
    try:
        for march in CJUMP_TARGETS:
            for t in (ir.i32, ir.u32):
                for cond in ir.CJump.conditions:
                    del frames[:]
                    case = {"march": march, "ir": f"f(a, b): cjmp a {cond} b ? yes : no  ({t.name})"}
                    try:
                        api.ir_to_object([mod(cond, t)], march)
                    except Exception as e:  # noqa   selector holes are C29's subject
                        ctx.count("cjump_codegen_error_" + march.replace(":", "_") + "_" + type(e).__name__)
                        continue
                    ctx.count("eval_cjump_structure")
                    ctx.nontrivial((march, t.name, cond))
                    ins = list(frames[0].instructions) if frames else []

                    def names(i):
                        return [getattr(x, "name", None) for x in (i.jumps or [])]
                    cond_ins = [i for i in ins if getattr(i, "jumps", None) and len(i.jumps) >= 2]
                    reach = {nm for i in ins if getattr(i, "jumps", None) for nm in names(i) if nm}
                    if not cond_ins:
                        ctx.fail(f"{march}:cjmp-not-emitted",
                                 f"{march}: the instruction list selected for `cjmp a {cond} b ? yes : no` ({t.name}) contains no conditional control transfer "
                                 f"(jump-carrying instructions: {[type(i).__name__ for i in ins if getattr(i, 'jumps', None)]}): the block falls through", case)
                    elif "cj_yes" not in reach or "cj_no" not in reach:
                        # a target label may also be reached by falling through; flag only when a label is neither jumped to nor placed behind the branch
                        labels_after = [getattr(i, "name", None) for i in ins]
                        missing = [l for l in ("cj_yes", "cj_no") if l not in reach and l not in labels_after]
                        if missing:
                            ctx.fail(f"{march}:cjmp-target-unreachable", f"{march}: `cjmp a {cond} b`: no jump to {missing}", case)
    finally:
        RA.GraphColoringRegisterAllocator.alloc_frame = orig


def check(ctx):
    cjump_structural(ctx)
    parts = [cgslivers.frame_alloc(ctx), cgslivers.riscv_consts(ctx), cgslivers.riscv_imm_patterns(ctx), cgslivers.arg_locations(ctx),
             cgslivers.riscv_frames(ctx)]
    x86_native = exec_search(ctx, parts)
    cgslivers.run_parts(ctx, "C05", parts)       # ONE start of the Lean driver for everything
    x86_native()
    ctx.extra_cov["exhaustive"] = False
    ctx.extra_cov["targets_executed"] = "riscv, riscv:rvc (Lean RV32 interpreter), x86_64 (native); arm/thumb/mips/m68k only compiled"
    ctx.extra_cov["not_covered"] = "execution on arm, thumb, m68k, mips; floats; i64 on riscv; external calls on riscv"


def replay(ctx, rp):
    check(ctx)
