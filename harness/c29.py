"""C29 code generation succeeds on mature targets.

Translation (T2): regen() dumps, per target, the burg rules of the live instruction selector and the
sorted tree alphabet that the REAL SelectionGraphBuilder emits for a matrix of one-instruction IR
functions into lean/PpciVerif/Gen/Burg_<target>.lean; Props/C29.lean re-proves `premise` on them.
Correspondence: every tree handed to TreeSelector.gen during real ir_to_object runs is labelled by the
Lean model (driver) and the verdicts are compared; every internal error is a failing input."""
import logging
import re
import traceback

from harness import common

PROP = "C29"
LEAN_PROPS = "PpciVerif/Props/C29.lean"
LEAN_TARGETS = ["PpciVerif.Props.C29", "Drivers.C29"]
LEVEL = "proof"
LEVEL_TEXT = (
    "Partial. Lean theorem (induction on trees, any size/depth): if every operator symbol of a sorted tree alphabet has, for every "
    "non-terminal guaranteed for its result sort, an UNCONDITIONAL burg rule whose children are plain non-terminals guaranteed for the "
    "argument sorts and whose non-terminal reaches it through chain rules (Model.Burg.premise, decidable), then bottom-up labelling "
    "(TreeSelector.burm_label as modelled) gives EVERY well-sorted tree every guaranteed goal, in particular every statement tree the "
    "goal `stm` - no 'Tree ... not covered'. The premise is kernel-checked (decide +kernel) on the rule tables and alphabets regenerated "
    "from the live x86_64, arm, thumb, riscv and riscv+rvc instruction selectors on every run, for the alphabet MINUS a pinned list of "
    "tree heads per target (each an open finding reproduced with the real ir_to_object, or a head that only conditional rules cover). "
    "Not shown: register-allocator give-up, DAG splitting, conditions of conditional rules, exceptions inside rule templates/encoders.")
LEVEL_NOTE = (
    "trusted: Lean kernel; the T2 extractor in harness/c29.py (rules from InstructionSelector1.sys, alphabet from running the real "
    "SelectionGraphBuilder on a one-instruction-per-(op,type) matrix - a head irdag only emits in other contexts would be missed, the "
    "run-time check that every captured real tree is well-sorted in the generated alphabet guards this); hand model Model.Burg of "
    "burm_label/mark_tree tied by differential labelling of every real tree; blob-typed values, inline asm and float %/bit-ops excluded")
TECHNIQUE = ("Lean 4 proof by structural induction over trees of a generic BURS totality theorem + decide +kernel of its premise on "
             "tables regenerated from live ppci objects + differential labelling of real selection trees")
RULE = ("matrix: per target every (binop|unop|cast|const|load|store|cjmp x6 conditions|phi|call|alloc|global|copyblob|undef) x every value "
        "type incl. ptr, opt levels 0 and 2; fixed corpus (known findings, six loop-header phi shapes incl. self-referencing and swapping "
        "phis, C sources with continue/break at levels 0/1/2/s); random structured IR functions (own generator: straight-line + diamonds + "
        "loops with self/swap phis; shared harness/irgen.py modules at levels 0/1/2/s) over the target's types. distinct = distinct (target, tree skeleton incl. accepted conditional rules); non-trivial = tree of depth >= 2 or an "
        "uncovered tree")
TRUSTED = [
    "T2 extractor harness/c29.py:extract (burg rules via InstructionSelector1(arch).sys; alphabet via the real SelectionGraphBuilder.build on the spec matrix + dagsplit's MOV/REG wrapping)",
    "hand model Model.Burg of TreeSelector.burm_label/mark_tree and BurgSystem.tree_terminal_equal/get_kids/get_nts, tied by differential labelling on every captured tree",
    "acceptance (condition) callables are evaluated on the real tree by the harness and passed to the model as an oracle",
]
ASSUMPTIONS = [
    "well-formed IR = accepted by ppci.irutils.verify_module, scalar value types of arch.info.value_classes (no blob-typed values, no inline asm), float binops restricted to + - * /",
    "a selection tree's cover depends only on node names and on the acceptance results (costs are irrelevant to coverage)",
]
CHECK_WITHOUT_BUILD = False
logging.getLogger("verifier").setLevel(logging.ERROR)  # "Undefined value is used" warnings of verify_module

TARGETS = {"x86_64": "x86_64", "arm": "arm", "thumb": "arm:thumb", "riscv": "riscv", "rvc": "riscv:rvc"}

# heads for which the premise fails but which only conditional rules cover and no failing value exists
# for well-formed constants (pinned in Props/C29.lean as well)
COND_ONLY = {"arm": ["CONSTU8"], "riscv": ["CONSTI8", "CONSTU8"], "rvc": ["CONSTI8", "CONSTU8"], "x86_64": [], "thumb": []}

BINOPS = {"ADD": "+", "SUB": "-", "MUL": "*", "DIV": "/", "REM": "%", "OR": "|", "AND": "&", "XOR": "^", "SHL": "<<", "SHR": ">>"}
CONDS = ["==", "<", ">", ">=", "<=", "!="]
TYPE_ORDER = ["i8", "u8", "i16", "u16", "i32", "u32", "i64", "u64", "f32", "f64"]


# ------------------------------------------------------------------------------------------------
# IR construction from JSON-able specs
def _ty(name):
    from ppci import ir
    return {str(t): t for t in ir.all_types}[name]


def build_module(spec):
    """Build a one-function ir.Module from a JSON-able spec (see matrix())."""
    from ppci import ir
    if spec["k"] == "random":
        return random_module(spec)
    if spec["k"] == "irgen":
        return irgen_module(spec)
    if spec["k"] == "irfile":  # a module kept as IR text in corpus/C29/
        import io
        from ppci import irutils
        return irutils.read_module(io.StringIO((common.VERIF / "corpus" / "C29" / spec["file"]).read_text()))
    if spec["k"] == "csrc":
        import io
        from ppci import api
        return api.c_to_ir(io.StringIO(C_SOURCES[spec["name"]]), spec["march"])
    from ppci.binutils.debuginfo import DebugDb
    m = ir.Module("m", debug_db=DebugDb())  # like every front-end (mem2reg needs a debug_db to record its phis)
    k = spec["k"]

    def fn(ret, params):
        f = ir.Procedure("f", ir.Binding.GLOBAL) if ret is None else ir.Function("f", ir.Binding.GLOBAL, _ty(ret))
        m.add_function(f)
        ps = []
        for i, p in enumerate(params):
            pp = ir.Parameter(f"p{i}", _ty(p))
            f.add_parameter(pp)
            ps.append(pp)
        b = ir.Block("entry")
        f.add_block(b)
        f.entry = b
        return f, b, ps

    def blk(f, name):
        b = ir.Block(name)
        f.add_block(b)
        return b

    if k == "binop":
        f, b, (a, c) = fn(spec["ty"], [spec["ty"]] * 2)
        r = ir.Binop(a, spec["op"], c, "r", _ty(spec["ty"]))
        b.add_instruction(r)
        b.add_instruction(ir.Return(r))
    elif k == "unop":
        f, b, (a,) = fn(spec["ty"], [spec["ty"]])
        r = ir.Unop(spec["op"], a, "r", _ty(spec["ty"]))
        b.add_instruction(r)
        b.add_instruction(ir.Return(r))
    elif k == "cast":
        f, b, (a,) = fn(spec["to"], [spec["from"]])
        r = ir.Cast(a, "r", _ty(spec["to"]))
        b.add_instruction(r)
        b.add_instruction(ir.Return(r))
    elif k == "const":
        f, b, _ = fn(spec["ty"], [])
        r = ir.Const(spec["value"], "r", _ty(spec["ty"]))
        b.add_instruction(r)
        b.add_instruction(ir.Return(r))
    elif k == "load":
        f, b, (p,) = fn(spec["ty"], ["ptr"])
        r = ir.Load(p, "r", _ty(spec["ty"]))
        b.add_instruction(r)
        b.add_instruction(ir.Return(r))
    elif k == "store":
        f, b, (p, v) = fn(None, ["ptr", spec["ty"]])
        b.add_instruction(ir.Store(v, p))
        b.add_instruction(ir.Exit())
    elif k == "cjmp":
        f, b, (a, c) = fn("i32", [spec["ty"]] * 2)
        y, n = blk(f, "yes"), blk(f, "no")
        b.add_instruction(ir.CJump(a, spec["cond"], c, y, n))
        for bb, v in ((y, 1), (n, 0)):
            cc = ir.Const(v, f"c{v}", ir.i32)
            bb.add_instruction(cc)
            bb.add_instruction(ir.Return(cc))
    elif k == "phi":
        f, b, (a, c) = fn(spec["ty"], [spec["ty"]] * 2)
        y, n, j = blk(f, "yes"), blk(f, "no"), blk(f, "join")
        b.add_instruction(ir.CJump(a, "<", c, y, n))
        y.add_instruction(ir.Jump(j))
        n.add_instruction(ir.Jump(j))
        ph = ir.Phi("ph", _ty(spec["ty"]))
        ph.set_incoming(y, a)
        ph.set_incoming(n, c)
        j.add_instruction(ph)
        j.add_instruction(ir.Return(ph))
    elif k == "call":
        ret = spec.get("ret")
        tys = [_ty(t) for t in spec["tys"]]
        e = ir.ExternalProcedure("ext", tys) if ret is None else ir.ExternalFunction("ext", tys, _ty(ret))
        m.add_external(e)
        f, b, ps = fn(ret, spec["tys"])
        if ret is None:
            b.add_instruction(ir.ProcedureCall(e, ps))
            b.add_instruction(ir.Exit())
        else:
            r = ir.FunctionCall(e, ps, "r", _ty(ret))
            b.add_instruction(r)
            b.add_instruction(ir.Return(r))
    elif k == "callptr":
        f, b, ps = fn(None, ["ptr"] + spec["tys"])
        b.add_instruction(ir.ProcedureCall(ps[0], ps[1:]))
        b.add_instruction(ir.Exit())
    elif k == "alloc":
        f, b, (v,) = fn(spec["ty"], [spec["ty"]])
        last = None
        for i, n in enumerate(spec["sizes"]):
            al = ir.Alloc(f"al{i}", n, spec.get("align", 4))
            b.add_instruction(al)
            ad = ir.AddressOf(al, f"ad{i}")
            b.add_instruction(ad)
            b.add_instruction(ir.Store(v, ad, volatile=True))
            last = ad
        r = ir.Load(last, "r", _ty(spec["ty"]), volatile=True)
        b.add_instruction(r)
        b.add_instruction(ir.Return(r))
    elif k == "global":
        g = ir.Variable("g", ir.Binding.GLOBAL, 8, 8)
        m.add_variable(g)
        f, b, (v,) = fn(spec["ty"], [spec["ty"]])
        b.add_instruction(ir.Store(v, g))
        r = ir.Load(g, "r", _ty(spec["ty"]))
        b.add_instruction(r)
        b.add_instruction(ir.Return(r))
    elif k == "addrglobal":
        g = ir.Variable("g", ir.Binding.GLOBAL, 8, 8)
        m.add_variable(g)
        f, b, _ = fn("ptr", [])
        b.add_instruction(ir.Return(g))
    elif k == "copyblob":
        f, b, (p, q) = fn(None, ["ptr", "ptr"])
        b.add_instruction(ir.CopyBlob(p, q, spec["n"]))
        b.add_instruction(ir.Exit())
    elif k == "constfold":  # r = <const a> op <const b>  (only the optimizer sees the constants)
        f, b, _ = fn(spec["ty"], [])
        x = ir.Const(spec["a"], "x", _ty(spec["ty"]))
        y = ir.Const(spec["b"], "y", _ty(spec["ty"]))
        b.add_instruction(x)
        b.add_instruction(y)
        r = ir.Binop(x, spec["op"], y, "r", _ty(spec["ty"]))
        b.add_instruction(r)
        b.add_instruction(ir.Return(r))
    elif k == "dupuse":  # a foldable value used in both operand slots of one instruction
        f, b, (p,) = fn("u32", ["u32"])
        c = ir.Const(65535, "c", ir.u16)
        b.add_instruction(c)
        v = ir.Cast(c, "v", ir.u32)
        b.add_instruction(v)
        r = ir.Binop(v, "-", v, "r", ir.u32)
        b.add_instruction(r)
        b.add_instruction(ir.Return(r))
    elif k == "nest":  # the operation of spec["of"] applied to sub-expressions / constants instead of plain parameters
        o, mode, h = spec["of"], spec["mode"], spec.get("helper", "+")
        st = o.get("from", o.get("ty"))                      # operand type
        rt = {"cast": o.get("to"), "cjmp": "i32", "store": None, "load": o.get("ty")}.get(o["k"], o.get("ty"))
        f, b, ps = fn(rt, [st, st, "ptr"])
        if mode == "expr":
            x = ir.Binop(ps[0], h, ps[1], "x", _ty(st))
            y = ir.Binop(ps[1], h, ps[0], "y", _ty(st))
        else:
            x = ir.Const(spec["value"], "x", _ty(st))
            y = ir.Const(spec["value"], "y", _ty(st))
        b.add_instruction(x)
        b.add_instruction(y)
        lhs, rhs = {"expr": (x, y), "constl": (x, ps[1]), "constr": (ps[0], y)}[mode]
        if o["k"] == "binop":
            r = ir.Binop(lhs, o["op"], rhs, "r", _ty(rt))
        elif o["k"] == "unop":
            r = ir.Unop(o["op"], lhs, "r", _ty(rt))
        elif o["k"] == "cast":
            r = ir.Cast(lhs, "r", _ty(rt))
        elif o["k"] == "load":
            ad = ir.Binop(ps[2], "+", ps[2], "ad", ir.ptr) if mode == "expr" else ir.Const(4096, "ad", ir.ptr)
            b.add_instruction(ad)
            r = ir.Load(ad, "r", _ty(rt))
        elif o["k"] == "store":
            b.add_instruction(ir.Store(lhs, ps[2]))
            b.add_instruction(ir.Exit())
            return m
        elif o["k"] == "cjmp":
            y_, n_ = blk(f, "yes"), blk(f, "no")
            b.add_instruction(ir.CJump(lhs, o["cond"], rhs, y_, n_))
            for bb, v in ((y_, 1), (n_, 0)):
                cc = ir.Const(v, f"c{v}", ir.i32)
                bb.add_instruction(cc)
                bb.add_instruction(ir.Return(cc))
            return m
        else:
            raise ValueError("nest of " + o["k"])
        b.add_instruction(r)
        b.add_instruction(ir.Return(r))
    elif k == "phishape":  # loop headers: self-referencing phis, swaps, constant / undefined inputs, several back edges
        t = spec.get("ty", "i32")
        T = _ty(t)
        f, b, (n, x) = fn(t, [t, t])
        sh = spec["shape"]
        zero = ir.Const(0, "zero", T)
        one = ir.Const(1, "one", T)
        b.add_instruction(zero)
        b.add_instruction(one)
        if sh == "selfloop":      # single block looping on itself; x unchanged: x = phi(entry: x0, loop: x)
            lp, ex = blk(f, "loop"), blk(f, "done")
            b.add_instruction(ir.Jump(lp))
            i, acc = ir.Phi("i", T), ir.Phi("acc", T)
            lp.add_instruction(i)
            lp.add_instruction(acc)
            i2 = ir.Binop(i, "+", one, "i2", T)
            lp.add_instruction(i2)
            lp.add_instruction(ir.CJump(i2, "<", n, lp, ex))
            i.set_incoming(b, zero)
            i.set_incoming(lp, i2)
            acc.set_incoming(b, x)
            acc.set_incoming(lp, acc)
            r = ir.Binop(acc, "+", i2, "r", T)
            ex.add_instruction(r)
            ex.add_instruction(ir.Return(r))
        elif sh in ("continue", "twoback", "constundef"):
            # head: i = phi(entry, cont, body); acc = phi(entry: x, cont: <kept>, body: acc2)
            head, step, cont, body, done = (blk(f, nm) for nm in ("head", "step", "cont", "body", "done"))
            und = ir.Undefined("und", T)
            if sh == "constundef":
                b.add_instruction(und)
            b.add_instruction(ir.Jump(head))
            i, acc = ir.Phi("i", T), ir.Phi("acc", T)
            head.add_instruction(i)
            head.add_instruction(acc)
            head.add_instruction(ir.CJump(i, "<", n, step, done))
            i2 = ir.Binop(i, "+", one, "i2", T)
            bit = ir.Binop(i2, "&", one, "bit", T)
            step.add_instruction(i2)
            step.add_instruction(bit)
            step.add_instruction(ir.CJump(bit, "==", zero, cont, body))
            cont.add_instruction(ir.Jump(head))
            acc2 = ir.Binop(acc, "+", i2, "acc2", T)
            body.add_instruction(acc2)
            body.add_instruction(ir.Jump(head))
            done.add_instruction(ir.Return(acc))
            i.set_incoming(b, zero)
            i.set_incoming(cont, i2)
            i.set_incoming(body, i2)
            if sh == "continue":      # acc keeps its own value along the `continue` edge
                acc.set_incoming(b, x)
                acc.set_incoming(cont, acc)
                acc.set_incoming(body, acc2)
            elif sh == "twoback":     # two back edges, both changing
                acc.set_incoming(b, x)
                acc.set_incoming(cont, i2)
                acc.set_incoming(body, acc2)
            else:                     # undefined on entry, constant on one back edge
                acc.set_incoming(b, und)
                acc.set_incoming(cont, one)
                acc.set_incoming(body, acc2)
        elif sh in ("swap", "rotate"):  # header phis that read each other: a, b = b, a  /  a, b, c = b, c, a
            head, body, done = blk(f, "head"), blk(f, "body"), blk(f, "done")
            b.add_instruction(ir.Jump(head))
            i, pa, pb, pc = ir.Phi("i", T), ir.Phi("pa", T), ir.Phi("pb", T), ir.Phi("pc", T)
            for ph in (i, pa, pb, pc):
                head.add_instruction(ph)
            head.add_instruction(ir.CJump(i, "<", n, body, done))
            i2 = ir.Binop(i, "+", one, "i2", T)
            body.add_instruction(i2)
            body.add_instruction(ir.Jump(head))
            i.set_incoming(b, zero)
            i.set_incoming(body, i2)
            pa.set_incoming(b, x)
            pb.set_incoming(b, n)
            pc.set_incoming(b, one)
            if sh == "swap":
                pa.set_incoming(body, pb)
                pb.set_incoming(body, pa)
                pc.set_incoming(body, pc)
            else:
                pa.set_incoming(body, pb)
                pb.set_incoming(body, pc)
                pc.set_incoming(body, pa)
            r1 = ir.Binop(pa, "-", pb, "r1", T)
            r = ir.Binop(r1, "+", pc, "r", T)
            done.add_instruction(r1)
            done.add_instruction(r)
            done.add_instruction(ir.Return(r))
        else:
            raise ValueError(sh)
    elif k == "binopc":  # binop of a parameter and a constant on the given side
        f, b, (a,) = fn(spec["ty"], [spec["ty"]])
        c = ir.Const(spec["value"], "c", _ty(spec["ty"]))
        b.add_instruction(c)
        r = ir.Binop(c, spec["op"], a, "r", _ty(spec["ty"])) if spec["side"] == "l" else ir.Binop(a, spec["op"], c, "r", _ty(spec["ty"]))
        b.add_instruction(r)
        b.add_instruction(ir.Return(r))
    elif k == "ptrchain":  # (p + c1) + c2 on pointers: the folder's chain rewrite
        f, b, (pp,) = fn("ptr", ["ptr"])
        c1, c2 = ir.Const(spec.get("c1", 4), "c1", ir.ptr), ir.Const(spec.get("c2", 8), "c2", ir.ptr)
        q = ir.Binop(pp, "+", c1, "q", ir.ptr)
        r = ir.Binop(q, "+", c2, "r", ir.ptr)
        for i in (c1, c2, q, r, ir.Return(r)):
            b.add_instruction(i)
    elif k == "dupcall":  # the same foldable value in two argument slots of a call
        e = ir.ExternalProcedure("ext", [ir.u32, ir.u32])
        m.add_external(e)
        f, b, _ = fn(None, [])
        c = ir.Const(65535, "c", ir.u16)
        b.add_instruction(c)
        v = ir.Cast(c, "v", ir.u32)
        b.add_instruction(v)
        b.add_instruction(ir.ProcedureCall(e, [v, v]))
        b.add_instruction(ir.Exit())
    elif k == "undef":
        f, b, _ = fn(spec["ty"], [])
        r = ir.Undefined("r", _ty(spec["ty"]))
        b.add_instruction(r)
        b.add_instruction(ir.Return(r))
    else:
        raise ValueError(k)
    return m


def const_values(t):
    if t[0] == "f":
        return [0.0, 1.5, -2.25]
    if t == "ptr":
        return [0, 1, 4096]
    bits = int(t[1:])
    if t[0] == "i":
        return [0, 1, -1, (1 << (bits - 1)) - 1, -(1 << (bits - 1)), 100, -100]
    return [0, 1, (1 << bits) - 1, 1 << (bits - 1), 200]


def target_types(arch):
    from ppci import ir
    have = {str(t) for t in arch.info.value_classes if t is not ir.ptr}
    return [t for t in TYPE_ORDER if t in have]


def matrix(types):
    """One spec per (IR operation, type): the (target, op, type) correspondence matrix and the source of the alphabet."""
    specs = []
    tp = types + ["ptr"]
    for t in types:
        if t[0] == "f":
            specs += [{"k": "binop", "op": o, "ty": t} for o in "+-*/"]
            specs.append({"k": "unop", "op": "-", "ty": t})
        else:
            specs += [{"k": "binop", "op": o, "ty": t} for o in BINOPS.values()]
            specs += [{"k": "unop", "op": o, "ty": t} for o in "-~"]
    specs += [{"k": "binop", "op": o, "ty": "ptr"} for o in "+-"]
    for s in tp:
        for t in tp:
            if s != t:
                specs.append({"k": "cast", "from": s, "to": t})
    for t in tp:
        specs += [{"k": "const", "ty": t, "value": v} for v in const_values(t)]
        specs += [{"k": "load", "ty": t}, {"k": "store", "ty": t}, {"k": "phi", "ty": t}, {"k": "undef", "ty": t},
                  {"k": "global", "ty": t}, {"k": "alloc", "ty": t, "sizes": [8]}]
        specs += [{"k": "cjmp", "ty": t, "cond": c} for c in CONDS]
        specs.append({"k": "call", "tys": [t, t], "ret": t})
    specs += [{"k": "call", "tys": [], "ret": None}, {"k": "call", "tys": tp, "ret": None}, {"k": "callptr", "tys": ["i32"]},
              {"k": "addrglobal"}]
    specs += [{"k": "copyblob", "n": n} for n in (1, 4, 7, 400)]
    specs += [{"k": "alloc", "ty": "i32", "sizes": [4000, 4]}, {"k": "alloc", "ty": "i32", "sizes": [70000, 4]}]
    return specs


# IR operations irdag cannot translate at all (no tree head): kept out of the alphabet matrix, compiled in the corpus
NO_HEAD_SPECS = [{"k": "binop", "op": "rol", "ty": "i32"}, {"k": "binop", "op": "ror", "ty": "u32"}]


PHI_SHAPES = ["selfloop", "continue", "twoback", "constundef", "swap", "rotate"]

# C sources with continue / break / several back edges: mem2reg at level >= 1 turns the variables into header phis
C_SOURCES = {
    "continue": """
int g[32];
int f(int n, int x) {
  int i = 0; int s = 0;
  while (i < n) { i = i + 1; if (g[i] == 0) continue; s = s + x; x = x + 1; }
  return s + x;
}
""",
    "break": """
int h(int n, int a, int b) {
  int i; int t = a;
  for (i = 0; i < n; i++) { if (i == b) break; if (i & 1) continue; int u = a; a = b; b = u; t += a; }
  return t + a - b;
}
""",
    "nested": """
int k(int a, int b) {
  int r = 0; int i; int j;
  for (i = 0; i < (a & 7); i++) { for (j = 0; j < (b & 3); j++) { if ((i ^ j) & 1) continue; r += i * j; if (r > 40) break; } }
  do { r = r - 1; if (r == 7) continue; a = a + 1; } while (r > a);
  return r + a;
}
""",
}


def irgen_module(spec):
    """a module from the shared generator harness/irgen.py (self-referencing phis, swaps, continue/break, switch chains)"""
    import random
    from harness import irgen
    cfg = irgen.GenConfig(int_types=[_ty(t) for t in spec["int_types"]], floats=False, narrow_ops=False, undefined=spec.get("undefined", False),
                          indirect_calls=spec.get("indirect", False), max_funcs=2, total_stmts=spec.get("stmts", 30),
                          # irgen initialises its stack slots / result global with i64 stores: only where the target has i64
                          globals=spec.get("mem", True), allocas=spec.get("mem", True), copyblob=spec.get("mem", True))
    return irgen.gen_module(random.Random(spec["seed"]), cfg).module


OPT_CRASH_SPECS = [
    {"k": "dupuse"},
    {"k": "ptrchain"},
    {"k": "constfold", "op": "<<", "ty": "i32", "a": 1, "b": -1},
    {"k": "constfold", "op": ">>", "ty": "i32", "a": 1, "b": -1},
    {"k": "constfold", "op": "%", "ty": "i32", "a": 7, "b": 0},
    {"k": "constfold", "op": "/", "ty": "i32", "a": 7, "b": 0},
    {"k": "constfold", "op": "<<", "ty": "i64", "a": 1, "b": 1 << 62},
    {"k": "constfold", "op": "/", "ty": "f64", "a": 1.0, "b": 0.0},
]


# ------------------------------------------------------------------------------------------------
# T2 extraction
_cache = {}


def selector_for(march):
    from ppci.api import get_arch
    from ppci.codegen.instructionselector import InstructionSelector1
    from ppci.codegen.irdag import SelectionGraphBuilder
    from ppci.utils.reporting import DummyReportGenerator
    arch = get_arch(march)
    return arch, InstructionSelector1(arch, SelectionGraphBuilder(arch), DummyReportGenerator())


def sort_map(arch):
    """IR value type name (upper) -> sort.  irdag.do_cast emits no node between integer types of the same width
    and register class, so such types are interchangeable in trees: they form one sort (named after its members)."""
    from ppci import ir
    tys = [t for t in ir.value_types if t in arch.info.value_classes and t is not ir.ptr]
    tys.sort(key=lambda t: TYPE_ORDER.index(str(t)))
    classes = []
    for t in tys:
        for c in classes:
            u = c[0]
            if t.is_integer and u.is_integer and t.bits == u.bits and arch.get_reg_class(ty=t) is arch.get_reg_class(ty=u):
                c.append(t)
                break
        else:
            classes.append([t])
    return {str(t).upper(): "_".join(str(x).upper() for x in c) for c in classes for t in c}


def sgraph_symbols(arch, module):
    """Run the REAL SelectionGraphBuilder on every function of `module`; yield (head, [arg sorts], result sort)."""
    smap = sort_map(arch)
    from ppci.codegen.irdag import SelectionGraphBuilder, FunctionInfo, prepare_function_info
    from ppci.binutils.debuginfo import DebugDb
    out = []
    for f in module.functions:
        frame = arch.new_frame(f.name, f)
        frame.debug_db = DebugDb()
        fi = FunctionInfo(frame)
        prepare_function_info(arch, fi, f)
        sg = SelectionGraphBuilder(arch).build(f, fi, frame.debug_db)
        for node in sg:
            if node.name.op in ("ENTRY", "EXIT"):
                continue
            head = str(node.name)
            args = [smap[str(i.ty).upper()] for i in node.data_inputs]
            res = smap[str(node.name.ty).upper()] if node.data_outputs else "stm"
            out.append((head, args, res, str(node.name.ty).upper() if node.name.ty is not None else None))
    return out


def closure(sys_, nt):
    seen, todo = [nt], [nt]
    while todo:
        n = todo.pop()
        for cr in sys_.chain_rules_for_nt(n):
            if cr.non_term not in seen:
                seen.append(cr.non_term)
                todo.append(cr.non_term)
    return seen


def extract(key):
    """Everything the Lean side needs for target `key`, from live objects."""
    if key in _cache:
        return _cache[key]
    from ppci.irutils import verify_module
    arch, sel = selector_for(TARGETS[key])
    sys_ = sel.sys
    types = target_types(arch)
    specs = matrix(types)
    sig = {}
    head_spec = {}
    valtypes = set()
    build_errors = []
    for spec in specs:
        m = build_module(spec)
        verify_module(m)
        try:
            syms = sgraph_symbols(arch, m)
        except Exception as e:  # irdag cannot translate this operation
            build_errors.append((spec, type(e).__name__))
            continue
        for head, args, res, ty in syms:
            head_spec.setdefault(head, spec)
            if head in sig and sig[head] != (args, res):
                raise ValueError(f"{key}: head {head} used with two sortings {sig[head]} / {(args, res)}")
            sig[head] = (args, res)
            if res != "stm":
                valtypes.add(ty)
    # dagsplit wraps every value that needs a vreg as MOV<T>(tree) and refers to it as REG<T> (make_op)
    smap = sort_map(arch)
    for ty in sorted(valtypes):
        s = smap[ty]
        for head, v in ((f"REG{ty}", ([], s)), (f"MOV{ty}", ([s], "stm"))):
            if head in sig and sig[head] != v:
                raise ValueError(f"{key}: {head} sorted {sig[head]}, dagsplit needs {v}")
            sig[head] = v
    sorts = sorted({r for _, r in sig.values()} | {a for args, _ in sig.values() for a in args})
    # guaranteed non-terminals of a sort: chain closure of the non-terminal of the unconditional REG<sort> rule
    guar = {}
    for s in sorts:
        if s == "stm":
            guar[s] = ["stm"]
            continue
        g = []
        for r in sys_.rule_map.get("REG" + s.split("_")[0], []):
            if not r.acceptance and not r.tree.children:
                g = closure(sys_, r.non_term)
                break
        guar[s] = g
    excluded, witness = [], {}
    for head in sorted(sig):
        args, res = sig[head]
        for r in sys_.rule_map.get(head, []):
            if ((not r.acceptance) and len(r.tree.children) == len(args)
                    and all(c.name in sys_.non_terminals and c.name in guar[a] for c, a in zip(r.tree.children, args))
                    and set(guar[res]) <= set(closure(sys_, r.non_term))):
                witness[head] = r.nr
                break
        else:
            excluded.append(head)
    terms = sorted(set(sig) | {n for r in sys_.rules for n in r.tree.get_defined_names() if n in sys_.terminals})
    nts = sorted(sys_.non_terminals)
    d = dict(key=key, arch=arch, sys=sys_, types=types, specs=specs, sig=sig, sorts=sorts, guar=guar, excluded=excluded, witness=witness, head_spec=head_spec,
             terms=terms, nts=nts, build_errors=build_errors)
    _cache[key] = d
    return d


def lean_str(x):
    return '"' + x.replace("\\", "\\\\").replace('"', '\\"') + '"'


def lean_list(xs):
    return "[" + ", ".join(str(x) for x in xs) + "]"


def witness_trees(d):
    """(negWitness, posWitness) as nested tuples (head, kids)."""
    sig, exc = d["sig"], set(d["excluded"])

    def leaf(s):
        return ("REG" + s.split("_")[0], [])
    neg = None
    for h in d["excluded"]:
        args, res = sig[h]
        if all(leaf(a)[0] in sig and leaf(a)[0] not in exc for a in args) and not d["sys"].rule_map.get(h):
            t = (h, [leaf(a) for a in args])
            neg = t if res == "stm" else ("MOV" + res.split("_")[0], [t])
            break

    def grow(s, depth):
        cands = sorted(h for h, (a, r) in sig.items() if r == s and h not in exc)
        deep = [h for h in cands if sig[h][0]]
        if depth > 0 and deep:
            h = deep[(depth * 7 + len(s)) % len(deep)]
            return (h, [grow(a, depth - 1) for a in sig[h][0]])
        flat = [h for h in cands if not sig[h][0]]
        return (flat[0], [])
    strs = sorted(h for h, (a, r) in sig.items() if r == "stm" and len(a) == 2 and h.startswith("STR") and h not in exc)
    pos = (strs[-1], [grow(a, 3) for a in sig[strs[-1]][0]])
    return neg, pos


def render_lean(d):
    sys_, sig = d["sys"], d["sig"]
    tid = {n: i for i, n in enumerate(d["terms"])}
    nid = {n: i for i, n in enumerate(d["nts"])}
    sid = {n: i for i, n in enumerate(d["sorts"])}

    def pat(t):
        if t.name in sys_.non_terminals:
            if t.children:
                raise ValueError(f"non-terminal {t.name} with children in a rule pattern")
            return f".nt {nid[t.name]}"
        return f".term {tid[t.name]} [" + ", ".join(pat(c) for c in t.children) + "]"

    def tree(t):
        return f".node {tid[t[0]]} [] [" + ", ".join(tree(c) for c in t[1]) + "]"
    rules = []
    for r in sys_.rules:
        rules.append(f"  ⟨{r.nr}, {nid[r.non_term]}, {pat(r.tree)}, {'true' if r.acceptance else 'false'}⟩")
    allorder = sorted(sig, key=lambda h: (d["witness"].get(h, 10 ** 9), h))
    syms = [f"  ⟨{tid[h]}, {lean_list(sid[a] for a in sig[h][0])}, {sid[sig[h][1]]}⟩" for h in allorder]
    order = sorted(d["witness"], key=lambda h: (d["witness"][h], h))
    symsR = [f"  ⟨{tid[h]}, {lean_list(sid[a] for a in sig[h][0])}, {sid[sig[h][1]]}⟩" for h in order]
    guar = [f"({sid[s]}, {lean_list(nid[n] for n in d['guar'][s])})" for s in d["sorts"]]
    ct = [f"({nid[n]}, {lean_list(nid[x] for x in closure(sys_, n))})" for n in d["nts"]]
    neg, pos = witness_trees(d)
    mod = "Burg_" + d["key"]
    txt = (
        f"import PpciVerif.Model.Burg\n"
        f"/- GENERATED by harness/c29.py regen() from the live ppci objects of the checked tree - do not edit.\n"
        f"   target {TARGETS[d['key']]}: burg rules of InstructionSelector1(arch).sys, sorted alphabet emitted by the real\n"
        f"   SelectionGraphBuilder on the (op,type) matrix (+ dagsplit's MOV/REG), guaranteed non-terminals per sort, and the\n"
        f"   heads for which Model.Burg.premise fails. -/\n"
        f"namespace Gen.{mod}\nopen Model.Burg\n\n"
        f"def termNames : List String := [" + ", ".join(lean_str(n) for n in d["terms"]) + "]\n\n"
        f"def ntNames : List String := [" + ", ".join(lean_str(n) for n in d["nts"]) + "]\n\n"
        f"def sortNames : List String := [" + ", ".join(lean_str(n) for n in d["sorts"]) + "]\n\n"
        f"def stmSort : Nat := {sid['stm']}\n\ndef stmNt : Nat := {nid['stm']}\n\n"
        f"/-- ⟨nr, result non-terminal, pattern, has a condition⟩ in `BurgSystem.rules` order -/\n"
        f"def rules : List Rule := [\n" + ",\n".join(rules) + "]\n\n"
        f"/-- ⟨head, argument sorts, result sort⟩, ordered by witness rule number (symbols without witness last) -/\n"
        f"def sig : List Sym := [\n" + ",\n".join(syms) + "]\n\n"
        f"/-- `sig` minus `excluded`, ordered by witness rule number; `wit` = those numbers (certificate for `premise`) -/\n"
        f"def sigR : List Sym := [\n" + ",\n".join(symsR) + "]\n\n"
        f"def wit : List Nat := {lean_list(d['witness'][h] for h in order)}\n\n"
        f"def guar : List (Nat × List Nat) := [" + ", ".join(guar) + "]\n\n"
        f"/-- chain-rule closure of every non-terminal (checked against Model.Burg.close by `ctSound`) -/\n"
        f"def ct : List (Nat × List Nat) := [" + ", ".join(ct) + "]\n\n"
        f"/-- heads of `sig` for which the premise fails -/\n"
        f"def excluded : List Nat := {lean_list(tid[h] for h in d['excluded'])}\n\n"
        f"def excludedNames : List String := excluded.map (fun i => termNames.getD i \"?\")\n\n"
        f"/-- a well-sorted statement tree over the full alphabet that has no cover ({neg}) -/\n"
        f"def negWitness : Tree := {tree(neg) if neg else '.node 0 [] []'}\n\n"
        f"/-- a deeper well-sorted statement tree over the restricted alphabet -/\n"
        f"def posWitness : Tree := {tree(pos)}\n\n"
        f"end Gen.{mod}\n"
    )
    return txt


def regen(ctx):
    for key in TARGETS:
        d = extract(key)
        txt = render_lean(d)
        p = common.LEAN / "PpciVerif" / "Gen" / f"Burg_{key}.lean"
        if not p.exists() or p.read_text() != txt:
            p.parent.mkdir(exist_ok=True)
            p.write_text(txt)


# ------------------------------------------------------------------------------------------------
# random structured IR functions (own small generator; deterministic from the spec alone)
def _head_ty(t, ptr):
    return ptr if t == "ptr" else t.upper()


def random_module(spec):
    """spec = {k:'random', seed, types:[...], ptr:'U32', avoid:[heads], size:n, safe:bool}
    The right operand of / % << >> is always a parameter/load/call result/phi (UB constants crash the constant
    folder: fixed corpus OPT_CRASH_SPECS).  safe: additionally no instruction uses one value in two operand slots
    (ir.Value.replace_by cannot handle that: corpus spec `dupuse`)."""
    import random
    from ppci import ir
    rng = random.Random(spec["seed"])
    types, ptr, avoid, size = list(spec["types"]), spec["ptr"], set(spec.get("avoid", [])), spec.get("size", 12)
    safe = spec.get("safe", True)
    ints = [t for t in types if t[0] in "iu"]
    from ppci.binutils.debuginfo import DebugDb
    m = ir.Module("m", debug_db=DebugDb())
    g = ir.Variable("g", ir.Binding.GLOBAL, 16, 8)
    m.add_variable(g)
    names = iter(f"v{i}" for i in range(100000))
    ret = rng.choice(types + [None])
    f = ir.Procedure("f", ir.Binding.GLOBAL) if ret is None else ir.Function("f", ir.Binding.GLOBAL, _ty(ret))
    m.add_function(f)
    pool = {}

    def add(v, t):
        pool.setdefault(t, []).append(v)
        return v
    for i in range(rng.randint(1, 4)):
        t = rng.choice(types + ["ptr"])
        p = ir.Parameter(f"p{i}", _ty(t))
        f.add_parameter(p)
        add(p, t)
    blocks = [0]

    def newblock():
        b = ir.Block(f"b{blocks[0]}")
        blocks[0] += 1
        f.add_block(b)
        return b
    cur = newblock()
    f.entry = cur
    exts = {}

    def ok(head):
        return head not in avoid

    def value(b, t, pl):
        """a value of type t available in pool pl (make a constant / cast when none)"""
        if pl.get(t) and rng.random() < 0.85:
            return rng.choice(pl[t])
        if t != "ptr" and ok("CONST" + t.upper()):
            v = rng.choice(const_values(t))
            c = ir.Const(v, next(names), _ty(t))
            b.add_instruction(c)
            pl.setdefault(t, []).append(c)
            return c
        if pl.get(t):
            return rng.choice(pl[t])
        if t == "ptr":
            return g
        return None

    def emit_one(b, pl):
        kind = rng.choice(["binop", "binop", "binop", "unop", "cast", "cast", "load", "store", "call", "const", "ptradd"])
        t = rng.choice(types)
        T = t.upper()
        if kind == "binop":
            ops = "+-*/" if t[0] == "f" else list(BINOPS.values())
            names_ = {v: k for k, v in BINOPS.items()}
            op = rng.choice(ops)
            if not ok(names_[op] + T):
                return
            a, c = value(b, t, pl), value(b, t, pl)
            if a is None or c is None:
                return
            opaque = (ir.Parameter, ir.Load, ir.FunctionCall, ir.Phi)
            if op in ("/", "%", "<<", ">>") and not isinstance(c, opaque):
                # never a value the constant folder can see through (UB constants crash the folder, see OPT_CRASH_SPECS)
                alt = [v for v in pl.get(t, []) if isinstance(v, opaque) and not (safe and v is a)]
                if not alt:
                    return
                c = rng.choice(alt)
            if safe and a is c:
                alt = [v for v in pl.get(t, []) if v is not a and (op not in ("/", "%", "<<", ">>") or isinstance(v, opaque))]
                if not alt:
                    return
                c = rng.choice(alt)
            b.add_instruction(ir.Binop(a, op, c, next(names), _ty(t)))
            pl.setdefault(t, []).append(b.instructions[-1])
        elif kind == "unop":
            op = rng.choice("-~") if t[0] != "f" else "-"
            if not ok({"-": "NEG", "~": "INV"}[op] + T):
                return
            a = value(b, t, pl)
            if a is None:
                return
            b.add_instruction(ir.Unop(op, a, next(names), _ty(t)))
            pl.setdefault(t, []).append(b.instructions[-1])
        elif kind == "cast":
            s = rng.choice(types + ["ptr"])
            t2 = rng.choice(types + ["ptr"])
            S, T2 = _head_ty(s, ptr), _head_ty(t2, ptr)
            same = S[0] in "IU" and T2[0] in "IU" and S[1:] == T2[1:]
            if s == t2 or (not same and not ok(f"{S}TO{T2}")):
                return
            a = value(b, s, pl)
            if a is None:
                return
            b.add_instruction(ir.Cast(a, next(names), _ty(t2)))
            pl.setdefault(t2, []).append(b.instructions[-1])
        elif kind == "load":
            if not ok("LDR" + T):
                return
            a = value(b, "ptr", pl)
            b.add_instruction(ir.Load(a, next(names), _ty(t), volatile=rng.random() < 0.3))
            pl.setdefault(t, []).append(b.instructions[-1])
        elif kind == "store":
            if not ok("STR" + T):
                return
            v = value(b, t, pl)
            if v is None:
                return
            b.add_instruction(ir.Store(v, value(b, "ptr", pl)))
        elif kind == "const":
            value(b, t, {})
        elif kind == "ptradd":
            if not ok("ADD" + ptr):
                return
            a, c = value(b, "ptr", pl), value(b, "ptr", pl)
            if safe and a is c:
                return
            b.add_instruction(ir.Binop(a, "+", c, next(names), ir.ptr))
            pl.setdefault("ptr", []).append(b.instructions[-1])
        elif kind == "call":
            n = rng.randint(0, 3)
            tys = tuple(rng.choice(types + ["ptr"]) for _ in range(n))
            r = rng.choice(types + [None])
            args = [value(b, x, pl) for x in tys]
            if any(a is None for a in args) or (safe and len(set(map(id, args))) != len(args)):
                return
            key = (tys, r)
            if key not in exts:
                nm = f"ext{len(exts)}"
                e = (ir.ExternalProcedure(nm, [_ty(x) for x in tys]) if r is None
                     else ir.ExternalFunction(nm, [_ty(x) for x in tys], _ty(r)))
                m.add_external(e)
                exts[key] = e
            if r is None:
                b.add_instruction(ir.ProcedureCall(exts[key], args))
            else:
                b.add_instruction(ir.FunctionCall(exts[key], args, next(names), _ty(r)))
                pl.setdefault(r, []).append(b.instructions[-1])

    def straight(b, pl, n):
        for _ in range(n):
            emit_one(b, pl)

    if rng.random() < 0.5:  # a stack slot
        al = ir.Alloc(next(names), rng.choice([1, 2, 4, 8, 16, 64]), rng.choice([1, 2, 4, 8]))
        cur.add_instruction(al)
        ad = ir.AddressOf(al, next(names))
        cur.add_instruction(ad)
        add(ad, "ptr")
    straight(cur, pool, rng.randint(1, size))
    for _ in range(rng.randint(0, 2)):
        shape = rng.choice(["diamond", "loop"])
        ct = rng.choice(types + ["ptr"])
        if not ok("CJMP" + _head_ty(ct, ptr)):
            continue
        a, c = value(cur, ct, pool), value(cur, ct, pool)
        if a is None or c is None or (safe and a is c):
            continue
        cond = rng.choice(CONDS)
        if shape == "diamond":
            y, n, j = newblock(), newblock(), newblock()
            cur.add_instruction(ir.CJump(a, cond, c, y, n))
            pt = rng.choice(types)
            vals = []
            for bb in (y, n):
                pl = {k: list(v) for k, v in pool.items()}
                straight(bb, pl, rng.randint(0, size // 2))
                vals.append(value(bb, pt, pl))
                bb.add_instruction(ir.Jump(j))
            if all(v is not None for v in vals):
                ph = ir.Phi(next(names), _ty(pt))
                ph.set_incoming(y, vals[0])
                ph.set_incoming(n, vals[1])
                j.add_instruction(ph)
                add(ph, pt)
            cur = j
        else:
            it = rng.choice(ints) if ints else None
            if it is None or not ok("ADD" + it.upper()) or not ok("CJMP" + it.upper()):
                continue
            init, step, lim = value(cur, it, pool), value(cur, it, pool), value(cur, it, pool)
            if init is None or step is None or lim is None or (safe and len({id(init), id(step), id(lim)}) < 3):
                continue
            lp, ex = newblock(), newblock()
            pre = cur
            # header phis that keep their own value along the back edge / read each other (swap);
            # incoming values are chosen before any of the new phis enters the pool
            extra = []
            kt1, kt2 = rng.choice(types + ["ptr"]), rng.choice(types)
            kv = value(pre, kt1, pool) if rng.random() < 0.6 else None
            v1, v2 = (value(pre, kt2, pool), value(pre, kt2, pool)) if rng.random() < 0.4 else (None, None)
            ph = ir.Phi(next(names), _ty(it))
            lp.add_instruction(ph)
            add(ph, it)
            if kv is not None:
                kp = ir.Phi(next(names), _ty(kt1))
                lp.add_instruction(kp)
                extra.append((kp, kv, kp))
                add(kp, kt1)
            if v1 is not None and v2 is not None:
                p1, p2 = ir.Phi(next(names), _ty(kt2)), ir.Phi(next(names), _ty(kt2))
                lp.add_instruction(p1)
                lp.add_instruction(p2)
                extra += [(p1, v1, p2), (p2, v2, p1)]
                add(p1, kt2)
                add(p2, kt2)
            straight(lp, pool, rng.randint(0, size // 2))
            pre.add_instruction(ir.Jump(lp))
            for php, vin, vback in extra:
                php.set_incoming(pre, vin)
                php.set_incoming(lp, vback)
            nx = ir.Binop(ph, "+", step, next(names), _ty(it))
            lp.add_instruction(nx)
            ph.set_incoming(pre, init)
            ph.set_incoming(lp, nx)
            lp.add_instruction(ir.CJump(nx, rng.choice(["<", "!="]), lim, lp, ex))
            add(nx, it)
            cur = ex
        straight(cur, pool, rng.randint(0, size // 2))
    if ret is None:
        cur.add_instruction(ir.Exit())
    else:
        v = value(cur, ret, pool)
        if v is None:
            v = ir.Undefined(next(names), _ty(ret))
            cur.add_instruction(v)
        cur.add_instruction(ir.Return(v))
    return m


# ------------------------------------------------------------------------------------------------
# compiling with the real pipeline, capturing every tree handed to the tree selector
def ser_tree(sys_, tree):
    """preorder tokens NAME/<#kids>/<accepted conditional rule numbers>"""
    toks = []

    def rec(t):
        acc = []
        for rule in sys_.rule_map.get(t.name, []):
            if rule.acceptance:
                try:
                    if sys_.tree_terminal_equal(t, rule.tree) and rule.acceptance(t):
                        acc.append(rule.nr)
                except Exception:  # noqa: the real labelling would raise as well (seen as an internal error there)
                    pass
        toks.append(f"{t.name}/{len(t.children)}/{','.join(map(str, acc)) or '-'}")
        for c in t.children:
            rec(c)
    rec(tree)
    return " ".join(toks)


def impl_label(selector, tree):
    """(verdict, culprit head): '1' covered, '0' not covered, 'undefined' unknown terminal, 'exc:<E>' labelling raised"""
    from ppci.codegen.burg import BurgError
    try:
        selector.sys.check_tree_defined(tree)
    except BurgError:
        bad = sorted(n for n in tree.get_defined_names() if n not in selector.sys.symbols)
        return "undefined", bad[0] if bad else tree.name
    try:
        selector.burm_label(tree)
    except Exception as e:  # noqa
        return "exc:" + type(e).__name__, tree.name
    if tree.state.has_goal("stm"):
        return "1", None

    def culprit(t):
        for c in t.children:
            r = culprit(c)
            if r:
                return r
        return t.name if not t.state.labels else None
    return "0", culprit(tree) or tree.name


class Capture:
    def __init__(self):
        self.log = []

    def __enter__(self):
        from ppci.codegen.instructionselector import TreeSelector
        self.cls = TreeSelector
        self.orig = orig = TreeSelector.gen
        log = self.log

        def gen(sel, context, tree):
            verdict, culprit = impl_label(sel, tree)
            log.append({"toks": ser_tree(sel.sys, tree), "impl": verdict, "culprit": culprit})
            return orig(sel, context, tree)
        TreeSelector.gen = gen
        return self

    def __exit__(self, *a):
        self.cls.gen = self.orig


GENERIC_SITES = {"__setitem__", "__init__", "__getitem__", "__call__", "<lambda>", "setter", "getter", "set_field", "set_patterns",
                 "set_all_patterns", "encode", "u8", "u16", "u32", "u64", "i8", "i16", "i32", "i64", "wrap_negative", "get_value",
                 "do_emit", "emit", "emit_all", "<listcomp>", "<genexpr>", "<dictcomp>"}


GENERIC_MODULES = {"token", "outstream", "peephole", "encoding"}


def site_of(e):
    """<module>.<function> of the innermost ppci frame; when that function is a generic sink (token setter, integer
    packer, constructor, lambda, value lookup ...) the nearest enclosing specific ppci function and, for encoders,
    the instruction class are appended, so that a new failure elsewhere cannot share the signature."""
    frames = []
    tb = e.__traceback__
    while tb is not None:
        fn = tb.tb_frame.f_code.co_filename
        if "/ppci/" in fn:
            frames.append((fn.rsplit("/", 1)[-1][:-3], tb.tb_frame.f_code.co_name, tb.tb_frame.f_locals.get("self")))
        tb = tb.tb_next
    if not frames:
        return "?"
    mod, func, _ = frames[-1]
    site = f"{mod}.{func}"
    if func in GENERIC_SITES or mod in GENERIC_MODULES:
        for _m, _f, slf in reversed(frames):
            if slf is not None and hasattr(type(slf), "syntax") and hasattr(slf, "get_tokens"):
                return site + f"[{type(slf).__name__}]"
        for m2, f2, _s in reversed(frames[:-1]):
            if f2 not in GENERIC_SITES and m2 not in GENERIC_MODULES:
                return site + f"<{m2}.{f2}"
    return site


def compile_case(key, spec, opt):
    """-> dict(outcome ok|diag|internal-error, signature, msg, trees[...])"""
    import logging
    from ppci import api
    from ppci.common import CompilerError
    from ppci.irutils import verify_module
    logging.disable(logging.WARNING)  # front-end / verifier warnings ("Function does not return a value", ...)
    m = build_module(spec)
    verify_module(m)
    stage = "opt"
    with Capture() as cap:
        try:
            if opt:
                api.optimize(m, level=opt)
            stage = "codegen"
            api.ir_to_object([m], TARGETS[key])
            res = {"outcome": "ok", "signature": None, "msg": ""}
        except CompilerError as e:
            res = {"outcome": "diag", "signature": None, "msg": str(getattr(e, "msg", e))[:120]}
        except Exception as e:  # noqa: every other exception is an internal error
            msg = f"{type(e).__name__}: {str(e)[:160]}"
            if stage == "opt":
                sig = f"optimize:{type(e).__name__}:{site_of(e)}"
            elif isinstance(e, RuntimeError) and "not covered" in str(e) and cap.log:
                sig = f"{key}:{cap.log[-1]['culprit']}"
            elif cap.log and cap.log[-1]["impl"] == "undefined":
                sig = f"{key}:{cap.log[-1]['culprit']}"
            else:
                sig = f"{key}:{type(e).__name__}:{site_of(e)}"
            res = {"outcome": "internal-error", "signature": sig, "msg": msg,
                   "notcov": (isinstance(e, RuntimeError) and "not covered" in str(e)) or "not defined" in str(e)}
    res["trees"] = cap.log
    return res


def _work(job):
    key, spec, opt = job
    try:
        return compile_case(key, spec, opt)
    except Exception as e:  # noqa: harness-side problem (e.g. the spec cannot be built): reported, never silently dropped
        return {"outcome": "harness-error", "signature": None, "msg": f"{type(e).__name__}: {e}"[:200], "trees": []}


def run_jobs(jobs, workers=8):
    import concurrent.futures as cf
    import multiprocessing as mp
    if len(jobs) < 8:
        return [_work(j) for j in jobs]
    with cf.ProcessPoolExecutor(max_workers=workers, mp_context=mp.get_context("fork")) as ex:
        return list(ex.map(_work, jobs, chunksize=32))


def depth_of(toks):
    # preorder NAME/k/acc tokens -> depth
    it = iter(toks.split())

    def rec():
        k = int(next(it).split("/")[1])
        return 1 + max([rec() for _ in range(k)], default=0)
    return rec()


def known_heads(ctx, key):
    out = set()
    for f in ctx.known_findings("open"):
        p = f["signature"].split(":")
        if len(p) == 2 and p[0] == key:
            out.add(p[1])
    return out


def corpus_jobs(thorough=True):
    """fixed corpus: inputs of the known findings that are not tree-cover gaps + past disagreements"""
    jobs = []
    for key in TARGETS:
        for spec in NO_HEAD_SPECS:
            jobs.append((key, spec, 0))
    jobs.append(("arm", {"k": "alloc", "ty": "i32", "sizes": [4000, 4]}, 0))
    jobs.append(("x86_64", {"k": "unop", "op": "-", "ty": "u8"}, 0))
    for c in CONDS:
        jobs.append(("thumb", {"k": "cjmp", "ty": "i32", "cond": c}, 0))
    # optimizer crashes that stop compilation at opt level 2 (target independent; compiled for x86_64)
    jobs += [("x86_64", s, 2) for s in OPT_CRASH_SPECS]
    # ... or that leave a stale operand behind which the selection-graph builder then trips over
    jobs += [(key, {"k": "dupcall"}, 2) for key in TARGETS]
    # pointer constants folded beyond the pointer width (the folder cannot wrap ptr) reach the encoders
    jobs += [("arm", {"k": "ptrchain", "c1": 4294967295, "c2": 1}, 2), ("thumb", {"k": "ptrchain", "c1": 4294967295, "c2": 1}, 2),
             ("x86_64", {"k": "ptrchain", "c1": 2 ** 64 - 1, "c2": 1}, 2)]
    # loop-header phi shapes (hand-built, every target, opt 0 and 2) and C loops with continue/break at levels 1, 2, s
    for key in TARGETS:
        for sh in PHI_SHAPES:
            jobs += [(key, {"k": "phishape", "shape": sh}, 0), (key, {"k": "phishape", "shape": sh}, 2)]
        for name in C_SOURCES:
            lvls = (0, 1, 2, "s") if thorough else ((1, "s") if name == "continue" else (2,))
            jobs += [(key, {"k": "csrc", "name": name, "march": TARGETS[key]}, lvl) for lvl in lvls]
    # register allocator gives up after 30 spill rounds (module found by the shared generator, kept as IR text)
    jobs += [(key, {"k": "irfile", "file": "regalloc_giveup_arm.ir"}, 0) for key in ("arm", "riscv", "x86_64")]
    # fixed (09fcb10): spill code for a thumb frame slot beyond 255 bytes needed context.frame
    jobs += [(key, {"k": "irfile", "file": "thumb_spill_fprel.ir"}, 0) for key in ("thumb", "arm")]
    # fixed: rvc matched `c >> reg` with the reg-by-constant pattern (821633c)
    jobs += [(key, {"k": "binopc", "op": op, "ty": "i32", "value": v, "side": sd}, 0)
             for key in ("riscv", "rvc") for op in ("<<", ">>") for sd, v in (("l", -100), ("l", 5), ("r", -1), ("r", 3), ("r", 40))]
    # shift amounts around the 5-bit immediate field and inside the 12-bit I-type range, signed and unsigned (round-4 seed:
    # an immediate-form pattern guarded with the I-type range selected `x >> 32` and failed in the encoder)
    jobs += [(key, {"k": "binopc", "op": op, "ty": ty, "value": v, "side": "r"}, o)
             for key in ("riscv", "rvc") for op in ("<<", ">>") for ty in ("i32", "u32") for v in (0, 31, 32, 33, 200, 2047, 2048)
             for o in (0, 2)]
    return jobs


def nest_jobs(d, key, heads):
    """targeted search: the operations behind `heads` with sub-expression and constant operands (a rule that became
    conditional or context dependent still covers the plain REG operands of the matrix function)"""
    jobs = []
    ptr = str(d["arch"].info.type_infos["ptr"]).upper()
    for head in heads:
        o = d["head_spec"].get(head)
        if not o or o["k"] not in ("binop", "unop", "cast", "load", "store", "cjmp"):
            continue
        st = o.get("from", o.get("ty"))
        if st == "ptr":
            continue
        S = st.upper()
        ops = "+-*" if st[0] == "f" else "+-&|^"
        names = {v: k for k, v in BINOPS.items()}
        helpers = [h for h in ops if names[h] + S not in d["excluded"]]
        for opt in (0, 2):
            if helpers:
                jobs.append((key, {"k": "nest", "of": o, "mode": "expr", "helper": helpers[0]}, opt))
            if "CONST" + S not in d["excluded"] or True:
                for v in const_values(st)[:5]:
                    for mode in ("constl", "constr"):
                        jobs.append((key, {"k": "nest", "of": o, "mode": mode, "value": v}, opt))
    return jobs


def evaluate(ctx, groups, pre=()):
    """groups = [(tag, jobs, results)].  One driver call: `pre` requests first, then one `cover` per distinct
    captured tree.  Compares every tree with the Lean model and evaluates the property on every compile.
    Returns the replies to `pre`."""
    reqs, index = list(pre), {}
    for _tag, jobs, results in groups:
        for (key, spec, opt), res in zip(jobs, results):
            for tr in res["trees"]:
                rq = f"cover {key} {tr['toks']}"
                if rq not in index:
                    index[rq] = len(reqs)
                    reqs.append(rq)
    replies = ctx.driver("C29", reqs) if reqs else []
    for tag, jobs, results in groups:
        for (key, spec, opt), res in zip(jobs, results):
            evaluate_one(ctx, tag, key, spec, opt, res, replies, index)
    return replies[: len(pre)]


def evaluate_one(ctx, tag, key, spec, opt, res, replies, index):
    case = {"target": key, "spec": spec, "opt": opt}
    ctx.count("eval_compile_" + tag)
    ctx.count(f"outcome_{res['outcome']}")
    if res["outcome"] == "harness-error":
        raise common.BrokenCheck(f"harness could not run {case}: {res['msg']}")
    model_uncovered = False
    for tr in res["trees"]:
        ctx.count("eval_tree")
        rep = replies[index[f"cover {key} {tr['toks']}"]]
        mm = re.match(r"ok ws=(\d) wsr=(\d) cov=(\d)$", rep)
        if not mm:
            ctx.disagree("driver-reply", case, tr, rep)
            continue
        ws, wsr, cov = mm.groups()
        skel = re.sub(r"/(\d+)/\S+", r"/\1", tr["toks"])
        if cov == "0" or depth_of(tr["toks"]) >= 2:
            ctx.nontrivial((key, tr["toks"]))
        ctx.count("tree_covered" if cov == "1" else "tree_uncovered")
        impl = tr["impl"]
        if not ((impl == "1" and cov == "1") or (impl in ("0", "undefined") and cov == "0")):
            ctx.disagree("labelling", {**case, "tree": tr["toks"]}, impl, rep)
        if ws != "1":
            ctx.disagree("alphabet: the real builder emitted a tree outside the regenerated alphabet",
                         {**case, "tree": skel}, impl, rep)
        if wsr == "1" and cov != "1":
            ctx.disagree("theorem contradicted by the model itself", {**case, "tree": skel}, impl, rep)
        if cov == "0":
            model_uncovered = True
    # table verdict vs outcome
    not_cov = res["outcome"] == "internal-error" and bool(res.get("notcov"))
    if model_uncovered != not_cov:
        ctx.disagree("table verdict vs compile outcome", case, res["outcome"] + " " + res["msg"][:80],
                     "uncovered tree" if model_uncovered else "all trees covered")
    if res["outcome"] == "internal-error":
        ctx.count("internal_error_" + res["signature"].split(":")[0])
        ctx.fail(res["signature"], f"ir_to_object({key}, opt {opt}) on {spec_name(spec)}: {res['msg']}", case)
    if len(ctx.samples) < 6 and res["trees"] and res["outcome"] == "ok" and spec["k"] in ("random", "alloc", "call", "phishape"):
        ctx.sample({"case": case if spec["k"] != "random" else {"target": key, "spec": "random seed %d" % spec["seed"], "opt": opt},
                    "trees": [t["toks"] for t in res["trees"][:3]], "outcome": res["outcome"]})


def spec_name(spec):
    if spec["k"] == "irgen":
        return f"irgen module (seed {spec['seed']}, types {','.join(spec['int_types'])})"
    if spec["k"] == "random":
        return f"random function (seed {spec['seed']}, size {spec.get('size')})"
    return " ".join(f"{k}={v}" for k, v in spec.items())


def check(ctx):
    import time
    t0 = time.time()
    phases = {}

    def lap(name):
        nonlocal t0
        phases[name] = round(time.time() - t0, 1)
        t0 = time.time()
    info = {k: extract(k) for k in TARGETS}
    # ---- corpus + the (target, op, type) matrix at opt 0 and 2 (quick: opt 2 for a seeded quarter) ----------------
    jobs = corpus_jobs(ctx.thorough)
    for k in TARGETS:
        for spec in info[k]["specs"]:
            jobs.append((k, spec, 0))
            if ctx.thorough or ctx.rng.random() < 0.25:
                jobs.append((k, spec, 2))
    # ---- random structured functions -----------------------------------------------------------------------------------
    n = 300 if ctx.thorough else 40
    rjobs = []
    for k in TARGETS:
        d = info[k]
        ptr = str(d["arch"].info.type_infos["ptr"]).upper()
        for i in range(n):
            free = i % 8 == 7  # one in eight ignores the exclusion list (will mostly hit known findings)
            spec = {"k": "random", "seed": ctx.rng.getrandbits(32), "types": d["types"], "ptr": ptr, "safe": True,
                    "avoid": [] if free else d["excluded"], "size": ctx.rng.choice([4, 8, 16, 30])}
            rjobs.append((k, spec, ctx.rng.choice([0, 2])))
    # ---- modules of the shared generator harness/irgen.py (continue/break, swaps, self-referencing phis, switch chains)
    ni = 60 if ctx.thorough else 8
    for k in TARGETS:
        wide = ["i32", "u32"] + (["i64", "u64"] if "i64" in info[k]["types"] else [])
        allint = [t for t in info[k]["types"] if t[0] in "iu"]
        for i in range(ni):
            spec = {"k": "irgen", "seed": ctx.rng.getrandbits(32), "int_types": allint if i % 4 == 3 else wide,
                    "undefined": i % 2 == 0, "indirect": i % 5 == 0, "stmts": ctx.rng.choice([12, 30, 60] if ctx.thorough else [12, 30]),
                    "mem": "i64" in info[k]["types"]}
            rjobs.append((k, spec, ctx.rng.choice([0, 1, 2, "s"])))
    # ---- targeted search around heads that newly lack an unconditional flat rule, and the conditional-only heads ------
    for k in TARGETS:
        d = info[k]
        new = sorted(set(d["excluded"]) - known_heads(ctx, k) - set(COND_ONLY[k]))
        jobs += nest_jobs(d, k, new + [h for h in COND_ONLY[k] if h in d["head_spec"]])
    allres = run_jobs(jobs + rjobs)
    results, rresults = allres[: len(jobs)], allres[len(jobs):]
    lap("compile")
    pre = [x for k in TARGETS for x in (f"tables {k}", f"failing {k}")]
    reps = evaluate(ctx, [("matrix", jobs, results), ("random", rjobs, rresults)], pre)
    lap("model")
    # ---- translation cross-check: Lean recomputes the heads without witness from the same tables ----------------
    for i, k in enumerate(TARGETS):
        d = info[k]
        want = f"ok rules={len(d['sys'].rules)} sig={len(d['sig'])} sigR={len(d['witness'])} excluded={len(d['excluded'])}"
        if reps[2 * i] != want:
            ctx.disagree("tables", k, want, reps[2 * i])
        lean_fail = [] if reps[2 * i + 1] == "ok -" else reps[2 * i + 1][3:].split(",")
        if sorted(lean_fail) != sorted(d["excluded"]):
            ctx.disagree("heads without witness", k, sorted(d["excluded"]), sorted(lean_fail))
        new = sorted(set(d["excluded"]) - known_heads(ctx, k) - set(COND_ONLY[k]))
        gone = sorted((known_heads(ctx, k) | set(COND_ONLY[k])) - set(d["excluded"]))
        if new:
            ctx.note(f"{k}: heads newly without an unconditional flat rule: {new}")
        if gone:
            ctx.note(f"{k}: recorded heads that now have a witness rule: {gone}")
        ctx.extra_cov[f"alphabet_{k}"] = {"symbols": len(d["sig"]), "rules": len(d["sys"].rules), "excluded": len(d["excluded"]),
                                          "irdag_errors": [spec_name(s) + " -> " + e for s, e in d["build_errors"]]}
        for s, e in d["build_errors"]:
            ctx.note(f"{k}: SelectionGraphBuilder raised {e} on {spec_name(s)}")
    ctx.extra_cov["exhaustive"] = False
    ctx.extra_cov["matrix_cases"] = len(jobs)
    ctx.extra_cov["random_cases"] = len(rjobs)
    ctx.extra_cov["phase_seconds"] = phases


def search(ctx):
    """Props no longer build (the regenerated tables changed: a head lost its rule, a new head appeared ...).
    The driver does not import Props, so the failing-input search is the ordinary check."""
    ok, _log = ctx.lake_build(["Drivers.C29"])
    if ok:
        check(ctx)
    else:
        ctx.note("driver does not build either: no failing-input search possible")


def replay(ctx, rp):
    case = rp.get("case") or rp
    jobs = [(case["target"], case["spec"], case["opt"])]
    evaluate(ctx, [("replay", jobs, [_work(j) for j in jobs])])
