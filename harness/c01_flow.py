"""C01 statement-level search for CONTROL FLOW whose lowering keeps state in the code generator (no theorem covers the
values; `Model.CSwitch` covers the label bookkeeping): switch nested 2-3 deep with `default` first / in the middle / last /
absent, fall-through, negative and far-away case labels, case labels inside nested blocks and `if` bodies; for / while /
do-while nested in each other and in switches and vice versa; `break` (innermost switch or loop), `continue` (innermost
loop); forward and guarded backward `goto`; short-circuit conditions with calls; early `return`.

Every function is UB-free (small ints, unsigned hash) and terminates (dedicated loop counters, guarded goto).
Observed: return value, the bytes of the global `gl`, the sequence of `ext` calls.  Reference: `run_reference`, an
independent tree-walking evaluator of the abstract program (case dispatch and goto by *seeking* the label lexically);
thorough: gcc -fsanitize=undefined must agree with it.  Argument vectors hit every case label, every label +-1 and
unmatched values.
"""
import os
import subprocess
import tempfile

M32 = (1 << 32) - 1

PRELUDE = """extern unsigned int ext(unsigned int);
unsigned int gl[4] = {1u, 2u, 3u, 4u};
"""


def ext_oracle(x):
    return (13 + 2 * x) & M32


# ---------------------------------------------------------------------------------------------
# abstract programs
#   stmt := ("mark", n) | ("gmark", n) | ("call", n) | ("upd", var, mul, add, mod)
#         | ("if", cond, [stmt], [stmt]) | ("block", [stmt])
#         | ("switch", sid, sel, [stmt]) | ("case", sid, value) | ("default", sid)
#         | ("for", depth, n, [stmt]) | ("while", depth, n, [stmt]) | ("do", depth, n, [stmt])
#         | ("break",) | ("continue",) | ("ret", n) | ("label", name) | ("goto", name, limit)
#   sel  := ("a0",) | ("a1",) | ("u",) | ("w",) | ("sum", x, y) | ("diff", x, y)          (ints, small)
#   cond := ("cmp", op, sel, const) | ("and", c, c) | ("or", c, c) | ("not", c) | ("callbit", n)

class Gen:
    LABELS = [-3, -2, -1, 0, 1, 2, 3, 4, 5, 6, 7, 1000, -1000, 65536, -70000]

    def __init__(self, rng):
        self.r = rng
        self.sid = 0
        self.nmark = 0
        self.labels_used = set()
        self.gotos = 0

    def mark(self):
        self.nmark += 1
        return self.nmark

    def sel(self):
        r = self.r
        x = r.random()
        atoms = [("a0",), ("a1",), ("u",), ("w",)]
        if x < 0.55:
            return r.choice(atoms[:2])
        if x < 0.7:
            return r.choice(atoms)
        return (r.choice(["sum", "diff"]), r.choice(atoms[:2]), r.choice(atoms[2:]))

    def cond(self, depth=2):
        r = self.r
        x = r.random()
        if depth <= 0 or x < 0.45:
            return ("cmp", r.choice(["<", ">", "==", "!=", "<=", ">="]), self.sel(), r.choice([-2, -1, 0, 1, 2, 3, 5]))
        if x < 0.55:
            return ("callbit", self.mark())
        if x < 0.75:
            return ("and", self.cond(depth - 1), self.cond(depth - 1))
        if x < 0.92:
            return ("or", self.cond(depth - 1), self.cond(depth - 1))
        return ("not", self.cond(depth - 1))

    def simple(self):
        r = self.r
        x = r.random()
        if x < 0.5:
            return ("mark", self.mark())
        if x < 0.62:
            return ("gmark", self.mark())
        if x < 0.75:
            return ("call", self.mark())
        return ("upd", r.choice(["u", "w"]), r.choice([1, 2, 3]), r.choice([1, 2, 3, 5]), r.choice([5, 7, 11]))

    def stmts(self, depth, in_loop, in_breakable, loop_depth, n=None, top=False):
        r = self.r
        out = []
        for _ in range(r.randint(1, 4) if n is None else n):
            x = r.random()
            if depth <= 0 or x < 0.30:
                out.append(self.simple())
            elif x < 0.44:
                out.append(("if", self.cond(), self.stmts(depth - 1, in_loop, in_breakable, loop_depth),
                            self.stmts(depth - 1, in_loop, in_breakable, loop_depth) if r.random() < 0.6 else []))
            elif x < 0.62:
                out.append(self.switch(depth - 1, in_loop, loop_depth))
            elif x < 0.78 and loop_depth < 3:
                kind = r.choice(["for", "while", "do"])
                out.append((kind, loop_depth, r.randint(1, 3), self.stmts(depth - 1, True, True, loop_depth + 1)))
            elif x < 0.86 and in_breakable:
                out.append(("if", self.cond(1), [("mark", self.mark()), ("break",)], []))
            elif x < 0.92 and in_loop:
                out.append(("if", self.cond(1), [("mark", self.mark()), ("continue",)], []))
            elif x < 0.96:
                out.append(("if", self.cond(1), [("ret", self.mark())], []))
            elif top and self.gotos < 2:
                # guarded goto: forward, or backward at most twice
                self.gotos += 1
                name = f"L{self.gotos}"
                if r.random() < 0.5:
                    out.append(("if", self.cond(1), [("goto", name, 0)], []))
                    out += self.stmts(depth - 1, in_loop, in_breakable, loop_depth, n=2)
                    out.append(("label", name))
                else:
                    out.append(("label", name))
                    out += self.stmts(depth - 1, in_loop, in_breakable, loop_depth, n=2)
                    out.append(("goto", name, 2))
            else:
                out.append(self.simple())
        return out

    def switch(self, depth, in_loop, loop_depth):
        r = self.r
        self.sid += 1
        sid = self.sid
        nlab = r.randint(1, 5)
        labels = r.sample(self.LABELS, nlab)
        self.labels_used.update(labels)
        dpos = r.choice(["first", "middle", "last", "absent", "absent"])
        items = [("case", sid, v) for v in labels]
        if dpos == "first":
            items.insert(0, ("default", sid))
        elif dpos == "last":
            items.append(("default", sid))
        elif dpos == "middle":
            items.insert(r.randint(0, len(items)), ("default", sid))
        body = []
        if r.random() < 0.25:
            body.append(("mark", self.mark()))          # unreachable code before the first label
        i = 0
        while i < len(items):
            lab = items[i]
            i += 1
            x = r.random()
            if x < 0.16 and i < len(items):
                # the next label sits inside a nested block
                inner = items[i]
                i += 1
                body.append(lab)
                body.append(("block", self.stmts(depth, in_loop, True, loop_depth, n=1) + [inner] +
                             self.stmts(depth, in_loop, True, loop_depth, n=1)))
            elif x < 0.30 and i < len(items):
                # the next label sits inside the body of an if
                inner = items[i]
                i += 1
                body.append(lab)
                body.append(("if", self.cond(1), [("mark", self.mark()), inner] + self.stmts(depth, in_loop, True, loop_depth, n=1),
                             self.stmts(depth, in_loop, True, loop_depth, n=1) if r.random() < 0.5 else []))
            else:
                body.append(lab)
                body += self.stmts(depth, in_loop, True, loop_depth, n=r.randint(0, 2))
            if r.random() < 0.6:
                body.append(("break",))
        return ("switch", sid, self.sel(), body)

    def function(self):
        self.sid = 0
        self.nmark = 0
        self.labels_used = set()
        self.gotos = 0
        body = self.stmts(3, False, False, 0, n=self.r.randint(2, 4), top=True)
        return {"body": body, "labels": sorted(self.labels_used)}


def nested2(dpos_outer, dpos_inner, inner_at):
    """corpus: two nested switches; default of the outer one first/last/absent, of the inner one present/absent,
    the inner switch before or after the outer default"""
    inner = [("case", 2, 1), ("mark", 1), ("break",), ("case", 2, 2), ("mark", 2)]
    if dpos_inner == "last":
        inner += [("break",), ("default", 2), ("mark", 3)]
    elif dpos_inner == "first":
        inner = [("default", 2), ("mark", 3), ("break",)] + inner
    isw = ("switch", 2, ("a1",), inner)
    body = []
    if dpos_outer == "first":
        body += [("default", 1), ("mark", 10), ("break",)]
    body += [("case", 1, 0), ("mark", 11)]
    if inner_at == "case":
        body += [isw]
    body += [("break",), ("case", 1, 5), ("mark", 12), ("break",)]
    if dpos_outer == "middle":
        body += [("default", 1), ("mark", 10), ("break",)]
    body += [("case", 1, -1), ("mark", 13)]
    if inner_at == "late":
        body += [isw]
    body += [("break",)]
    if dpos_outer == "last":
        body += [("default", 1), ("mark", 10)]
    return {"body": [("mark", 20), ("switch", 1, ("a0",), body), ("mark", 21)], "labels": [0, 5, -1, 1, 2]}


def corpus_functions():
    fs = []
    for do in ("first", "middle", "last", "absent"):
        for di in ("first", "last", "absent"):
            for at in ("case", "late"):
                fs.append(nested2(do, di, at))
    # three deep, break/continue binding
    fs.append({"labels": [0, 1, 2, 3], "body": [
        ("for", 0, 3, [("switch", 1, ("a0",), [
            ("case", 1, 0), ("mark", 1), ("if", ("cmp", ">", ("a1",), 0), [("continue",)], []), ("mark", 2), ("break",),
            ("default", 1), ("while", 1, 2, [("switch", 2, ("a1",), [
                ("case", 2, 1), ("mark", 3), ("break",),
                ("case", 2, 2), ("switch", 3, ("u",), [("default", 3), ("mark", 4), ("case", 3, 1), ("mark", 5)]),
                ("upd", "u", 1, 1, 3), ("continue",),
                ("case", 2, 3), ("mark", 6)]),
                ("mark", 7), ("if", ("cmp", "==", ("a1",), 3), [("break",)], [])]),
            ("mark", 8), ("case", 1, 1), ("mark", 9)]),
            ("mark", 10)]),
        ("do", 0, 2, [("if", ("cmp", "<", ("a0",), 1), [("mark", 11), ("continue",)], []), ("mark", 12)])]})
    return fs


# ---------------------------------------------------------------------------------------------
# C text

def c_sel(s):
    k = s[0]
    if k in ("a0", "a1", "u", "w"):
        return k
    return f"({c_sel(s[1])} {'+' if k == 'sum' else '-'} {c_sel(s[2])})"


def c_cond(c):
    k = c[0]
    if k == "cmp":
        return f"({c_sel(c[2])} {c[1]} {c[3]})"
    if k == "callbit":
        return f"((ext({c[1]}u) & 2u) != 0u)"
    if k == "and":
        return f"({c_cond(c[1])} && {c_cond(c[2])})"
    if k == "or":
        return f"({c_cond(c[1])} || {c_cond(c[2])})"
    return f"(!{c_cond(c[1])})"


def c_stmts(ss, ind):
    out = []
    for s in ss:
        k = s[0]
        if k == "mark":
            out.append(f"{ind}h = h * 31u + {s[1]}u;")
        elif k == "gmark":
            out.append(f"{ind}gl[{s[1] % 4}] += h + {s[1]}u;")
        elif k == "call":
            out.append(f"{ind}h ^= ext({s[1]}u);")
        elif k == "upd":
            out.append(f"{ind}{s[1]} = ({s[1]} * {s[2]} + {s[3]}) % {s[4]};")
        elif k == "if":
            out.append(f"{ind}if ({c_cond(s[1])}) {{")
            out += c_stmts(s[2], ind + "  ")
            if s[3]:
                out.append(f"{ind}}} else {{")
                out += c_stmts(s[3], ind + "  ")
            out.append(f"{ind}}}")
        elif k == "block":
            out.append(f"{ind}{{")
            out += c_stmts(s[1], ind + "  ")
            out.append(f"{ind}}}")
        elif k == "switch":
            out.append(f"{ind}switch ({c_sel(s[2])}) {{")
            out += c_stmts(s[3], ind + "  ")
            out.append(f"{ind}}}")
        elif k == "case":
            v = s[2]
            out.append(f"{ind}case {v if v != -2147483648 else '(-2147483647 - 1)'}: ;")
        elif k == "default":
            out.append(f"{ind}default: ;")
        elif k == "for":
            c = f"c{s[1]}"
            out.append(f"{ind}for ({c} = 0; {c} < {s[2]}; {c}++) {{")
            out += c_stmts(s[3], ind + "  ")
            out.append(f"{ind}}}")
        elif k == "while":
            c = f"c{s[1]}"
            out.append(f"{ind}{c} = {s[2]};")
            out.append(f"{ind}while ({c} > 0) {{")
            out.append(f"{ind}  {c}--;")
            out += c_stmts(s[3], ind + "  ")
            out.append(f"{ind}}}")
        elif k == "do":
            c = f"c{s[1]}"
            out.append(f"{ind}{c} = 0;")
            out.append(f"{ind}do {{")
            out += c_stmts(s[3], ind + "  ")
            out.append(f"{ind}}} while (++{c} < {s[2]});")
        elif k == "break":
            out.append(f"{ind}break;")
        elif k == "continue":
            out.append(f"{ind}continue;")
        elif k == "ret":
            out.append(f"{ind}return h + {s[1]}u;")
        elif k == "label":
            out.append(f"{ind}{s[1]}: ;")
        elif k == "goto":
            if s[2]:
                g = "g" + s[1][1:]
                out.append(f"{ind}if ({g} < {s[2]}) {{ {g}++; goto {s[1]}; }}")
            else:
                out.append(f"{ind}goto {s[1]};")
    return out


def c_function(name, f):
    lines = [f"unsigned int {name}(int a0, int a1) {{", "  unsigned int h = 7u;", "  int u = 1, w = 2, c0 = 0, c1 = 0, c2 = 0, g1 = 0, g2 = 0;"]
    lines += c_stmts(f["body"], "  ")
    lines.append("  return h ^ ((unsigned int)u << 8) ^ ((unsigned int)w << 16) ^ ((unsigned int)(c0 + c1 + c2 + g1 + g2) << 24);")
    lines.append("}")
    return "\n".join(lines)


# ---------------------------------------------------------------------------------------------
# the reference evaluator

class _Break(Exception):
    pass


class _Continue(Exception):
    pass


class _Return(Exception):
    def __init__(self, v):
        self.v = v


class _Goto(Exception):
    def __init__(self, name):
        self.name = name


class Interp:
    def __init__(self, a0, a1):
        self.v = {"a0": a0, "a1": a1, "u": 1, "w": 2, "c0": 0, "c1": 0, "c2": 0, "g1": 0, "g2": 0}
        self.h = 7
        self.gl = [1, 2, 3, 4]
        self.trace = []
        self.steps = 0

    def ext(self, x):
        r = ext_oracle(x)
        self.trace.append(("ext", [x], r))
        return r

    def sel(self, s):
        k = s[0]
        if k in ("a0", "a1", "u", "w"):
            return self.v[k]
        x, y = self.sel(s[1]), self.sel(s[2])
        return x + y if k == "sum" else x - y

    def cond(self, c):
        k = c[0]
        if k == "cmp":
            x, y = self.sel(c[2]), c[3]
            return {"<": x < y, ">": x > y, "==": x == y, "!=": x != y, "<=": x <= y, ">=": x >= y}[c[1]]
        if k == "callbit":
            return (self.ext(c[1]) & 2) != 0
        if k == "and":
            return self.cond(c[1]) and self.cond(c[2])
        if k == "or":
            return self.cond(c[1]) or self.cond(c[2])
        return not self.cond(c[1])

    def run_list(self, ss, seek):
        for s in ss:
            seek = self.run(s, seek)
        return seek

    def run(self, s, seek):
        """seek: None (executing) or the label being looked for; returns the seek state after the statement"""
        self.steps += 1
        if self.steps > 200000:
            raise RuntimeError("reference evaluator: too many steps")
        k = s[0]
        if k == "case":
            return None if seek == ("case", s[1], s[2]) else seek
        if k == "default":
            return None if seek == ("default", s[1]) else seek
        if k == "label":
            return None if seek == ("label", s[1]) else seek
        if seek is not None:
            # labels are only looked for in blocks and in the branches of an if (never inside loops or nested switches)
            if k == "block":
                return self.run_list(s[1], seek)
            if k == "if":
                r = self.run_list(s[2], seek)
                if r is None:
                    return None
                return self.run_list(s[3], r)
            return seek
        if k == "mark":
            self.h = (self.h * 31 + s[1]) & M32
        elif k == "gmark":
            self.gl[s[1] % 4] = (self.gl[s[1] % 4] + self.h + s[1]) & M32
        elif k == "call":
            self.h ^= self.ext(s[1])
        elif k == "upd":
            self.v[s[1]] = (self.v[s[1]] * s[2] + s[3]) % s[4]
        elif k == "if":
            self.run_list(s[2] if self.cond(s[1]) else s[3], None)
        elif k == "block":
            self.run_list(s[1], None)
        elif k == "switch":
            v = self.sel(s[2])
            own = own_labels(s[3])
            if ("case", s[1], v) in own:
                target = ("case", s[1], v)
            elif ("default", s[1]) in own:
                target = ("default", s[1])
            else:
                return None
            try:
                r = self.run_list(s[3], target)
                assert r is None, "case label not found"
            except _Break:
                pass
        elif k == "for":
            c = f"c{s[1]}"
            self.v[c] = 0
            while self.v[c] < s[2]:
                try:
                    self.run_list(s[3], None)
                except _Break:
                    break
                except _Continue:
                    pass
                self.v[c] += 1
        elif k == "while":
            c = f"c{s[1]}"
            self.v[c] = s[2]
            while self.v[c] > 0:
                self.v[c] -= 1
                try:
                    self.run_list(s[3], None)
                except _Break:
                    break
                except _Continue:
                    pass
        elif k == "do":
            c = f"c{s[1]}"
            self.v[c] = 0
            while True:
                try:
                    self.run_list(s[3], None)
                except _Break:
                    break
                except _Continue:
                    pass
                self.v[c] += 1
                if not self.v[c] < s[2]:
                    break
        elif k == "break":
            raise _Break()
        elif k == "continue":
            raise _Continue()
        elif k == "ret":
            raise _Return((self.h + s[1]) & M32)
        elif k == "goto":
            if s[2]:
                g = "g" + s[1][1:]
                if self.v[g] < s[2]:
                    self.v[g] += 1
                    raise _Goto(s[1])
            else:
                raise _Goto(s[1])
        return None


def own_labels(ss):
    """the case/default labels that lexically belong to the switch whose body is `ss` (not those of nested switches)"""
    out = set()
    for s in ss:
        k = s[0]
        if k == "case":
            out.add(("case", s[1], s[2]))
        elif k == "default":
            out.add(("default", s[1]))
        elif k == "block":
            out |= own_labels(s[1])
        elif k == "if":
            out |= own_labels(s[2]) | own_labels(s[3])
    return out


def run_reference(f, a0, a1):
    it = Interp(a0, a1)
    seek = None
    try:
        while True:
            try:
                r = it.run_list(f["body"], seek)
                assert r is None, "goto label not found"
                break
            except _Goto as g:
                seek = ("label", g.name)
        v = it.v
        ret = (it.h ^ ((v["u"] & M32) << 8) ^ ((v["w"] & M32) << 16) ^
               (((v["c0"] + v["c1"] + v["c2"] + v["g1"] + v["g2"]) & M32) << 24)) & M32
    except _Return as rr:
        ret = rr.v
    g = b"".join(x.to_bytes(4, "little") for x in it.gl).hex()
    t = ";".join(f"{n}({','.join(str(a) for a in args)})={r}" for n, args, r in it.trace) or "-"
    return f"ret={ret} globals=gl={g} trace={t}"


def arg_vectors(f, rng, limit):
    vals = set([0, 50, -50])
    for v in f["labels"]:
        for d in (-1, 0, 1):
            if -2147483648 <= v + d <= 2147483647:
                vals.add(v + d)
    vals = sorted(vals)
    out = [[v, rng.choice(vals)] for v in vals] + [[rng.choice(vals), v] for v in vals]
    rng.shuffle(out)
    return out[:limit]


# ---------------------------------------------------------------------------------------------
# the real front-end / gcc

def run_ppci(job):
    """worker: compile with the REAL front-end, run by ir_to_python (ext = recording callback)"""
    from . import c01_lib as L, irgen, irrun, irser
    from ppci import ir
    from ppci.lang.c import codegenerator
    # observe (by wrapping gen_switch from outside) which block is the test block of every switch, in lowering order
    entered = {}
    orig_switch = codegenerator.CCodeGenerator.gen_switch

    def gen_switch(self, stmt):
        entered.setdefault(self.builder.function.name, []).append(self.builder.block_number)
        return orig_switch(self, stmt)
    codegenerator.CCodeGenerator.gen_switch = gen_switch
    try:
        module, cap = L.compile_capture(job["src"])
    except Exception as e:  # noqa
        return {"error": f"{type(e).__name__}: {str(getattr(e, 'msg', e))[:300]}"}
    finally:
        codegenerator.CCodeGenerator.gen_switch = orig_switch
    module.debug_db = None
    fs = {f.name: f for f in module.functions}
    names = job["names"]
    entries = {n: irgen.Entry(n, [a.ty for a in fs[n].arguments], fs[n].return_ty, True) for n in names}
    exts = [(e.name, list(e.argument_types), getattr(e, "return_ty", None)) for e in module.externals
            if isinstance(e, ir.ExternalSubRoutine)]
    gen = irgen.Generated(module, list(entries.values()), exts)
    try:
        runner = irrun.Ir2Py(gen)
    except Exception as e:  # noqa
        return {"error": f"ir_to_python: {type(e).__name__}: {e}"[:300]}
    rows = {n: [runner.run(entries[n], args) for args in job["argvs"][n]] for n in names}
    irtext = None
    if job.get("spec_ir"):
        try:
            irtext = irser.serialize(module)
        except Exception:  # noqa
            irtext = None
    return {"rows": rows, "irtext": irtext, "switches": {n: switch_chains(fs[n], entered.get(n, [])) for n in names}}


def switch_chains(f, test_numbers):
    """static view of every switch of the emitted function, in lowering order (= order of their test blocks): case
    constants in dispatch order, creation numbers of the test block (observed at gen_switch entry; body = test + 1,
    final = test + 2), of the block the final jump goes to and of the last dispatch block.
    irutils.Builder.new_block names a block <function>_block<n>; unreachable blocks are deleted later, so positions in
    f.blocks do not count."""
    from ppci import ir
    num, by_num = {}, {}
    for b in f.blocks:
        tail = b.name.rsplit("_block", 1)[-1]
        if tail.isdigit():
            num[b] = int(tail)
            by_num[int(tail)] = b
    chains = []
    for t in test_numbers:
        b = by_num.get(t)
        if b is None:
            chains.append({"consts": ["unreachable"], "test": t, "target": -1, "last": t})
            continue
        consts, cur = [], b
        while True:
            last = cur.instructions[-1] if cur.instructions else None
            if isinstance(last, ir.CJump) and last.cond == "==" and isinstance(last.b, ir.Const):
                consts.append(last.b.value)
                cur = last.lab_no
            else:
                break
        final = cur.instructions[-1] if cur.instructions else None
        target = num.get(final.target, -1) if isinstance(final, ir.Jump) else -2
        chains.append({"consts": consts, "test": t, "target": target, "last": num.get(cur, -1)})
    return chains


def run_gcc(src, names, argvs, workdir="/tmp"):
    lines = ["#include <stdio.h>", "#include <string.h>", "static char tr[262144]; static int tn;",
             "unsigned int ext(unsigned int x) { unsigned int r = 13u + 2u * x; tn += sprintf(tr + tn, \"%sext(%u)=%u\", tn ? \";\" : \"\", x, r); return r; }",
             src,
             "static void show(unsigned int r) { const unsigned char *c = (const unsigned char *)gl; int j; printf(\"ret=%u globals=gl=\", r); "
             "for (j = 0; j < (int)sizeof gl; j++) printf(\"%02x\", c[j]); printf(\" trace=%s\\n\", tn ? tr : \"-\"); }",
             "int main(void) {"]
    for n in names:
        for j, (x, y) in enumerate(argvs[n]):
            def lit(v):
                return "(-2147483647 - 1)" if v == -2147483648 else str(v)
            lines.append(f"  gl[0] = 1u; gl[1] = 2u; gl[2] = 3u; gl[3] = 4u; tn = 0; tr[0] = 0; fflush(stdout); fprintf(stderr, \"@ {n} {j}\\n\"); "
                         f"printf(\"{n} {j} \"); show({n}({lit(x)}, {lit(y)}));")
    lines.append("  return 0; }")
    d = tempfile.mkdtemp(prefix="c01flow", dir=workdir)
    try:
        p = os.path.join(d, "t.c")
        with open(p, "w") as fh:
            fh.write("\n".join(lines) + "\n")
        r = subprocess.run(["gcc", "-std=gnu11", "-w", "-O0", "-fsanitize=undefined", "-o", os.path.join(d, "t"), p],
                           capture_output=True, text=True)
        if r.returncode != 0:
            return None, r.stderr[-1500:]
        q = subprocess.run([os.path.join(d, "t")], capture_output=True, text=True, timeout=300)
        ub, cur = set(), None
        for line in q.stderr.splitlines():
            if line.startswith("@ "):
                w = line.split()
                cur = (w[1], int(w[2]))
            elif "runtime error" in line and cur is not None:
                ub.add(cur)
        out = {n: [None] * len(argvs[n]) for n in names}
        for line in q.stdout.splitlines():
            w = line.split(" ", 2)
            if len(w) == 3 and w[0] in out:
                out[w[0]][int(w[1])] = "UB" if (w[0], int(w[1])) in ub else w[2]
        return out, ""
    finally:
        for fn in os.listdir(d):
            os.unlink(os.path.join(d, fn))
        os.rmdir(d)


# ---------------------------------------------------------------------------------------------
# Model.CSwitch wire format and the source's view of every switch

def sw_proto_list(ss):
    return f"{len(ss)} " + " ".join(sw_proto(s) for s in ss) if ss else "0"


def sw_proto(s):
    k = s[0]
    if k == "case":
        return f"case {s[2]}"
    if k == "default":
        return "default"
    if k == "block":
        return "block " + sw_proto_list(s[1])
    if k == "if":
        t, e = s[2], s[3]
        return f"if {len(t)} {len(e)}" + "".join(" " + sw_proto(x) for x in t) + "".join(" " + sw_proto(x) for x in e)
    if k in ("for", "while", "do"):
        return "loop " + sw_proto_list(s[3])
    if k == "switch":
        return "switch " + sw_proto_list(s[3])
    return "o"


def real_switch_text(chains):
    """the dispatch chains of the real function in the format of Model.CSwitch.showRecs; the final jump of a switch
    without default goes to its final block = the block created right after test block and body block"""
    if not chains:
        return "-"
    return ";".join(",".join(str(c) for c in ch["consts"]) + ("|N" if ch["target"] == ch["test"] + 2 else "|D") for ch in chains)


def default_targets_ok(chains):
    """the default target of a switch is a block created while ITS body was lowered, not inside a nested switch"""
    bad = []
    for i, ch in enumerate(chains):
        if ch["target"] == ch["test"] + 2:
            continue
        t = ch["target"]
        if not (ch["test"] + 2 < t <= ch["last"]):
            bad.append((i, "outside"))
            continue
        for j, other in enumerate(chains):
            if j != i and ch["test"] < other["test"] and other["last"] <= ch["last"] and other["test"] <= t <= other["last"]:
                bad.append((i, f"inside nested switch {j}"))
    return bad
