"""C27 C integer constant expressions are evaluated as C prescribes.

regen : dumps the live operator tables of ConstantExpressionEvaluator, CSemantics.basic_ranks, the x86_64
        CContext sizes / pack formats, the BasicType type sets and the type-name table into
        lean/PpciVerif/Gen/CEval.lean; Props.C27.tables_match_source re-checks Model.CEval against it.
check : C sources generated from constant-expression trees (all literal forms and suffixes, character
        constants, every operator, casts, ?:) used as global initialisers of every integer type, case
        labels, enumerator values and array sizes are compiled by the REAL ppci.api.c_to_ir (x86_64); the
        bytes of the global (ir.Variable.value) / the switch constant / the array amount are compared with
        Model.CEval (correspondence) and with Spec.CInt (the property), both through Drivers/C27.lean.
        thorough: Spec.CInt itself is validated against gcc 12 (types via _Generic, values via the
        static initialisers of a generated program)."""
import json

from . import common
from . import cexpr as X

PROP = "C27"
LEAN_PROPS = "PpciVerif/Props/C27.lean"
LEAN_TARGETS = ["PpciVerif.Props.C27", "Drivers.C27"]
LEVEL = "proof"
LEVEL_TEXT = (
    "Lean theorems, for ALL integer constant expressions built from integer constants (decimal/octal/hex, suffixes u l ul ll ull), "
    "character constants, unary + - ~ !, binary + - * / % << >> & | ^ < > <= >= == != && ||, ?: and casts to the 11 integer types, of "
    "any size and nesting: whenever C gives the expression a value (Spec.CInt: LP64, integer promotions, usual arithmetic conversions, "
    "truncating / %, undefined behaviour = no value), the model of ppci's pipeline (semantic typing with implicit casts, "
    "ConstantExpressionEvaluator, CContext.pack) yields exactly the little-endian image of that value converted to the destination type "
    "for a global initialiser of each integer type, the value converted to the promoted controlling type for a case label, and the "
    "value itself for an enumerator and an array size; every enumerator of an enumerator LIST gets its explicit value or the previous value plus one (first 0); the typing inserted by the semantics equals C's typing for every such "
    "expression; pack never raises for any integer and any non-float type it accepts (integer basic types, enums, pointers); enum and pointer objects get the image of the converted value. Proved after four fix commits in /repo (evaluator/pack; integer typing; ?: in is_const_expr; array dimension type); the pre-fix "
    "code is kept as a model with Lean-proved counterexamples. The model is hand-written; its operator tables, ranks, sizes, type sets "
    "and pack formats are re-checked (decide) against a dump of the live objects on every run, and it is tied to the source by a "
    "differential run of the real c_to_ir on generated sources."
)
LEVEL_NOTE = (
    "trusted: Lean kernel; axioms propext/Classical.choice/Quot.sound; Spec.CInt (written from C11, validated against gcc 12 in the "
    "thorough tier on the generated trees, not proved); hand model <-> source correspondence is sampled (corpus + random trees to depth "
    "4/5 in four contexts), not proved; the parser/lexer (text -> operator/constant/type name) is only exercised, not modelled; struct.pack "
    "modelled. Not covered: sizeof, enumeration constants and variables inside expressions, floating operands, pointers/address "
    "constants, bit-field widths, _Bool (ppci has none), targets other than x86_64 (type sizes are dumped for x86_64 only)."
)
TECHNIQUE = ("Lean 4 proof (structural induction over expression trees; finite case analysis over the 11x11 type pairs; omega on the "
             "wrap arithmetic; bitwise operators by testBit extensionality) about a hand model + table translation (decide against "
             "dumped live tables) + differential correspondence of the real front-end with the model")
RULE = ("trees: fixed corpus (all past defects, boundaries) then random trees of depth <= 4 (quick, 600 trees) / 5 (thorough, 4000 trees) and 7 / 40 trees per binary operator with both operands beyond 2^53 at the 64-bit types over constants "
        "{0..12, 2^k-1, 2^k, 2^k+1 at k=7,8,15,16,31,32,63,64, random bits, values without a type} x bases x suffixes, character "
        "constants 0..255, all operators, casts to the 11 types; contexts: initialiser of each of the 11 types, case label under each "
        "controlling type, enumerator, array size. distinct = distinct (context, type, tree). non-trivial = the expression has a "
        "C value AND (it contains / % >> with a negative operand, or a conversion that changes a value, or an unsigned wrap, or mixed "
        "signedness) as witnessed by: destination image differs from the image of the unconverted mathematical value computed "
        "with Python ints, or a model/impl diagnostic")
TRUSTED = [
    "hand model Model.CEval of ppci/lang/c/{semantics,eval,context}.py (integer BasicTypes on x86_64), tied by Gen.CEval tables (decide) and a differential run of c_to_ir on every check",
    "Model.CSyntax.render: how a tree is written in C and read back by ppci's lexer/parser (exercised by the differential run, not modelled)",
    "Spec.CInt: C11 integer constant expressions on LP64 as gcc implements the implementation-defined parts; validated against gcc 12 (thorough)",
    "struct.pack('<bBhHiIqQ') = range check + little-endian two's complement; ir.Variable.value holds the packed bytes",
]
ASSUMPTIONS = [
    "x86_64 (LP64) type sizes; char is signed",
    "the generated trees are printed fully parenthesised, so operator precedence of ppci's parser is not under test here",
]

INT_IDS = ["char", "unsigned char", "short", "unsigned short", "int", "unsigned int", "long", "unsigned long", "long long",
           "unsigned long long"]
SPEC_NAMES = ["char", "signed char", "unsigned char", "short", "unsigned short", "int", "unsigned int", "long", "unsigned long",
              "long long", "unsigned long long"]


# ----------------------------------------------------------------------------------------------
# translation: dump live tables
def _s(x):
    return '"' + x.replace("\\", "\\\\").replace('"', '\\"') + '"'


def _fname(f):
    mod = (getattr(f, "__module__", "") or "").lstrip("_")
    return f"{mod}.{f.__name__}"


def _complete_enum(ctypes_):
    e = ctypes_.EnumType()
    e.constants = []          # a complete enum type (sizeof refuses incomplete ones)
    return e


def gen_text():
    from ppci.api import get_arch
    from ppci.lang.c import COptions
    from ppci.lang.c.context import CContext
    from ppci.lang.c.eval import ConstantExpressionEvaluator as E
    from ppci.lang.c.semantics import CSemantics
    from ppci.lang.c.scope import RootScope
    from ppci.lang.c.nodes.types import BasicType
    ctx = CContext(COptions(), get_arch("x86_64").info)
    rs = RootScope()

    def table(d):
        return "[" + ", ".join(f"({_s(k)}, {_s(_fname(v))})" for k, v in d.items()) + "]"

    def strs(xs):
        return "[" + ", ".join(_s(x) for x in xs) + "]"

    def pairs(xs, q=False):
        return "[" + ", ".join(f"({_s(i)}, {_s(r) if q else r})" for i, r in xs) + "]"

    ranks = [(i, CSemantics.basic_ranks[i]) for i in INT_IDS]
    sizes = [(i, ctx.type_size_map[i][0]) for i in INT_IDS]
    fmts = [(i, ctx.ctypes_names[i]) for i in INT_IDS]
    unsv = [(i, rs.get_type(["unsigned"] + i.split()).type_id) for i in INT_IDS if i in BasicType.SIGNED_INTEGER_TYPES]
    names = [(n, rs.get_type(n.split()).type_id) for n in SPEC_NAMES]
    size_t = CSemantics(ctx).size_t_type.type_id
    from ppci.lang.c.nodes import types as ctypes_
    enum_size = ctx.sizeof(_complete_enum(ctypes_))
    ptr_size = ctx.sizeof(ctypes_.PointerType(BasicType(BasicType.CHAR)))
    out = [
        "/- GENERATED by harness/c27.py regen() from the live ppci objects of the checked tree - do not edit -/",
        "namespace Gen.CEval", "",
        "/-- `ConstantExpressionEvaluator.unary_operators`: operator ↦ Python function -/",
        f"def unaryOperators : List (String × String) := {table(E.unary_operators)}", "",
        "/-- `ConstantExpressionEvaluator.binary_operators` -/",
        f"def binaryOperators : List (String × String) := {table(E.binary_operators)}", "",
        "/-- `ConstantExpressionEvaluator.integer_operators` -/",
        f"def integerOperators : List (String × String) := {table(E.integer_operators)}", "",
        "/-- `CSemantics.basic_ranks` of the integer types -/",
        f"def basicRanks : List (String × Nat) := {pairs(ranks)}", "",
        "/-- `CContext(x86_64).type_size_map[tid][0]` -/",
        f"def typeSizes : List (String × Nat) := {pairs(sizes)}", "",
        "/-- `CContext(x86_64).ctypes_names[tid]` -/",
        f"def packFormats : List (String × String) := {pairs(fmts, True)}", "",
        "/-- `BasicType.SIGNED_INTEGER_TYPES`, `PROMOTABLE_INTEGER_TYPES`, `INTEGER_TYPES`, `FLOAT_TYPES` (sorted) -/",
        f"def signedTypes : List String := {strs(sorted(BasicType.SIGNED_INTEGER_TYPES))}",
        f"def promotableTypes : List String := {strs(sorted(BasicType.PROMOTABLE_INTEGER_TYPES))}",
        f"def integerTypes : List String := {strs(sorted(BasicType.INTEGER_TYPES))}",
        f"def floatTypes : List String := {strs(sorted(BasicType.FLOAT_TYPES))}", "",
        "/-- `RootScope().get_type([\"unsigned\"] + tid.split()).type_id` for the signed integer types -/",
        f"def unsignedVariants : List (String × String) := {pairs(unsv, True)}", "",
        "/-- `RootScope().get_type(name.split()).type_id` for the C spellings of the integer types -/",
        f"def typeNames : List (String × String) := {pairs(names, True)}", "",
        "/-- `CSemantics(CContext(x86_64)).size_t_type.type_id` -/",
        f"def sizeType : String := {_s(size_t)}", "",
        "/-- `ctypes_names[\"ptr\"]`, `sizeof(char *)`, `sizeof(enum E)` on x86_64 -/",
        f"def ptrFormat : String := {_s(ctx.ctypes_names['ptr'])}",
        f"def ptrSize : Nat := {ptr_size}",
        f"def enumSize : Nat := {enum_size}", "",
        "end Gen.CEval", "",
    ]
    return "\n".join(out)


def regen(ctx):
    txt = gen_text()
    p = common.LEAN / "PpciVerif" / "Gen" / "CEval.lean"
    if not p.exists() or p.read_text() != txt:
        p.parent.mkdir(exist_ok=True)
        p.write_text(txt)


# ----------------------------------------------------------------------------------------------
# corpus: (kind, type, tree)
def L(v, suf="n", base="d"):
    return ("L", base, suf, v)


def neg(a):
    return ("U", "neg", a)


def B(op, a, b):
    return ("B", op, a, b)


def K(t, a):
    return ("K", t, a)


IMIN = B("sub", neg(L(2147483647)), L(1))
LMIN = B("sub", neg(L(9223372036854775807, "ll")), L(1, "ll"))

CORPUS = [
    # the defects repaired by 4536e8c (evaluator / pack)
    ("init", "int", B("mod", L(7), L(3))),
    ("init", "int", B("div", neg(L(7)), L(2))),
    ("init", "int", B("mod", neg(L(7)), L(2))),
    ("init", "int", B("div", L(7), neg(L(2)))),
    ("init", "uchar", L(300)),
    ("init", "uint", B("sub", L(0, "u"), L(1))),
    ("init", "ulong", neg(L(1))),
    ("init", "int", B("lt", L(1), L(2))),
    ("init", "int", B("eq", L(1), L(1))),
    ("init", "int", B("lor", B("gt", L(5), L(3)), L(0))),
    ("init", "int", B("land", L(1), L(2))),
    ("init", "int", ("U", "lnot", L(5))),
    ("init", "int", ("Q", L(1), L(2), L(3))),
    ("init", "int", K("char", L(300))),
    ("init", "int", K("uchar", neg(L(1)))),
    ("init", "char", K("uchar", L(200))),
    ("init", "long", B("add", L(0xffffffff, "u", "x"), L(1))),
    ("init", "int", L(2147483648)),
    ("init", "int", B("land", L(0), B("div", L(1), L(0)))),
    ("init", "int", ("Q", L(1), L(2), B("div", L(1), L(0)))),
    ("init", "int", B("div", L(1), L(0))),
    ("init", "int", B("shl", L(1), neg(L(1)))),
    ("init", "int", B("shl", L(1), L(40))),
    ("init", "long", B("shl", L(1, "l"), L(40))),
    # the defects repaired by 21f7d05 (typing)
    ("init", "int", neg(K("uchar", L(1)))),
    ("init", "int", ("U", "bnot", K("ushort", L(0)))),
    ("init", "int", B("lt", K("schar", neg(L(1))), K("uchar", L(1)))),
    ("init", "int", B("lt", neg(L(1, "ll")), L(1, "ul"))),
    ("init", "long", B("shl", L(0xffffffff, "u", "x"), L(1, "l"))),
    ("init", "int", B("shr", neg(L(8)), L(1, "u"))),
    ("init", "long", neg(L(2147483648))),
    ("init", "long", L(4294967296, "u")),
    ("init", "ulong", L(0x8000000000000000, "l", "x")),
    ("init", "int", ("C", 255)),
    ("init", "int", ("C", 128)),
    ("init", "int", ("Q", L(4294967296, "l"), L(1), L(2))),
    ("init", "int", ("Q", L(1), K("char", neg(L(1))), K("uchar", L(1)))),
    # boundaries
    ("init", "int", IMIN), ("init", "long", LMIN), ("init", "llong", B("div", LMIN, neg(L(1, "ll")))),
    ("init", "int", B("mod", IMIN, neg(L(1)))), ("init", "schar", neg(L(128))), ("init", "schar", L(128)),
    ("init", "short", L(65535)), ("init", "ushort", neg(L(1))), ("init", "ullong", L(18446744073709551615, "ull")),
    ("init", "ullong", L(18446744073709551616)), ("init", "long", L(9223372036854775808)),
    ("init", "int", B("add", L(2147483647), L(1))), ("init", "uint", B("mul", L(65536, "u"), L(65536, "u"))),
    ("init", "int", B("shr", neg(L(1)), L(31))), ("init", "int", B("shl", L(1), L(31))), ("init", "uint", B("shl", L(1, "u"), L(31))),
    ("init", "int", B("band", neg(L(4)), L(0xff, "n", "x"))), ("init", "int", B("bxor", neg(L(1)), L(5, "u"))),
    ("init", "long", B("bor", neg(L(256, "l")), L(3))), ("init", "int", ("U", "bnot", L(0, "u"))),
    ("init", "int", L(0o777, "n", "o")), ("init", "long", L(0, "n", "x")), ("init", "int", ("U", "plus", K("char", L(200)))),
    ("case", "uchar", B("add", neg(L(1)), L(300))), ("case", "long", B("shl", L(1, "ll"), L(40))),
    ("case", "char", neg(L(1))), ("case", "uint", neg(L(1))), ("case", "int", L(4294967297, "l")),
    ("case", "ushort", L(65536)), ("case", "int", ("C", 97)),
    ("enum", "int", B("add", L(3), L(4))), ("enum", "int", neg(L(5))), ("enum", "int", L(2147483647)),
    ("enum", "int", B("shl", L(1, "u"), L(31))), ("enum", "int", K("uchar", L(511))),
    # operands beyond 2^53 (not representable as a double)
    ("init", "int", B("mod", L(9223372036854775807, "ll"), L(10))),
    ("init", "int", B("mod", L(18446744073709551615, "ull"), L(1000, "ull"))),
    ("init", "int", B("mod", L(9007199254740993, "ll"), L(4))),
    ("init", "llong", B("mod", neg(L(9223372036854775807, "ll")), L(1000003))),
    ("init", "llong", B("div", L(9223372036854775807, "ll"), L(3))),
    ("init", "ullong", B("div", L(18446744073709551615, "ull"), L(10, "ull"))),
    ("init", "ullong", B("mul", L(6148914691236517205, "ull"), L(3, "ull"))),
    ("init", "int", B("lt", L(9007199254740993, "ll"), L(9007199254740992, "ll"))),
    ("init", "int", B("eq", L(18446744073709551615, "ull"), L(18446744073709551614, "ull"))),
    ("init", "llong", B("shr", L(9223372036854775807, "ll"), L(9))),
    ("init", "ullong", B("shl", L(9007199254740993, "ull"), L(10))),
    ("init", "llong", B("sub", L(9223372036854775807, "ll"), L(9007199254740993, "ll"))),
    # enum / pointer objects (CContext.pack on EnumType and PointerType)
    ("einit", "int", neg(L(1))), ("einit", "int", L(4294967295, "u")), ("einit", "int", L(2147483648)),
    ("einit", "int", B("sub", L(3), L(5))), ("einit", "int", L(7)), ("einit", "int", neg(L(2147483648))),
    ("pinit", "int", neg(L(1))), ("pinit", "int", L(0)), ("pinit", "int", L(4294967295, "u")),
    ("pinit", "int", K("int", neg(L(2)))), ("pinit", "int", L(18446744073709551615, "ull")),
    ("arr", "int", B("add", L(2), L(3))), ("arr", "int", L(16, "ul")), ("arr", "int", B("mod", L(7), L(4))),
    ("arr", "int", ("C", 10)), ("arr", "int", K("uchar", L(257))),
]


def mathematical(e):
    """value with unbounded integers and Python-free C rules for / % (None when not computable this way);
    used only to classify a case as non-trivial (RULE), never as an oracle"""
    v = _mathematical(e)
    return v if v is not None and abs(v) < (1 << 300) else None


def _mathematical(e):
    try:
        k = e[0]
        if k == "L":
            return e[3]
        if k == "C":
            return e[1]
        if k == "K":
            return mathematical(e[2])
        if k == "U":
            a = mathematical(e[2])
            return {"neg": -a, "bnot": ~a, "lnot": int(not a), "plus": a}[e[1]]
        if k == "Q":
            return mathematical(e[2]) if mathematical(e[1]) else mathematical(e[3])
        a, b = mathematical(e[2]), mathematical(e[3])
        op = e[1]
        if op == "div":
            return abs(a) // abs(b) * (1 if (a < 0) == (b < 0) else -1)
        if op == "mod":
            return a - b * (abs(a) // abs(b) * (1 if (a < 0) == (b < 0) else -1))
        if op in ("shl", "shr"):
            if not 0 <= b < 200:
                return None
            return a << b if op == "shl" else a >> b
        return {"add": lambda: a + b, "sub": lambda: a - b, "mul": lambda: a * b, "band": lambda: a & b,
                "bor": lambda: a | b, "bxor": lambda: a ^ b, "lt": lambda: int(a < b), "gt": lambda: int(a > b),
                "le": lambda: int(a <= b), "ge": lambda: int(a >= b), "eq": lambda: int(a == b),
                "ne": lambda: int(a != b), "land": lambda: int(bool(a and b)), "lor": lambda: int(bool(a or b))}[op]()
    except Exception:  # noqa
        return None


def gen_wide_cases(ctx, per_op):
    """every binary operator with operands beyond 2^53 (a detour through double precision shows), as initialiser of
    the 64-bit types"""
    cases = []
    for op in X.BINOPS:
        for _ in range(per_op):
            e = X.gen_wide_binop(ctx.rng, op)
            if ctx.rng.random() < 0.3:
                e = ("B", ctx.rng.choice(["add", "bxor", "sub"]), e, X.gen_lit(ctx.rng))
            cases.append(("init", ctx.rng.choice(["llong", "ullong", "long", "ulong", "int"]), e))
    return cases


def gen_cases(ctx, n, depth):
    cases = []
    for _ in range(n):
        e = X.gen_expr(ctx.rng, ctx.rng.randint(1, depth))
        r = ctx.rng.random()
        if r < 0.60:
            cases.append(("init", ctx.rng.choice(X.TYPES), e))
        elif r < 0.66:
            cases.append(("einit", "int", e))
        elif r < 0.70:
            cases.append(("pinit", "int", e))
        elif r < 0.84:
            cases.append(("case", ctx.rng.choice(X.TYPES), e))
        elif r < 0.92:
            cases.append(("enum", "int", e))
        else:
            cases.append(("arr", "int", e))
    return cases


MODEL_OP = {"init": "init", "case": "case", "enum": "enum", "arr": "arr"}


def requests(cases):
    reqs = []
    for kind, ty, e in cases:
        p = X.proto(e)
        t = f" {ty}" if kind in ("init", "case") else ""
        reqs.append(f"{kind}{t} {p}")
        reqs.append(f"s{kind}{t} {p}")
        reqs.append(f"stype {p}")
        reqs.append(f"mtype {p}")
    return reqs


def canon_impl(kind, r):
    """canonical text of what the real front-end did, in the driver's reply syntax"""
    st, obs = r
    if st == "ok":
        if kind in ("init", "enum", "einit", "pinit"):
            if not isinstance(obs, (bytes, bytearray)):
                return f"ok ?{obs}"
            if kind == "enum":
                return f"ok {int.from_bytes(obs, 'little', signed=True)}"
            return "ok " + (obs.hex() or "-")
        return f"ok {obs}"
    if st == "diag":
        return "err CompilerError"
    return "err " + st.split(":", 1)[1]


def canon_model(kind, reply):
    if kind == "enum" and reply.startswith("ok ") and reply != "ok none":
        # the enumerator is observed through `long long v = E;`: compare modulo 2^64
        v = int(reply.split()[1]) & ((1 << 64) - 1)
        return f"ok {v - (1 << 64) if v >> 63 else v}"
    return reply


def minimal_failing(ctx, kind, ty, e):
    """smallest subtree that already fails as an initialiser of `long long` / `unsigned long long`
    (property evaluated on the real code with the specification as oracle); root of it names the signature"""
    best = e
    subs = sorted(set(X.subtrees(e)), key=X.size)
    subs = [s for s in subs if X.size(s) < X.size(e)][:40]
    if not subs:
        return best
    items, reqs = [], []
    for s in subs:
        for t in ("llong", "ullong"):
            items.append(("init", t, s, True))
            reqs.append(f"sinit {t} {X.proto(s)}")
    spec = ctx.driver("C27", reqs)
    impl = X.run_batch(items)
    for (k, t, s, _), sp, im in zip(items, spec, impl):
        if sp != "ok none" and canon_impl("init", im) != sp:
            return s
    return best


def check(ctx):
    cases = (list(CORPUS) + gen_wide_cases(ctx, 40 if ctx.thorough else 7)
             + gen_cases(ctx, 4000 if ctx.thorough else 600, 5 if ctx.thorough else 4))
    seen, uniq = set(), []
    for c in cases:
        if c not in seen:
            seen.add(c)
            uniq.append(c)
    cases = uniq
    replies = ctx.driver("C27", requests(cases))
    model = [canon_model(c[0], replies[4 * i]) for i, c in enumerate(cases)]
    spec = [replies[4 * i + 1] for i in range(len(cases))]
    stype = [replies[4 * i + 2] for i in range(len(cases))]
    mtype = [replies[4 * i + 3] for i in range(len(cases))]
    bad = [r for r in replies if r == "bad-op"]
    if bad:
        raise common.BrokenCheck(f"driver rejected {len(bad)} requests")
    impl_raw = X.run_batch([(k, t, e, m.startswith("ok")) for (k, t, e), m in zip(cases, model)])
    impl = [canon_impl(c[0], r) for c, r in zip(cases, impl_raw)]
    nfail = 0
    for c, m, s, st, mt, i, raw in zip(cases, model, spec, stype, mtype, impl, impl_raw):
        kind, ty, e = c
        text = X.decl_for(kind, 0, ty, e)[0]
        ctx.count("eval_" + kind)
        ctx.count("outcome_" + (i.split()[1] if i.startswith("err") else "ok"))
        ctx.count("spec_" + ("undefined" if s == "ok none" else "defined"))
        ctx.count("root_" + X.root(e))
        # correspondence: model vs implementation
        if i != m:
            ctx.disagree(kind, {"decl": text, "tree": X.proto(e), "type": ty}, i, m)
        # the property on the real code: whenever C defines the value, ppci produces exactly it
        if s != "ok none":
            if i != s:
                nfail += 1
                if nfail <= 12:
                    small = minimal_failing(ctx, kind, ty, e)
                else:
                    small = e
                if i.startswith("err CompilerError"):
                    cls = "rejected"
                elif i.startswith("err"):
                    cls = "internal-error:" + i.split()[1]
                else:
                    cls = "wrong-value"
                ctx.fail(f"{kind}:{cls}:{X.root(small)}",
                         f"`{text}` -> {i}{' (' + str(raw[1]) + ')' if raw[0] != 'ok' else ''}, C prescribes {s}",
                         {"decl": text, "tree": X.proto(e), "type": ty, "kind": kind, "minimal": X.render_c(small)},
                         impl=i, model=m, spec=s)
            # non-trivial: the destination image is not simply the unbounded-integer value
            mv = mathematical(e)
            triv = False
            if mv is not None and kind == "init":
                n = X.BITS[ty] // 8
                lo, hi = (-(1 << (8 * n - 1)), (1 << (8 * n - 1)) - 1) if ty not in ("uchar", "ushort", "uint", "ulong", "ullong") else (0, (1 << 8 * n) - 1)
                triv = lo <= mv <= hi and s == "ok " + mv.to_bytes(n, "little", signed=mv < 0).hex() and X.size(e) <= 2
            if not triv:
                ctx.nontrivial((kind, ty, X.proto(e)))
        elif i.startswith("err") and not i.startswith("err CompilerError"):
            # no C value (undefined behaviour / constant without a type): a diagnostic or any value is fine,
            # an internal error is still a failing input (also counted by C28)
            ctx.fail(f"{kind}:internal-error:{i.split()[1]}:{X.root(e)}", f"`{text}` raised {i} ({raw[1]})",
                     {"decl": text, "tree": X.proto(e), "type": ty, "kind": kind}, impl=i, model=m, spec=s)
        # typing (only observable through the model; reported with the value comparison above)
        if st != "ok none" and mt.startswith("ok") and X.TYPES and st.replace("schar", "char") != mt:
            ctx.disagree("typing", {"tree": X.proto(e)}, "model " + mt, "spec " + st)
    for k in (0, 4, 24, len(CORPUS) + 1, len(CORPUS) + 2):
        if k < len(cases):
            ctx.sample({"decl": X.decl_for(cases[k][0], 0, cases[k][1], cases[k][2])[0], "impl": impl[k], "model": model[k], "spec": spec[k]})
    ctx.extra_cov["exhaustive"] = False
    ctx.extra_cov["defined_fraction"] = round(sum(1 for s in spec if s != "ok none") / max(1, len(spec)), 3)
    check_enum_lists(ctx)
    if ctx.thorough:
        validate_spec_with_gcc(ctx, cases, spec, stype)


# ----------------------------------------------------------------------------------------------
# enumerator LISTS (C11 6.7.2.2p3): explicit values at every position (0, +-1, boundaries, expressions that
# evaluate to 0) followed by implicit successors; observed through initialisers and array sizes
ZERO_EXPRS = [L(0), B("sub", L(4), B("mul", L(2), L(2))), B("sub", L(1), L(1)), ("U", "lnot", L(5)), L(0, "u"),
              B("mul", L(0), L(7)), B("band", L(6), L(1)), ("Q", L(0), L(3), L(0)), K("char", L(256))]

ENUM_LIST_CORPUS = [
    (L(3), None, L(0), None),                                   # enum { RED = 3, GREEN, NONE = 0, FIRST }
    (L(7), B("sub", L(4), B("mul", L(2), L(2))), None),         # A = 7, B = 4 - 2*2, C
    (None, None, L(0), None), (L(5), L(0)), (neg(L(1)), None, None), (L(0), None), (None, L(0), None, L(0), None),
    (L(2147483646), None), (neg(L(2147483648)), None), (L(1), ("U", "lnot", L(1)), None, None),
]


def gen_enum_list(rng):
    n = rng.randint(2, 6)
    items = []
    for k in range(n):
        r = rng.random()
        if r < 0.45:
            items.append(None)
        elif r < 0.70:
            items.append(rng.choice(ZERO_EXPRS))
        elif r < 0.85:
            items.append(rng.choice([L(1), neg(L(1)), L(2), L(100), L(2147483646), neg(L(2147483647)), L(65535)]))
        else:
            items.append(X.gen_expr(rng, 2))
    if all(i is None for i in items[1:]):
        items[rng.randrange(1, n)] = rng.choice(ZERO_EXPRS)      # an explicit 0 after a non-zero count
        if items[0] is None:
            items[0] = L(rng.randint(1, 9))
    return tuple(items)


def enum_list_decl(idx, items, values=None):
    names = [f"n{idx}_{k}" for k in range(len(items))]
    body = ", ".join(nm + (f" = {X.render_c(e)}" if e is not None else "") for nm, e in zip(names, items))
    txt = f"enum EL{idx} {{ {body} }};" + "".join(f" long long w{idx}_{k} = {nm};" for k, nm in enumerate(names))
    sized = []
    for k, v in enumerate(values or []):
        if 0 < v <= 4096:
            txt += f" char z{idx}_{k}[{names[k]}];"
            sized.append(k)
    return txt, sized


def check_enum_lists(ctx):
    lists = list(ENUM_LIST_CORPUS) + [gen_enum_list(ctx.rng) for _ in range(400 if ctx.thorough else 60)]
    lists = list(dict.fromkeys(lists))
    reqs = []
    for items in lists:
        p = " ".join("I" if e is None else "X " + X.proto(e) for e in items)
        reqs += ["elist " + p, "selist " + p]
    rep = ctx.driver("C27", reqs)
    if "bad-op" in rep:
        raise common.BrokenCheck("driver rejected an enumerator list")
    gcc_cases = []
    for idx, items in enumerate(lists):
        model, spec = rep[2 * idx], rep[2 * idx + 1]
        ctx.count("eval_elist")
        vals = json.loads(spec[3:]) if spec not in ("ok none",) else None
        decl, sized = enum_list_decl(idx, items, vals)
        st, m = X.compile_unit(decl + "\n")
        if st == "ok":
            got = []
            for k in range(len(items)):
                b = X.var_bytes(m, f"w{idx}_{k}")
                got.append(int.from_bytes(b, "little", signed=True) if isinstance(b, (bytes, bytearray)) else None)
            impl = "ok [" + ",".join(str(v) for v in got) + "]"
            sizes = {k: X.var_amount(m, f"z{idx}_{k}") for k in sized}
        else:
            impl = "err CompilerError" if st == "diag" else "err " + st.split(":", 1)[1]
            sizes = {}
        case = {"decl": decl, "items": reqs[2 * idx][6:]}
        mcanon = model
        if model.startswith("ok ["):       # observed through `long long`: compare modulo 2^64
            mv = [((v + (1 << 63)) % (1 << 64)) - (1 << 63) for v in json.loads(model[3:])]
            mcanon = "ok [" + ",".join(str(v) for v in mv) + "]"
        if impl != mcanon:
            ctx.disagree("enum-list", case, impl, model)
        if vals is not None:
            ctx.nontrivial(("elist", reqs[2 * idx]))
            bad_sizes = {k: v for k, v in sizes.items() if v != vals[k]}
            if impl != spec or bad_sizes:
                what = "internal-error:" + impl.split()[1] if impl.startswith("err") and impl != "err CompilerError" else (
                    "rejected" if impl.startswith("err") else "wrong-value")
                pos = next((k for k, e in enumerate(items) if e is not None and k > 0), 0)
                ctx.fail(f"elist:{what}", f"`{decl[:200]}` -> enumerators {impl}{' array sizes ' + str(bad_sizes) if bad_sizes else ''}, "
                         f"C prescribes {spec}", case, impl=impl, model=model, spec=spec, first_explicit_after_start=pos)
            gcc_cases.append((idx, items, vals))
    if ctx.thorough and gcc_cases:
        # Spec.CInt.enumValues against gcc: one program printing every enumerator
        import os
        import subprocess
        import tempfile
        lines = ["#include <stdio.h>"]
        body = []
        for idx, items, vals in gcc_cases:
            names = [f"n{idx}_{k}" for k in range(len(items))]
            lines.append("enum EL%d { %s };" % (idx, ", ".join(nm + (f" = {X.render_c(e)}" if e is not None else "") for nm, e in zip(names, items))))
            body.append('printf("' + " ".join(["%lld"] * len(names)) + '\\n", ' + ", ".join(f"(long long){nm}" for nm in names) + ");")
        lines += ["int main(void) {"] + body + ["return 0; }"]
        d = tempfile.mkdtemp(prefix="c27gcc")
        try:
            open(os.path.join(d, "t.c"), "w").write("\n".join(lines) + "\n")
            p = subprocess.run(["gcc", "-std=c11", "-w", "-o", os.path.join(d, "t"), os.path.join(d, "t.c")], capture_output=True, text=True)
            if p.returncode != 0:
                ctx.disagree("spec-vs-gcc", {"what": "enumerator lists"}, "gcc: " + p.stderr[-300:], "spec: defined")
            else:
                out = subprocess.run([os.path.join(d, "t")], capture_output=True, text=True).stdout.splitlines()
                for (idx, items, vals), line in zip(gcc_cases, out):
                    ctx.count("eval_gcc")
                    if [int(x) for x in line.split()] != vals:
                        ctx.disagree("spec-vs-gcc", {"enum": enum_list_decl(idx, items)[0]}, "gcc " + line, "spec " + str(vals))
        finally:
            for fn in os.listdir(d):
                os.unlink(os.path.join(d, fn))
            os.rmdir(d)


def validate_spec_with_gcc(ctx, cases, spec, stype):
    """Spec.CInt against gcc: only expressions the specification defines (gcc must accept them)."""
    todo = []
    for c, s, st in zip(cases, spec, stype):
        if s == "ok none":
            continue
        kind, ty, e = c
        if kind == "case":
            pty = ty if X.BITS[ty] >= 32 else "int"
            todo.append((kind, pty, e, int(s.split()[1]), s, st))
        elif kind == "arr" and int(s.split()[1]) > (1 << 20):
            continue
        elif kind == "pinit" and st.split()[1] in ("char", "schar", "uchar", "short", "ushort") :
            continue          # cannot occur: every expression is at least int
        else:
            todo.append((kind, ty, e, None, s, st))
    bad = 0
    for k in range(0, len(todo), 400):
        chunk = todo[k:k + 400]
        out, err = X.gcc_eval([(c[0], c[1], c[2], c[3]) for c in chunk])
        if out is None:
            # find the offending case so that the message is useful, then give up on this chunk
            ctx.note("gcc rejected a chunk of spec-defined expressions: " + err[-300:])
            ctx.disagree("spec-vs-gcc", {"chunk": k}, "gcc: compile error", "spec: defined")
            continue
        for (kind, ty, e, lab, s, st), o in zip(chunk, out):
            ctx.count("eval_gcc")
            want_t = st.split()[1]
            if kind in ("init", "einit", "pinit"):
                want = [want_t, s.split()[1]]
            elif kind == "case":
                want = [want_t, "10"]
            else:
                want = [want_t, s.split()[1]]
            if o != want:
                bad += 1
                if bad <= 10:
                    ctx.disagree("spec-vs-gcc", {"decl": X.decl_for(kind, 0, ty, e)[0], "tree": X.proto(e)}, "gcc " + " ".join(o), "spec " + " ".join(want))
    ctx.extra_cov["spec_validated_against_gcc"] = int(ctx.counts.get("eval_gcc", 0))


def replay(ctx, rp):
    case = rp.get("case") or rp.get("input") or {}
    print(json.dumps(case, indent=1))
    check(ctx)
