"""C26 C preprocessor: `#if` evaluation (theorems) and macro expansion (failing-input search only).

regen : dumps the live CPreProcessor.OP_MAP (priority, associativity, function name and a behavioural
        probe of every function on fixed operand pairs) into lean/PpciVerif/Gen/PPExpr.lean;
        Props.C26.op_map_matches_source re-checks Model.PPExpr.opMap against it.
check : (1) `#if` trees over signed/unsigned constants are printed with the parentheses C's grammar
        requires (plus random redundant ones) into `#if <expr>` / `#else` / `#endif` groups and preprocessed
        by the REAL ppci.api.preprocess; the tree ppci parsed and the value it computed are captured by
        wrapping CPreProcessor._eval_tree from outside and compared with Model.PPExpr (correspondence);
        the branch that survives is compared with Spec.PPInt (the property).  Every value is also made
        observable through a probe `#if (e) == <value C prescribes>`.
        (2) macro sets (object-/function-like, stringify, paste, nested, self-referential) with uses are
        expanded by ppci and by `gcc -E -P`; token sequences are compared.  This part has NO theorem: it
        only searches for failing inputs.
        thorough: Spec.PPInt itself is validated against `gcc -E -P` on the generated `#if` groups."""
import io
import json
import logging
import os
import re
import subprocess
import tempfile

from . import common

PROP = "C26"
LEAN_PROPS = "PpciVerif/Props/C26.lean"
LEAN_TARGETS = ["PpciVerif.Props.C26", "Drivers.C26"]
LEVEL = "proof"
LEVEL_TEXT = (
    "PARTIAL. Lean theorems about the `#if` expression code only. (a) Parsing, full: for EVERY sentence of C's grammar for "
    "`#if` expressions (conditional-expression over integer constants, unary + - ~ !, the 18 binary operators, ?:, parentheses; "
    "any length and nesting) the model of parse_expression (precedence climbing over OP_MAP) returns exactly the tree that C's "
    "precedence and associativity rules prescribe, consuming the whole line, with the fuel bound used by the model's #if entry. "
    "(b) Evaluation, partial (`_partial`): for every tree without an unsigned constant (no u suffix, no octal/hex constant above "
    "INTMAX_MAX), whenever C defines the value (intmax_t arithmetic, truncating / %, no overflow) the model of _eval_tree returns "
    "it, so the kept group is the one C prescribes. The full statement (also uintmax_t arithmetic) is FALSE for the code: ppci "
    "evaluates with unbounded signed Python ints (open finding, Lean-proved counterexample `-1 < 0u`). Proved after two fix "
    "commits (truncating / %; diagnostics instead of ZeroDivisionError/ValueError). Macro expansion (hide sets, #, ##, "
    "rescanning) has NO theorem: ppci and `gcc -E -P` are only compared on generated macro sets as a failing-input search."
)
LEVEL_NOTE = (
    "trusted: Lean kernel; axioms propext/Classical.choice/Quot.sound; Spec.PPInt (values and grammar written from C11 6.10.1/6.5/6.6, "
    "validated against gcc -E in the thorough tier); hand model <-> source correspondence is sampled (corpus + random trees, parse "
    "tree and value captured from the real code), not proved; lexer, macro expansion of the #if line, `defined`, character "
    "constants, #elif chains are exercised by a few corpus cases only, not modelled. No claim at all for macro expansion."
)
TECHNIQUE = ("Lean 4 proof (induction over grammar derivations for precedence climbing with a fuel-monotonicity lemma; structural "
             "induction for evaluation) about a hand model + table translation (OP_MAP dumped with behavioural probes, decide) + "
             "differential correspondence with the real preprocessor; differential search against gcc -E for macro expansion")
RULE = ("#if trees: fixed corpus (all past defects, boundaries of intmax/uintmax) then random trees of depth <= 4 (quick) / 5 "
        "(thorough) over constants {0..12, 2^k-1, 2^k, 2^k+1 at k=31,32,63,64, random bits} with/without u suffix, decimal/hex, "
        "all operators; each printed once with minimal and once with extra parentheses; plus the value probe `(e) == K`. "
        "distinct = distinct token line. non-trivial = the line needs the precedence table (two different adjacent binary operator "
        "levels or ?:) or contains a negative operand of / % >>, or an unsigned operand. macro sets: 6 templates x random bodies")
TRUSTED = [
    "hand model Model.PPExpr of CPreProcessor.parse_expression/_binop_take/_eval_tree/OP_MAP, tied by Gen.PPExpr (decide) and a differential run (parse tree + value captured by wrapping _eval_tree) on every check",
    "Spec.PPInt: #if value rules (intmax_t/uintmax_t) and the expression grammar of C11; validated against gcc -E -P (thorough)",
    "the token line sent to the model is the lexer's view of the text sent to ppci (numbers, punctuators; spaces between all tokens)",
]
ASSUMPTIONS = [
    "intmax_t/uintmax_t are 64 bits",
    "one directive line, no macros inside the controlling expression except in the few corpus cases",
    "generated shift counts are literals <= 200 (larger counts are undefined in C and only exercise CPython's big-int limits: `#if 1 << 18446744073709551615` raises MemoryError)",
]

UNOPS = {"neg": "-", "bnot": "~", "lnot": "!", "plus": "+"}
BINOPS = {"mul": ("*", 11), "div": ("/", 11), "mod": ("%", 11), "add": ("+", 10), "sub": ("-", 10), "shl": ("<<", 9),
          "shr": (">>", 9), "lt": ("<", 8), "gt": (">", 8), "le": ("<=", 8), "ge": (">=", 8), "eq": ("==", 7), "ne": ("!=", 7),
          "band": ("&", 6), "bxor": ("^", 5), "bor": ("|", 4), "land": ("&&", 3), "lor": ("||", 2)}
SPELL2OP = {v[0]: k for k, v in BINOPS.items()}


# ----------------------------------------------------------------------------------------------
# translation
def _s(x):
    return '"' + x.replace("\\", "\\\\").replace('"', '\\"') + '"'


PROBES = [(7, 3), (3, 7), (5, 5), (-7, 2), (0, 4), (-1, 1), (12, 10), (-12, 3), (-9, 4), (6, 0)]
PROBES_NEG = [(7, -2), (-7, -2), (0, -3), (5, -5), (-12, -10)]     # negative right operand: not for the shifts


def _probe(fn, pairs):
    out = []
    for a, b in pairs:
        try:
            out.append(int(fn(a, b)))
        except ZeroDivisionError:
            out.append(0)                  # the evaluator never calls / % with 0
        except ValueError:
            return []                      # negative shift count
    return out


def gen_text():
    from ppci.lang.c.preprocessor import CPreProcessor
    rows = []
    for op, (prio, right, fn) in CPreProcessor.OP_MAP.items():
        if fn is None:
            name, probe = "None", []
        else:
            mod = (getattr(fn, "__module__", "") or "").lstrip("_")
            name = f"{mod}.{fn.__name__}"
            probe = _probe(fn, PROBES) + _probe(fn, PROBES_NEG)
        rows.append(f"({_s(op)}, {prio}, {'true' if right else 'false'}, {_s(name)}, [" + ", ".join(str(x) for x in probe) + "])")
    return ("/- GENERATED by harness/c26.py regen() from the live ppci objects of the checked tree - do not edit -/\n"
            "namespace Gen.PPExpr\n\n"
            "/-- `CPreProcessor.OP_MAP`: spelling ↦ (priority, right associative, function name, function applied to the probe pairs) -/\n"
            "def opMap : List (String × Nat × Bool × String × List Int) := [\n  " + ",\n  ".join(rows) + "]\n\n"
            "def probes : List (Int × Int) := [" + ", ".join(f"({a}, {b})" for a, b in PROBES) + "]\n"
            "def probesNeg : List (Int × Int) := [" + ", ".join(f"({a}, {b})" for a, b in PROBES_NEG) + "]\n\n"
            "end Gen.PPExpr\n")


def regen(ctx):
    txt = gen_text()
    p = common.LEAN / "PpciVerif" / "Gen" / "PPExpr.lean"
    if not p.exists() or p.read_text() != txt:
        p.parent.mkdir(exist_ok=True)
        p.write_text(txt)


# ----------------------------------------------------------------------------------------------
# trees: ("N", v, u, d) | ("U", op, a) | ("B", op, a, b) | ("Q", c, a, b);  ptrees add ("P", a)
def N(v, u=False, d=True):
    return ("N", v, u, d)


def U(op, a):
    return ("U", op, a)


def B(op, a, b):
    return ("B", op, a, b)


def Q(c, a, b):
    return ("Q", c, a, b)


def proto_tree(t):
    k = t[0]
    if k == "N":
        return f"N {t[1]} {'u' if t[2] else 's'} {'d' if t[3] else 'x'}"
    if k == "U":
        return f"U {t[1]} {proto_tree(t[2])}"
    if k == "B":
        return f"B {t[1]} {proto_tree(t[2])} {proto_tree(t[3])}"
    return f"Q {proto_tree(t[1])} {proto_tree(t[2])} {proto_tree(t[3])}"


def level(t):
    return {"N": 12, "U": 12, "Q": 1}.get(t[0]) or BINOPS[t[1]][1]


def tokens(t, need, rng=None, extra=0.0):
    """token list of `t` where the grammar asks for a nonterminal of level `need`:
    parentheses exactly where C's grammar requires them (+ redundant ones with probability `extra`)"""
    k = t[0]
    if k == "N":
        body = [("n", t[1], t[2], t[3])]
    elif k == "U":
        body = [UNOPS[t[1]]] + tokens(t[2], 12, rng, extra)
    elif k == "B":
        sp, lv = BINOPS[t[1]]
        body = tokens(t[2], lv, rng, extra) + [sp] + tokens(t[3], lv + 1, rng, extra)
    else:
        body = tokens(t[1], 2, rng, extra) + ["?"] + tokens(t[2], 1, rng, extra) + [":"] + tokens(t[3], 1, rng, extra)
    if level(t) < need or (rng is not None and rng.random() < extra):
        body = ["("] + body + [")"]
    return body


def tok_text(tk, rng=None):
    if isinstance(tk, tuple):
        _, v, u, d = tk
        txt = str(v) if d else (hex(v) if (rng is None or rng.random() < 0.7 or v == 0) else "0%o" % v)
        if u:
            txt += (rng.choice(["u", "U", "ul", "ULL", "lu"]) if rng else "u")
        elif rng is not None and rng.random() < 0.1:
            txt += rng.choice(["l", "L", "ll"])
        return txt
    return tk


def tok_proto(tk):
    if isinstance(tk, tuple):
        return f"n:{tk[1]}:{'u' if tk[2] else 's'}:{'d' if tk[3] else 'x'}"
    return tk


BOUNDS = [0, 1, 2, 3, 7, 10, 63, 64, 2147483647, 2147483648, 4294967295, 4294967296, 9007199254740993,
          1000000000000000007, 9223372036854775807, 9223372036854775808, 18446744073709551615]
WIDE = [(1 << 53) + 1, 9007199254740993, (1 << 62) + 1, (1 << 63) - 1, (1 << 63) - 25, 10 ** 18 + 7, 999999999999999989,
        1234567890123456789, 4611686018427387847, 0x7fffffff00000001]


def gen_wide(rng, op):
    """one binary operator with operands beyond 2^53 (a detour through double precision shows)"""
    a = N(rng.choice(WIDE), False, rng.random() < 0.7)
    if rng.random() < 0.3:
        a = U("neg", a)
    if op in ("shl", "shr"):
        b = N(rng.choice([0, 1, 3, 9, 31, 52, 53, 62, 63]))
    elif op in ("div", "mod") and rng.random() < 0.6:
        b = N(rng.choice([2, 3, 4, 7, 10, 1000, 65537, 1000003]))
        if rng.random() < 0.25:
            b = U("neg", b)
    else:
        b = N(rng.choice(WIDE))
    return B(op, a, b)


def gen_tree(rng, depth, unsigned_p=0.25):
    if depth <= 0 or rng.random() < 0.2:
        r = rng.random()
        v = rng.randint(0, 12) if r < 0.6 else (rng.choice(BOUNDS) if r < 0.9 else rng.getrandbits(rng.choice([8, 31, 32, 63, 64])))
        return N(v, rng.random() < unsigned_p, rng.random() < 0.7)
    r = rng.random()
    if r < 0.18:
        return U(rng.choice(list(UNOPS)), gen_tree(rng, depth - 1, unsigned_p))
    if r < 0.28:
        return Q(gen_tree(rng, depth - 1, unsigned_p), gen_tree(rng, depth - 1, unsigned_p), gen_tree(rng, depth - 1, unsigned_p))
    op = rng.choice(list(BINOPS))
    a = gen_tree(rng, depth - 1, unsigned_p)
    if op in ("shl", "shr"):
        # counts stay small: a count of 2^32 makes CPython build a 512 MB integer, 2^64-1 raises MemoryError
        # (undefined in C anyway; see ASSUMPTIONS and notes/C26.md)
        b = N(rng.choice([0, 1, 2, 7, 31, 32, 62, 63, 64, 65, 100, 200]))
        if rng.random() < 0.1:
            b = U("neg", b)
    elif op in ("div", "mod") and rng.random() < 0.6:
        b = N(rng.choice([1, 2, 3, 7, 10]))
        if rng.random() < 0.4:
            b = U("neg", b)
    else:
        b = gen_tree(rng, depth - 1, unsigned_p)
    return B(op, a, b)


def has_unsigned(t):
    if t[0] == "N":
        return t[2] or t[1] > (1 << 63) - 1
    return any(has_unsigned(x) for x in t[1:] if isinstance(x, tuple))


def needs_table(t):
    """two different binary levels meet, or ?: occurs"""
    if t[0] == "Q":
        return True
    if t[0] == "B":
        for x in (t[2], t[3]):
            if x[0] in "BQ" and level(x) != level(t):
                return True
    return any(needs_table(x) for x in t[1:] if isinstance(x, tuple))


CORPUS = [
    B("eq", B("div", U("neg", N(7)), N(2)), U("neg", N(3))),               # fixed 2f4b2ca
    B("eq", B("mod", U("neg", N(7)), N(2)), U("neg", N(1))),
    B("eq", B("mod", N(7), U("neg", N(2))), N(1)),
    B("div", N(1), N(0)),                                                   # fixed 448e2cd (diagnostic)
    B("land", N(0), B("div", N(1), N(0))),
    B("shl", N(1), U("neg", N(1))),
    B("lt", U("neg", N(1)), N(0, True)),                                    # open: no unsigned arithmetic
    B("gt", B("sub", N(0, True), N(1)), N(0)),
    B("eq", U("bnot", N(0, True)), N(0xffffffffffffffff, False, False)),
    B("eq", B("add", N(0xffffffffffffffff, False, False), N(1)), N(0)),
    B("lt", Q(N(1), U("neg", N(1)), N(0, True)), N(0)),
    B("eq", B("shr", U("neg", N(1)), N(1)), U("neg", N(1))),
    Q(N(1), N(2), Q(N(0), N(3), N(4))), B("eq", B("sub", B("sub", N(2), N(1)), N(1)), N(0)),
    B("eq", U("lnot", N(0)), N(1)), B("eq", B("mul", U("neg", N(2)), N(3)), U("neg", N(6))),
    B("eq", B("add", N(1), B("mul", N(2), N(3))), N(7)), Q(N(1), N(0), B("lor", N(1), N(1))),
    B("eq", B("mul", B("div", N(10), N(3)), N(3)), N(9)), B("eq", B("eq", N(1), N(1)), N(1)),
    B("eq", U("bnot", N(0)), U("neg", N(1))), B("lt", B("sub", U("neg", N(9223372036854775807)), N(1)), N(0)),
    B("bor", B("band", N(6), N(3)), B("bxor", N(8), N(1))), B("lor", B("land", N(1), N(0)), N(1)),
    B("shl", N(1), N(62)), B("lt", B("shl", N(1), N(63)), N(0)), B("gt", N(9223372036854775808, False, False), N(0)),
    B("add", N(9223372036854775807), N(1)), U("plus", U("neg", U("plus", N(3)))), U("neg", U("neg", N(3))),
    # operands beyond 2^53
    B("eq", B("mod", N(9223372036854775807), N(10)), N(7)), B("eq", B("mod", N(9007199254740993), N(4)), N(1)),
    B("eq", B("div", N(9223372036854775807), N(3)), N(3074457345618258602)),
    B("mod", U("neg", N(9223372036854775807)), N(1000003)), B("lt", N(9007199254740992), N(9007199254740993)),
]

EXTRA_TEXT = [  # lexer / defined / macro-in-#if / #elif corner cases: (text, expected branch from gcc)
    ("#define X 3\n#if X + 1 == 4\nyes\n#else\nno\n#endif\n", "yes"),
    ("#if defined X\nyes\n#else\nno\n#endif\n", "no"),
    ("#define X\n#if defined(X) && !defined Y\nyes\n#else\nno\n#endif\n", "yes"),
    ("#if FOO\nyes\n#else\nno\n#endif\n", "no"),
    ("#if 0\na\n#elif 2 - 2\nb\n#elif -7 / 2 == -3\nyes\n#else\nno\n#endif\n", "yes"),
    ("#if 'a' == 97\nyes\n#else\nno\n#endif\n", "yes"),
    ("#define F(a, b) ((a) * (b))\n#if F(2, 3) - 1 == 5\nyes\n#else\nno\n#endif\n", "yes"),
]


# ----------------------------------------------------------------------------------------------
# the real preprocessor
def ser_ast(e):
    from ppci.lang.c.nodes import expressions as X
    if isinstance(e, X.NumericLiteral):
        return f"(N {e.value})"
    if isinstance(e, X.UnaryOperator):
        return f"(U {e.op} {ser_ast(e.a)})"
    if isinstance(e, X.BinaryOperator):
        return f"(B {e.op} {ser_ast(e.a)} {ser_ast(e.b)})"
    if isinstance(e, X.TernaryOperator):
        return f"(Q {ser_ast(e.a)} {ser_ast(e.b)} {ser_ast(e.c)})"
    return f"(? {type(e).__name__})"


class Capture:
    """wraps CPreProcessor._eval_tree from outside: records (tree, value) of every top-level call"""

    def __init__(self):
        from ppci.lang.c import preprocessor as P
        self.P = P
        self.log = []
        self.depth = 0
        self.orig = P.CPreProcessor._eval_tree
        cap = self

        def wrapped(pp, expr):
            cap.depth += 1
            try:
                v = cap.orig(pp, expr)
            finally:
                cap.depth -= 1
            if cap.depth == 0:
                cap.log.append((ser_ast(expr), v))
            return v
        self.wrapped = wrapped

    def __enter__(self):
        self.P.CPreProcessor._eval_tree = self.wrapped
        return self

    def __exit__(self, *a):
        self.P.CPreProcessor._eval_tree = self.orig


def run_pp(src):
    from ppci.api import preprocess
    from ppci.common import CompilerError
    logging.disable(logging.CRITICAL)
    out = io.StringIO()
    try:
        preprocess(io.StringIO(src), out)
        return "ok", out.getvalue()
    except CompilerError as e:
        return "diag", str(e.msg)
    except Exception as e:  # noqa
        return "internal:" + type(e).__name__, str(e)[:200]


def run_groups(lines):
    """lines: list of `#if` expression texts. -> per line ("ok", branch, tree, value) | (class, msg, tree?, None)"""
    res = [None] * len(lines)

    def go(idxs):
        src = "".join(f"#if {lines[i]}\nyes{i}\n#else\nno{i}\n#endif\n" for i in idxs)
        with Capture() as cap:
            st, out = run_pp(src)
        if st == "ok":
            if len(cap.log) != len(idxs):
                raise common.BrokenCheck(f"captured {len(cap.log)} evaluations for {len(idxs)} groups")
            toks = set(out.split())
            for i, (tr, v) in zip(idxs, cap.log):
                br = "yes" if f"yes{i}" in toks else ("no" if f"no{i}" in toks else "?")
                res[i] = ("ok", br, tr, v)
        elif len(idxs) == 1:
            res[idxs[0]] = (st, out, cap.log[0][0] if cap.log else None, None)
        else:
            h = len(idxs) // 2
            go(idxs[:h])
            go(idxs[h:])
    for k in range(0, len(lines), 200):
        go(list(range(k, min(k + 200, len(lines)))))
    return res


def gcc_groups(lines):
    src = "".join(f"#if {l}\nyes{i}\n#else\nno{i}\n#endif\n" for i, l in enumerate(lines))
    d = tempfile.mkdtemp(prefix="c26gcc")
    try:
        f = os.path.join(d, "t.c")
        open(f, "w").write(src)
        p = subprocess.run(["gcc", "-E", "-P", "-w", f], capture_output=True, text=True)
        if p.returncode != 0:
            return None, p.stderr[-800:]
        toks = set(p.stdout.split())
        return ["yes" if f"yes{i}" in toks else "no" for i in range(len(lines))], ""
    finally:
        for fn in os.listdir(d):
            os.unlink(os.path.join(d, fn))
        os.rmdir(d)


def lit_for(v, u):
    """a tree denoting the value `v` (spec) – for the probe `(e) == K`"""
    if u:
        return N(v, True, True)
    if v >= 0:
        return N(v)
    if v == -(1 << 63):
        return B("sub", U("neg", N((1 << 63) - 1)), N(1))
    return U("neg", N(-v))


def check(ctx):
    rng = ctx.rng
    trees = list(CORPUS)
    for _ in range(1500 if ctx.thorough else 250):
        trees.append(gen_tree(rng, rng.randint(1, 5 if ctx.thorough else 4), rng.choice([0.0, 0.0, 0.25])))
    for op in BINOPS:
        for _ in range(12 if ctx.thorough else 3):
            trees.append(gen_wide(rng, op))
    # specification values first (needed for the probes)
    spec0 = ctx.driver("C26", ["spec " + proto_tree(t) for t in trees])
    cases = []                                            # (tree, token list)
    for t, s in zip(trees, spec0):
        cases.append((t, tokens(t, 1)))
        cases.append((t, tokens(t, 1, rng, 0.25)))
        if s not in ("ok none", "bad-op"):
            v, u = s.split()[1:]
            probe = B("eq", t, lit_for(int(v), u == "u"))
            cases.append((probe, tokens(probe, 1)))
    seen, uniq = set(), []
    for t, tk in cases:
        key = " ".join(tok_proto(x) for x in tk)
        if key not in seen:
            seen.add(key)
            uniq.append((t, tk, key))
    cases = uniq
    reqs = []
    for t, tk, key in cases:
        reqs += ["parse " + key, "mval " + key, "spec " + proto_tree(t), "want " + proto_tree(t)]
    rep = ctx.driver("C26", reqs)
    if "bad-op" in rep:
        raise common.BrokenCheck("driver rejected a request")
    texts = [" ".join(tok_text(x, rng) for x in tk) for _, tk, _ in cases]
    impl = run_groups(texts)
    for n, ((t, tk, key), text, im) in enumerate(zip(cases, texts, impl)):
        mparse, mval, spec, want = rep[4 * n: 4 * n + 4]
        ctx.count("eval_if")
        ctx.count("outcome_" + (im[0] if im[0] != "ok" else "ok"))
        if needs_table(t) or has_unsigned(t):
            ctx.nontrivial(key)
        case = {"line": "#if " + text, "tokens": key, "tree": proto_tree(t)}
        # --- correspondence: parse tree and value of the real code vs the model
        if im[0] == "ok":
            i_parse, i_val = f"ok {im[2]} 0", f"ok {im[3]}"
        elif im[0] == "diag":
            i_parse, i_val = None, "err CompilerError"
        else:
            i_parse, i_val = None, "err " + im[0].split(":", 1)[1]
        if i_parse is not None and i_parse != mparse:
            ctx.disagree("parse", case, i_parse, mparse)
        if i_val != mval:
            ctx.disagree("value", case, i_val + (f" ({im[1]})" if im[0] != "ok" else ""), mval)
        # --- the parser builds the tree C's grammar prescribes (checked on the real code)
        if im[0] == "ok" and f"ok {im[2]} 0" != f"{want} 0":
            ctx.fail("if:parse-tree", f"`#if {text}` parsed as {im[2]}, C's grammar gives {want[3:]}", case, impl=im[2], spec=want)
        # --- the property: the group C prescribes survives
        if spec != "ok none":
            v = int(spec.split()[1])
            want_br = "yes" if v != 0 else "no"
            got = im[1] if im[0] == "ok" else im[0]
            if got != want_br:
                if im[0] != "ok":
                    sig = "if:" + ("rejected" if im[0] == "diag" else "internal-error:" + im[0].split(":", 1)[1])
                elif has_unsigned(t):
                    sig = "if:no-unsigned-arithmetic"
                else:
                    sig = "if:wrong-branch:" + t[0] + (":" + t[1] if t[0] in "UB" else "")
                ctx.fail(sig, f"`#if {text}` keeps the {got!r} group, C prescribes {want_br!r} (value {spec[3:]}; ppci computed {im[3] if im[0] == 'ok' else im[1]})",
                         case, impl=got, model=mval, spec=spec)
        elif im[0].startswith("internal"):
            ctx.fail("if:internal-error:" + im[0].split(":", 1)[1], f"`#if {text}` raised {im[0]} ({im[1]})", case, impl=im[0], model=mval, spec=spec)
    for k in (0, 6, 20, len(cases) - 1):
        ctx.sample({"line": "#if " + texts[k], "impl": impl[k][:2] + (impl[k][3],), "model": rep[4 * k + 1], "spec": rep[4 * k + 2]})
    # corner cases outside the model (lexer, defined, macros in #if, #elif): branch only
    for src, want_br in EXTRA_TEXT:
        ctx.count("eval_iftext")
        st, out = run_pp(src)
        got = ("yes" if "yes" in out.split() else "no") if st == "ok" else st
        if got != want_br:
            ctx.fail("iftext:" + (got if st != "ok" else "wrong-branch"), f"{src!r} -> {got}, expected {want_br}", {"source": src}, impl=got, spec=want_br)
    macro_search(ctx)
    ctx.extra_cov["exhaustive"] = False
    if ctx.thorough:
        # Spec.PPInt against gcc -E (only lines the specification defines; gcc errors on /0)
        lines, wants = [], []
        for n, ((t, tk, key), text) in enumerate(zip(cases, texts)):
            spec = rep[4 * n + 2]
            if spec != "ok none":
                lines.append(text)
                wants.append("yes" if int(spec.split()[1]) != 0 else "no")
        got, err = gcc_groups(lines)
        if got is None:
            ctx.disagree("spec-vs-gcc", {"lines": len(lines)}, "gcc: " + err, "spec: defined")
        else:
            bad = 0
            for l, w, g in zip(lines, wants, got):
                ctx.count("eval_gcc")
                if w != g:
                    bad += 1
                    if bad <= 10:
                        ctx.disagree("spec-vs-gcc", {"line": "#if " + l}, "gcc " + g, "spec " + w)
        ctx.extra_cov["spec_validated_against_gcc"] = int(ctx.counts.get("eval_gcc", 0))


# ----------------------------------------------------------------------------------------------
# macro expansion: failing-input search only (no theorem)
TOKEN_RE = re.compile(r'"(?:\\.|[^"\\])*"|\'(?:\\.|[^\'\\])*\'|[A-Za-z_]\w*|\d[\w.]*|<<=|>>=|\.\.\.|->|\+\+|--|<<|>>|<=|>=|==|!=|&&|\|\||[-+*/%&|^]=|##|\S')


def ctokens(text):
    return TOKEN_RE.findall(re.sub(r"^#.*$", "", text, flags=re.M))


def gcc_pp(src):
    d = tempfile.mkdtemp(prefix="c26gcc")
    try:
        f = os.path.join(d, "t.c")
        open(f, "w").write(src)
        p = subprocess.run(["gcc", "-E", "-P", "-w", "-std=c11", f], capture_output=True, text=True)
        return (p.returncode == 0), p.stdout
    finally:
        for fn in os.listdir(d):
            os.unlink(os.path.join(d, fn))
        os.rmdir(d)


MACRO_CORPUS = [
    ("object", "#define A 1 + B\n#define B 2 * C\n#define C (3)\nint x = A;\n"),
    ("function", "#define ADD(a, b) ((a) + (b))\nint x = ADD(1, ADD(2, 3));\n"),
    ("self", "#define foo foo + 1\nint x = foo;\n"),
    ("mutual", "#define f(a) a + g(a)\n#define g(a) a * f(a)\nint x = f(1);\n"),
    ("stringify", "#define STR(x) #x\nconst char *s = STR(a + b);\n"),
    ("stringify-quotes", "#define STR(x) #x\nconst char *s = STR(\"a\\n\" 'c');\n"),
    ("paste", "#define CAT(a, b) a ## b\nint CAT(va, r1) = CAT(1, 2);\n"),
    ("paste-expand", "#define CAT(a, b) a ## b\n#define XCAT(a, b) CAT(a, b)\n#define N 7\nint CAT(v, N) = XCAT(1, N);\n"),
    ("empty-arg", "#define F(a, b) [a|b]\nint x F(, 1) F(2, ) F(,);\n"),
    ("noargs-name", "#define F(a) a\nint F = 1; int y = F(2) + F;\n"),
    ("nested-parens", "#define F(a, b) a - b\nint x = F((1, 2), (3));\n"),
    ("variadic", "#define V(fmt, ...) f(fmt, __VA_ARGS__)\nint x = V(\"a\", 1, 2);\n"),
    ("rescan-call", "#define f(a) a * g\n#define g(a) f(a)\nint x = f(2)(9);\n"),
    ("object-to-function", "#define PLUS ADD\n#define ADD(a, b) a + b\nint x = PLUS(1, 2);\n"),
    ("undef", "#define A 1\n#undef A\nint x = A;\n"),
    ("stringify-expanded", "#define STR(x) #x\n#define XSTR(x) STR(x)\n#define V 42\nconst char *a = STR(V), *b = XSTR(V);\n"),
    ("empty-expansion-arg", "#define F \n#define H(a) a\nint r = H(F);\n"),            # fixed 9088520
    ("empty-expansion-arg2", "#define E\n#define F(a) [a]\nint x = F(E) F(E E) E;\n"),
    # the same parameter used plainly and under # / ##, both orders; the argument is an object-like macro
    ("mixed-plain-then-str", "#define M 5\n#define SHOW(x) x #x\nint r = SHOW(M);\n"),
    ("mixed-str-then-plain", "#define M 5\n#define SHOW(x) #x x\nint r = SHOW(M);\n"),
    ("mixed-plain-then-paste", "#define M 5\n#define BOTH(x) x x ## _t\nint r = BOTH(M);\n"),
    ("mixed-paste-then-plain", "#define M 5\n#define BOTH(x) k_ ## x x #x x\nint r = BOTH(M);\n"),
    ("mixed-chain", "#define M 5\n#define W M\n#define T(x) x #x x ## _t x\nint r = T(W) | T(M) | T(z);\n"),
    # hand-offs: a function-like macro name at the end of a replacement list, arguments from the following text
    ("handoff", "#define A f\n#define f(x) x A\nint r = A(1);\n"),
    ("handoff-twice", "#define A f\n#define f(x) x A\nint r = A(1)(2);\n"),
    ("handoff-chain", "#define A f\n#define B A\n#define f(x) x A B\nint r = B(1);\n"),
    ("handoff-prefix", "#define A 1 + f\n#define f(x) (x) A\nint r = A(2) | f(3);\n"),
    ("handoff-fn", "#define f(a) a*g\n#define g(a) f(a)\nint r = f(2)(9);\n"),
    ("handoff-open-paren", "#define h g(~\n#define g f\n#define f(a) f(2 * (a))\nint r = h 5);\n"),
    ("handoff-newline", "#define m(a) a(w)\n#define w 0,1\n#define f(a) f(2 * (a))\nint r = m\n(f)^m(m);\n"),
    # C11 6.10.3.5 EXAMPLE 3 (without the `##` with empty operands, see open-paste-empty), 4, 5 (non-empty part), 7
    ("std-ex3", "#define x 3\n#define f(a) f(x * (a))\n#undef x\n#define x 2\n#define g f\n#define z z[0]\n#define h g(~\n"
                "#define m(a) a(w)\n#define w 0,1\n#define t(a) a\n#define p() int\n#define q(x) x\n"
                "f(y+1) + f(f(z)) % t(t(g)(0) + t)(1);\ng(x+(3,4)-w) | h 5) & m\n(f)^m(m);\np() i[q()] = { q(1) };\n"),
    ("std-ex3-str", "#define str(x) # x\nchar c[2][6] = { str(hello), str() };\n"),
    ("std-ex4", "#define str(s) # s\n#define xstr(s) str(s)\n"
                "#define debug(s, t) printf(\"x\" # s \"= %d, x\" # t \"= %s\", x ## s, x ## t)\n#define glue(a, b) a ## b\n"
                "#define xglue(a, b) glue(a, b)\n#define HIGHLOW \"hello\"\n#define LOW LOW \", world\"\n"
                "debug(1, 2);\nglue(HIGH, LOW);\nxglue(HIGH, LOW)\n"),
    ("std-ex5", "#define t(x,y,z) x ## y ## z\nint j[] = { t(1,2,3) };\n"),
    ("std-ex7", "#define debug(...) fprintf(stderr, __VA_ARGS__)\n#define showlist(...) puts(#__VA_ARGS__)\n"
                "#define report(test, ...) ((test)?puts(#test): printf(__VA_ARGS__))\ndebug(\"Flag\");\n"
                "debug(\"X = %d\\n\", x);\nshowlist(The first, second, and third items.);\n"
                "report(x>y, \"x is %d but y is %d\", x, y);\n"),
    ("open-paste-empty", "#define r(x,y) x ## y\nint a[] = { r(2,3), r(4,), r(,5), r(,) };\n"),
    ("open-paste-empty3", "#define t(x,y,z) x ## y ## z\nint j[] = { t(6,,7) };\n"),
    # the three open findings (minimal inputs)
    ("open-hideset", "#define foo foo + 1\n#define F(b) b\nint r = F(foo);\n"),
    ("open-stringify-spacing", "#define STR(x) #x\nconst char *s = STR(a+b);\n"),
    ("open-paste-pp-number", "#define CAT(a, b) a ## b\nint x = CAT(1, x);\n"),
    ("open-funclike-paren", "#define C (x)\n#define H(a) - -\nint r = H C;\n"),
]


def gen_macro_set(rng, family="general"):
    """family "handoff": only hand-offs (no `#`, `##`, no macro names inside arguments, no parenthesised replacement
    tokens), so that none of the other known differences can occur in it.  family "general": object-/function-like macros, nested, self/mutually recursive, `#`, `##`, and HAND-OFFS: a function-like
    macro name as the LAST token of a replacement list whose `(arguments)` come from the text after the invocation
    (`#define A f` … `A(1)`), also in chains (`A -> B -> f`, the body of `f` mentioning `A` again)"""
    names = ["A", "B", "C", "F", "G", "H"]
    chosen = rng.sample(names, rng.randint(2, 5))
    kinds = {nm: (0 if rng.random() < 0.5 else rng.randint(1, 2)) for nm in chosen}
    fnames = [n for n in chosen if kinds[n] > 0]
    defs, pastes, tail = [], set(), {}
    ho = family == "handoff"
    if ho and not fnames:
        kinds[chosen[0]] = 1
        fnames = [chosen[0]]
    for nm in chosen:
        hand_off = fnames and rng.random() < (0.7 if ho else 0.35)
        if kinds[nm] == 0:
            toks = [rng.choice(names + ["1", "2", "+", "*", "x"] + ([] if ho else ["(x)"])) for _ in range(rng.randint(0 if hand_off else 1, 4))]
            if hand_off:
                t = rng.choice(fnames + [n for n in chosen if n in tail])     # directly, or through another hand-off
                toks.append(t)
                tail[nm] = t
            defs.append(f"#define {nm} {' '.join(toks)}")
        else:
            params = ["a", "b"][: kinds[nm]]
            pool = params + names + ["1", "+", "*", "-"]
            parts = [rng.choice(pool) for _ in range(rng.randint(1, 5))]
            if not ho and rng.random() < 0.25:
                parts.insert(rng.randrange(len(parts) + 1), "#" + rng.choice(params))
            if not ho and rng.random() < 0.25 and len(params) == 2:
                parts.append("a ## b")
            elif hand_off:
                t = rng.choice(fnames)
                parts.append(t)
                tail[nm] = t
            defs.append(f"#define {nm}({', '.join(params)}) " + " ".join(parts))
            if "##" in " ".join(parts):
                pastes.add(nm)

    def arglist(nm):
        if ho:
            pool = ["1", "x", "y + 2", "7"]                 # no macro name inside an argument
        else:
            pool = ["1", "x", "v2", rng.choice(chosen)] if nm in pastes else ["1", "x", "y + 2", "(3, 4)", "a+b", rng.choice(chosen)]
        return "(" + ", ".join(rng.choice(pool) for _ in range(kinds[nm])) + ")"

    def final_fn(nm, seen=()):
        """the function-like macro the hand-off chain starting at `nm` ends in (None: a cycle of object-like ones)"""
        while nm in tail and kinds[nm] == 0:
            if nm in seen:
                return None
            seen += (nm,)
            nm = tail[nm]
        return nm if kinds.get(nm, 0) > 0 else None

    uses = []
    for _ in range(rng.randint(1, 3)):
        nm = rng.choice(chosen)
        use = nm + (arglist(nm) if kinds[nm] else "")
        # arguments for the name handed off at the end of the replacement list come from the following text
        t, hops = (tail.get(nm) if kinds[nm] else final_fn(nm)), 0
        while t and kinds.get(t, 0) > 0 and hops < 2 and rng.random() < 0.85:
            use += arglist(t)
            t = tail.get(t)
            hops += 1
        uses.append(use)
    return "\n".join(defs) + "\nint r = " + " | ".join(uses) + ";\n"


def gen_mixed_use(rng):
    """family "mixed-use": function-like macros whose body uses the SAME parameter plainly and as an operand of `#` /
    `##`, in both orders; arguments are single tokens, some of them object-like macros (no cycles, no empty
    arguments, nothing that stringify spacing could change)"""
    objs = {"M": "5", "N": "7", "P": "q", "W": "M"}               # W -> M -> 5: a chain, no cycle
    defs = [f"#define {k} {v}" for k, v in objs.items()]
    uses = []
    for nm in rng.sample(["S1", "S2", "S3", "S4"], rng.randint(2, 4)):
        parts = []
        for _ in range(rng.randint(2, 4)):
            parts.append(rng.choice(["x", "#x", "x ## _t", "k_ ## x", "x", "#x", "+", "1"]))
        if not any(p_ == "x" for p_ in parts):
            parts.insert(rng.randrange(len(parts) + 1), "x")      # at least one plain use …
        if not any("#" in p_ for p_ in parts):
            parts.insert(rng.randrange(len(parts) + 1), rng.choice(["#x", "x ## _t"]))    # … and one under # / ##
        defs.append(f"#define {nm}(x) " + " ".join(parts))
        for _ in range(rng.randint(1, 2)):
            uses.append(f"{nm}({rng.choice(list(objs) + ['z', 'y2'])})")
    return "\n".join(defs) + "\nint r = " + " | ".join(uses) + ";\n"


def _norm_strings(toks):
    return [re.sub(r"\s+", "", t) if t.startswith('"') else t for t in toks]


def _has_cycle(src):
    """some macro name occurs in its own (transitive) replacement list"""
    bodies = {}
    for m in re.finditer(r"^#define\s+(\w+)(\([^)]*\))?(.*)$", src, flags=re.M):
        bodies[m.group(1)] = set(re.findall(r"[A-Za-z_]\w*", m.group(3)))
    for start in bodies:
        seen, todo = set(), [start]
        while todo:
            n = todo.pop()
            for d in bodies.get(n, ()):
                if d == start:
                    return True
                if d in bodies and d not in seen:
                    seen.add(d)
                    todo.append(d)
    return False


def _paren_from_expansion(src):
    """an object-like macro whose replacement list starts with `(` and a function-like macro exist: a
    function-like name followed by that macro is NOT an invocation in C (the next token is not `(`)"""
    obj_paren = re.search(r"^#define\s+\w+\s+\(", src, flags=re.M)
    funclike = re.search(r"^#define\s+\w+\(", src, flags=re.M)
    return bool(obj_paren and funclike)


def _macro_defs(src):
    """name -> (is function-like, tokens of the replacement list)"""
    out = {}
    for m in re.finditer(r"^#define\s+(\w+)(\([^)]*\))?(.*)$", src, flags=re.M):
        out[m.group(1)] = (m.group(2) is not None, ctokens(m.group(3)))
    return out


def _fn_name_at_end(src):
    """some replacement list ends in the name of a function-like macro (its arguments must come from later text)"""
    d = _macro_defs(src)
    return any(body and body[-1] in d and d[body[-1]][0] for _, body in d.values())


def _direction(src, got, want):
    """does ppci leave a macro name unexpanded that gcc expands (under), or expand one that gcc leaves (over)?"""
    names = set(_macro_defs(src))
    under = any(got.count(n) > want.count(n) for n in names)
    over = any(got.count(n) < want.count(n) for n in names) or (not under and len(got) > len(want))
    return "under" if under and not over else "over" if over and not under else "mixed" if under else "none"


def classify_macro(src, st, pout, got, want, family="general"):
    """signature of a difference between ppci and gcc -E on a macro set, keyed by the construct involved.  Sets of the
    family "handoff" contain no `#`, `##`, no macro name inside an argument and no parenthesised replacement tokens:
    none of the known differences can occur in them, so every difference there gets the hand-off signature and is
    never absorbed by the open hide-set finding (which needs a macro name inside an argument)."""
    if family == "handoff":
        if st != "ok":
            return "macro:fn-name-at-end-of-replacement:" + st
        return "macro:fn-name-at-end-of-replacement:expansion-differs"
    if family == "mixed-use":
        if st != "ok":
            return "macro:param-plain-then-stringify/paste:" + st
        return "macro:param-plain-then-stringify/paste:expansion-differs"
    if st == "diag":
        m = re.search(r'Invalidly glued "([^"]*)"', pout)
        if m and re.fullmatch(r"\d\w*", m.group(1)):
            return "macro:paste-pp-number"
        if m and m.group(1).endswith("##"):
            return "macro:paste-empty-operand"
        if "arguments, expected" in pout and _paren_from_expansion(src):
            return "macro:funclike-name-then-paren-from-expansion"
        if "arguments, expected" in pout and _has_cycle(src):
            # the re-expansion of a self-referential name (open hide-set finding) puts a `(`…`)` group from its
            # replacement list behind a function-like macro name: a spurious invocation with too few arguments
            return "macro:arg-prescan-loses-hideset"
        return "macro:rejected"
    if st != "ok":
        if "LineParser" in pout and "##" in src:
            return "macro:paste-empty-operand"
        return "macro:internal-error:" + st.split(":", 1)[1]
    if _norm_strings(got) == _norm_strings(want):
        return "macro:stringify-spacing"
    d = _direction(src, _norm_strings(got), _norm_strings(want))
    if _paren_from_expansion(src) and d in ("over", "none"):
        return "macro:funclike-name-then-paren-from-expansion"
    if _has_cycle(src):
        # the open finding: a name left unexpanded inside a fully expanded argument is expanded later (ppci expands MORE)
        return "macro:arg-prescan-loses-hideset"
    if _fn_name_at_end(src):
        return "macro:fn-name-at-end-of-replacement:expansion-differs"
    return "macro:expansion-differs:" + d


MACRO_NAMES = ["A", "B", "C", "F", "G", "H", "N", "V", "X", "ADD", "PLUS", "STR", "XSTR", "CAT", "XCAT", "foo", "f", "g", "h", "M", "P", "W", "S1", "S2", "S3", "S4", "SHOW", "BOTH", "T", "m", "w", "t", "p", "q", "r", "x", "z",
               "str", "xstr", "debug", "glue", "xglue", "HIGHLOW", "LOW", "showlist", "report", "E"]


def gcc_pp_many(srcs):
    """one gcc -E -P run for all macro sets: every set is followed by a marker line and #undef of all names.
    Returns the output per set; None for a set in which gcc reports an error (wrong argument count, invalid paste)."""
    undef = "".join(f"#undef {n}\n" for n in MACRO_NAMES)
    chunks, first_line = [], []
    line = 1
    for i, src in enumerate(srcs):
        first_line.append(line)
        chunk = f"{src}@@@ {i}\n{undef}"
        chunks.append(chunk)
        line += chunk.count("\n")
    d = tempfile.mkdtemp(prefix="c26gcc")
    try:
        f = os.path.join(d, "t.c")
        open(f, "w").write("".join(chunks))
        p = subprocess.run(["gcc", "-E", "-P", "-w", "-std=c11", f], capture_output=True, text=True)
    finally:
        for fn in os.listdir(d):
            os.unlink(os.path.join(d, fn))
        os.rmdir(d)
    parts, cur = [], []
    for ln in p.stdout.splitlines():
        if ln.startswith("@@@"):
            parts.append("\n".join(cur))
            cur = []
        else:
            cur.append(ln)
    if len(parts) != len(srcs):
        return None
    import bisect
    for m in re.finditer(r"t\.c:(\d+):\d+: error", p.stderr):
        k = bisect.bisect_right(first_line, int(m.group(1))) - 1
        parts[k] = None
    return parts


def macro_search(ctx):
    cases = [(k, s, "handoff" if k.startswith("handoff") else "mixed-use" if k.startswith("mixed") else "general")
             for k, s in MACRO_CORPUS]
    n = 400 if ctx.thorough else 60
    for i in range(n):
        fam = "handoff" if i % 2 else "general"
        cases.append(("gen-" + fam, gen_macro_set(ctx.rng, fam), fam))
    for i in range(n // 3):
        cases.append(("gen-mixed-use", gen_mixed_use(ctx.rng), "mixed-use"))
    gouts = gcc_pp_many([s for _, s, _ in cases])
    if gouts is None:                      # a marker got lost: fall back to one run per set
        gouts = []
        for _, s, _ in cases:
            ok, g = gcc_pp(s)
            gouts.append(g if ok else None)
    for (kind, src, fam), gout in zip(cases, gouts):
        if gout is None:
            ctx.count("macro_gcc_rejects")
            continue
        ctx.count("eval_macro")
        ctx.count("eval_macro_" + fam)
        st, pout = run_pp(src)
        want = ctokens(gout)
        got = ctokens(pout) if st == "ok" else st
        if got != want:
            sig = classify_macro(src, st, pout, got, want, fam)
            ctx.count("macro_diff_" + sig.split(":", 1)[1])
            ctx.fail(sig, f"{src!r}: ppci -> {' '.join(got) if isinstance(got, list) else got + ' ' + pout[:80]!r}, gcc -E -> {' '.join(want)!r}",
                     {"source": src, "kind": kind}, impl=got, spec=want)


def replay(ctx, rp):
    print(json.dumps(rp.get("case", {}), indent=1))
    check(ctx)
