"""C22: reduce a failing random program to the smallest module that still shows the same difference class on the same
target (greedy delta debugging on the module description).  A candidate counts only if the reference interpreter runs
it without getting stuck (dynamic validity) and ppci still differs from the reference with the same class on the last call.

The reduced function body gives the signature label of the failure: its numeric / memory / control opcodes joined by ';'
(e.g. "f64.convert_i32_s;f64.mul"), so that a random-program failure is reported under the instruction sequence
responsible and not under the anonymous label "program"."""
import copy

from . import c22_gen as G
from . import c22_exec as X
from . import c22_run as R

PLUMBING = ("local.get", "local.set", "local.tee", "drop", "nop", "return")


def zero_body(result):
    return [[f"{t}.const", 0] for t in result]


def bodies(d):
    """every instruction list of the module: (container, key) pairs, outermost first"""
    out = []

    def walk(lst):
        for i in lst:
            if i[0] in ("block", "loop"):
                out.append((i, 3))
                walk(i[3])
            elif i[0] == "if":
                out.append((i, 3))
                out.append((i, 4))
                walk(i[3])
                walk(i[4])
    for f in d["funcs"]:
        out.append((f, "body"))
        walk(f["body"])
    return out


def candidates(d, calls, limit=150):
    """smaller variants of (d, calls), most aggressive first"""
    out = []
    if len(calls) > 1:
        out.append((copy.deepcopy(d), calls[-1:]))
        for k in range(len(calls) - 1):
            out.append((copy.deepcopy(d), calls[:k] + calls[k + 1:]))
    # stub out functions
    for k, f in enumerate(d["funcs"]):
        res = d["types"][f["type"]][1]
        if f["body"] != zero_body(res):
            c = copy.deepcopy(d)
            c["funcs"][k]["body"] = zero_body(res)
            out.append((c, calls))
    if d.get("start") is not None:
        c = copy.deepcopy(d)
        c["start"] = None
        out.append((c, calls))
    if d.get("datas"):
        c = copy.deepcopy(d)
        c["datas"] = []
        out.append((c, calls))
    # structural edits inside bodies: positions are addressed by their index in bodies()
    nb = len(bodies(d))
    edits = []
    for bi in range(nb):
        cont, key = bodies(d)[bi]
        n = len(cont[key])
        for width in sorted({n, n // 2, n // 4, 8, 4, 2, 1}, reverse=True):
            if width < 1 or width > n:
                continue
            for i in range(0, n - width + 1, max(1, width // 2)):
                edits.append((width, bi, i))
    edits.sort(key=lambda e: -e[0])
    for width, bi, i in edits[:limit * 4]:
        c = copy.deepcopy(d)
        cc, kk = bodies(c)[bi]
        del cc[kk][i:i + width]
        out.append((c, calls))
    # unwrap a structured instruction into one of its bodies
    for bi in range(nb):
        cont, key = bodies(d)[bi]
        for i, ins in enumerate(cont[key]):
            if ins[0] in ("block", "loop", "if"):
                for sub in ((3,) if ins[0] != "if" else (3, 4)):
                    c = copy.deepcopy(d)
                    cc, kk = bodies(c)[bi]
                    cc[kk][i:i + 1] = copy.deepcopy(ins[sub])
                    out.append((c, calls))
    return out


def classes(d, calls, target, parsed, job):
    """difference classes (per call and of the final state) of this candidate, evaluated like a random program"""
    t = {"id": "shrink", "kind": "program", "name": "program", "desc": d, "calls": [(c[0], c[1], "program") for c in calls]}
    found = set()
    try:
        R.evaluate(t, target, job, parsed, lambda sig, what, case, **kw: found.add(sig.split(":", 2)[2]), {})
    except RuntimeError:
        return set()
    return found


def shrink(d, calls, target, driver, want, rounds=60, per_round=100, workers=4, seconds=180):
    """d: module description, calls: [(fi, args)], want: the class to preserve.  Returns (d, calls, rounds used).
    Stops after `rounds` reference runs or `seconds` of wall time."""
    import time
    t_end = time.time() + seconds
    d, calls = copy.deepcopy(d), [(c[0], tuple(c[1])) for c in calls]

    def test(cands):
        """indices of the candidates that are valid and still show `want`"""
        reqs = [G.request(G.prepare(c), cs, R.FUEL) for c, cs in cands]
        parsed = [R.parse_reply(r) for r in driver(reqs)]
        ok = [k for k, p in enumerate(parsed) if p[0] == "inst-ok" and len(p[1]) == len(cands[k][1]) and all(o[0] in ("v", "trap") for o in p[1])]
        jobs = [X.Job(k, cands[k][0], target, list(cands[k][1]), False, 30) for k in ok]
        X.run_jobs(jobs, workers=workers)
        return [k for k, j in zip(ok, jobs) if want in classes(cands[k][0], cands[k][1], target, parsed[k], j)]
    used = 1
    # phase 1: functions that can be stubbed and calls that can be dropped - tested one by one, then all together
    singles = []
    for k, f in enumerate(d["funcs"]):
        res = d["types"][f["type"]][1]
        if f["body"] != zero_body(res):
            c = copy.deepcopy(d)
            c["funcs"][k]["body"] = zero_body(res)
            singles.append((("stub", k), (c, calls)))
    for k in range(len(calls)):
        if len(calls) > 1:
            singles.append((("drop", k), (copy.deepcopy(d), calls[:k] + calls[k + 1:])))
    if singles:
        hits = test([c for _e, c in singles])
        stubs = [singles[h][0][1] for h in hits if singles[h][0][0] == "stub"]
        drops = [singles[h][0][1] for h in hits if singles[h][0][0] == "drop"]
        if hits:
            c = copy.deepcopy(d)
            for k in stubs:
                c["funcs"][k]["body"] = zero_body(c["types"][c["funcs"][k]["type"]][1])
            cs = [x for k, x in enumerate(calls) if k not in drops] or calls[-1:]
            used += 1
            if test([(c, cs)]):
                d, calls = c, cs
            else:
                d, calls = singles[hits[0]][1]
    # phase 2: greedy structural reduction
    offset = 0
    while used < rounds and time.time() < t_end:
        cands = candidates(d, calls)
        cands = cands[offset:offset + per_round]
        if not cands:
            break
        used += 1
        hits = test(cands)
        if not hits:
            offset += per_round
            continue
        d, calls = cands[hits[0]]
        offset = 0
    return d, calls, used


def opcode_label(d, fi=None, maxops=6):
    """the opcodes of function fi - or of all functions - (plumbing left out) joined by ';'; None if more than maxops"""
    ops = []

    def walk(lst):
        for i in lst:
            if i[0] in ("block", "loop"):
                ops.append(i[0])
                walk(i[3])
            elif i[0] == "if":
                ops.append("if")
                walk(i[3])
                walk(i[4])
            elif i[0] not in PLUMBING and not i[0].endswith(".const"):
                ops.append(i[0])
    for k, f in enumerate(d["funcs"]):
        if fi is None or k == fi:
            walk(f["body"])
    if not ops or len(ops) > maxops:
        return None
    return ";".join(ops)
