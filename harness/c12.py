"""C12 linker placement / content preservation.

Correspondence of Model.Linker (lean/PpciVerif/Model/Linker.lean) with the real
`ppci.api.link` on generated object sets and layouts (full structural diff of the
linked object), and evaluation of the property itself on every real output
(independent Python checks; `overfull` and well-formedness come from the Lean
specification Spec.Link through the driver)."""
import io
import json
import time

from . import common

PROP = "C12"
LEAN_PROPS = "PpciVerif/Props/C12.lean"
LEAN_TARGETS = ["PpciVerif.Props.C12", "Drivers.C12"]
LEVEL = "proof"
LEVEL_TEXT = (
    "Lean theorems about an executable hand model of Linker.link / inject_object / merge_global_symbol / layout_sections / "
    "check_undefined_symbols / Image.data / get_symbol_id_value, for ALL object lists and ALL layouts (induction over objects, "
    "sections, symbols and layout inputs; no bounds, no well-formedness hypothesis): every input section's bytes stand unchanged at "
    "its recorded offset of the output section, recorded offsets are multiples of the piece alignment, pieces are disjoint and ordered; "
    "every defined input symbol and every DEFINESYMBOL resolves to final section address + recorded offset + value; after layout "
    "every placed section has addr % align = 0 and lies inside [mem.location, mem.location+mem.size], the sections of an image are "
    "an ascending non-overlapping chain, Image.data succeeds and restricted to a section equals the section (Image.data in general "
    "returns bytes exactly on such chains); every successful link places each section once; link_fails_full: a multiply defined "
    "global, an undefined global (non-partial link) or an overfull memory (abstract (alignment,size) placement of Spec.Link) makes "
    "EVERY request fail; on well-formed requests these are the only reasons and the error is CompilerError (link_fails_iff); "
    "two-stage links (a linked object linked again, alone or with more objects) preserve the original contents and symbol values. "
    "Piece addresses are aligned when alignments are powers of two (the only place that is needed, witness included). Relocation "
    "application/relaxation are not modelled (C10/C11/C13): relocation sites are exempt, records are only rebased.")
LEVEL_NOTE = (
    "trusted: Lean kernel; axioms propext/Classical.choice/Quot.sound; the hand model <-> linker.py/objectfile.py correspondence is "
    "sampled through the real ppci.api.link (not proved); Python dict/identity semantics modelled by name lookup; addresses, sizes, "
    "alignments, values are naturals in the model (negative memory locations only probed on the real linker); layout-file parsing, "
    "debug info, archives, relocation arithmetic not covered")
TECHNIQUE = ("Lean 4 proof by induction over a hand model of the linker + differential correspondence with the real link() "
             "(full structural diff) + property evaluation on every real output")
RULE = ("cases = fixed corpus + generated requests (1-4 objects over a small pool of section/symbol names, sizes 0..300, alignments "
        "1,2,4,..,64 and non-powers of two and 0, local/global/undefined/duplicate symbols, random symbol ids, relocation records, entry "
        "symbols, extra symbols, partial links and re-links of real partial outputs, layouts with 1-3 memories, SECTION/SECTIONDATA/"
        "DEFINESYMBOL/ALIGN inputs, sections absent from the layout / from the objects, memory sizes need-1/need/need+1, ill-formed "
        "layouts, sections placed twice) + direct Image.data cases + negative-location probe of the real linker. distinct = distinct request; non-trivial = some output section merged from >=2 pieces, or a "
        "layout placing >=2 sections, or an error outcome. Every request is additionally linked a second time from the same in-memory "
        "objects (and under a shifted layout) and its input objects are compared field by field before/after")
TRUSTED = [
    "hand model Model.Linker of ppci/binutils/linker.py + objectfile.py (functional update for in-place mutation, name lookup for dicts), tied by differential run through ppci.api.link on every check",
    "Spec.Link (which globals a request defines/references; abstract (alignment,size) placement defining `need`/`overfull`; well-formedness)",
    "observation of section_offsets by wrapping objectfile.Section.add_data from outside (falls back to the model's trace)",
]
ASSUMPTIONS = [
    "addresses, sizes, alignments and symbol values are non-negative integers",
    "relocation application (do_relocations) only writes inside [offset, offset+reloc.size()) of its section",
    "section names are unique inside one input object (hypothesis of offsets_lookup only)",
]

ARCH = "x86_64"
RELOC_SIZE = {"abs64": 8, "abs32": 4, "rel32": 4}

# --------------------------------------------------------------------------------------------
# case construction helpers
# --------------------------------------------------------------------------------------------


def sec(name, data=b"", alignment=4, address=0):
    return {"name": name, "address": address, "alignment": alignment, "data": bytes(data).hex()}


def sym(id, name, binding="global", value=None, section=None, typ="object", size=0):
    return {"id": id, "name": name, "binding": binding, "value": value, "section": section, "typ": typ, "size": size}


def rel(typ, symbol_id, section, offset, addend=0):
    return {"typ": typ, "symbol_id": symbol_id, "section": section, "offset": offset, "addend": addend}


def obj(sections=(), symbols=(), relocs=(), entry=None):
    return {"sections": list(sections), "symbols": list(symbols), "relocs": list(relocs), "entry": entry}


def mem(name, location, size, inputs):
    return {"name": name, "location": location, "size": size, "inputs": [list(i) for i in inputs]}


def case(objs, layout=None, partial=False, entry=None, extras=(), layout_entry=None, via_text=False, tag=""):
    lay = None
    if layout is not None:
        lay = {"entry": layout_entry, "memories": list(layout)}
    return {"objs": list(objs), "layout": lay, "partial": partial, "entry": entry,
            "extras": [list(e) for e in extras], "via_text": via_text, "tag": tag}


# --------------------------------------------------------------------------------------------
# request line for the Lean driver
# --------------------------------------------------------------------------------------------

def hx(h):
    return h if h else "-"


def oname(n):
    return "-" if n is None else "=" + n


def onat(n):
    return "-" if n is None else str(n)


def req_payload(c):
    t = ["1" if c["partial"] else "0", oname(c["entry"]), "X", str(len(c["extras"]))]
    for n, v in c["extras"]:
        t += [n, str(v)]
    t += ["O", str(len(c["objs"]))]
    for o in c["objs"]:
        t += ["S", str(len(o["sections"]))]
        for s in o["sections"]:
            t += [s["name"], str(s["address"]), str(s["alignment"]), hx(s["data"])]
        t += ["Y", str(len(o["symbols"]))]
        for s in o["symbols"]:
            t += [str(s["id"]), s["name"], "g" if s["binding"] == "global" else "l", onat(s["value"]),
                  oname(s["section"]), s["typ"], str(s["size"])]
        t += ["R", str(len(o["relocs"]))]
        for r in o["relocs"]:
            t += [r["typ"], str(r["symbol_id"]), r["section"], str(r["offset"]), str(r["addend"])]
        t += ["E", onat(o["entry"])]
    t.append("L")
    lay = c["layout"]
    if lay is None:
        t.append("-")
    else:
        t += ["+", oname(lay["entry"]), str(len(lay["memories"]))]
        for m in lay["memories"]:
            t += [m["name"], str(m["location"]), str(m["size"]), str(len(m["inputs"]))]
            for k, v in m["inputs"]:
                t += [k, str(v)]
    return " ".join(t)


class Toks:
    def __init__(self, s):
        self.t = s.split()
        self.i = 0

    def next(self):
        self.i += 1
        return self.t[self.i - 1]

    def nat(self):
        return int(self.next())

    def lit(self, s):
        x = self.next()
        assert x == s, (x, s)

    def onat(self):
        x = self.next()
        return None if x == "-" else int(x)

    def oname(self):
        x = self.next()
        return None if x == "-" else x[1:]

    def hex(self):
        x = self.next()
        return "" if x == "-" else x


def parse_link_reply(line):
    """-> ('err', kind) | ('ok', result dict)"""
    if line.startswith("err "):
        return ("err", line[4:].strip())
    t = Toks(line)
    t.lit("ok")
    res = {}
    t.lit("S")
    res["sections"] = [[t.next(), t.nat(), t.nat(), t.hex()] for _ in range(t.nat())]
    t.lit("Y")
    res["symbols"] = [[t.nat(), t.next(), {"g": "global", "l": "local"}[t.next()], t.onat(), t.oname(), t.next(), t.nat()]
                      for _ in range(t.nat())]
    t.lit("R")
    res["relocs"] = [[t.next(), t.nat(), t.next(), t.nat(), int(t.next())] for _ in range(t.nat())]
    t.lit("I")
    imgs = []
    for _ in range(t.nat()):
        n, a, k = t.next(), t.nat(), t.nat()
        imgs.append([n, a, [t.next() for _ in range(k)]])
    res["images"] = imgs
    t.lit("E")
    res["entry"] = t.onat()
    t.lit("T")
    tr = []
    for _ in range(t.nat()):
        offs = [[t.next(), t.nat()] for _ in range(t.nat())]
        ids = [t.nat() for _ in range(t.nat())]
        tr.append({"offsets": offs, "ids": ids})
    res["trace"] = tr
    t.lit("V")
    res["symvalues"] = [(lambda x: x if x.startswith("!") else int(x))(t.next()) for _ in range(t.nat())]
    t.lit("D")
    res["imagedata"] = [t.hex() for _ in range(t.nat())]
    assert t.i == len(t.t), "trailing tokens"
    return ("ok", res)


def parse_spec_reply(line):
    t = Toks(line)
    t.lit("ok")
    sp = {}
    for k in ("wf", "dup", "undef", "overfull"):
        a, b = t.next().split("=")
        assert a == k
        sp[k] = b == "1"
    x = t.next()
    assert x.startswith("plans=")
    x = x[6:]
    if x == "-":
        sp["plans"] = None
    else:
        plans = []
        for _ in range(int(x)):
            need, k = t.nat(), t.nat()
            plans.append({"need": need, "placed": [[t.next(), t.nat()] for _ in range(k)]})
        sp["plans"] = plans
    return sp


# --------------------------------------------------------------------------------------------
# the real implementation
# --------------------------------------------------------------------------------------------

def build_objects(c):
    from ppci.api import get_arch
    from ppci.binutils.objectfile import ObjectFile, Section, RelocationEntry
    arch = get_arch(ARCH)
    objs = []
    for o in c["objs"]:
        of = ObjectFile(arch)
        for s in o["sections"]:
            so = Section(s["name"])
            so.address = s["address"]
            so.alignment = s["alignment"]
            so.data = bytearray(bytes.fromhex(s["data"]))
            of.add_section(so)
        for s in o["symbols"]:
            of.add_symbol(s["id"], s["name"], s["binding"], s["value"], s["section"], s["typ"], s["size"])
        for r in o["relocs"]:
            of.add_relocation(RelocationEntry(r["typ"], r["symbol_id"], r["section"], r["offset"], r["addend"]))
        of.entry_symbol_id = o["entry"]
        objs.append(of)
    return objs


def layout_text(lay):
    out = []
    if lay["entry"]:
        out.append(f"ENTRY({lay['entry']})")
    for m in lay["memories"]:
        out.append(f"MEMORY {m['name']} LOCATION=0x{m['location']:x} SIZE={m['size']} {{")
        for k, v in m["inputs"]:
            out.append({"S": f" SECTION({v})", "D": f" SECTIONDATA({v})", "Y": f" DEFINESYMBOL({v})", "A": f" ALIGN({v})"}[k])
        out.append("}")
    return "\n".join(out) + "\n"


def build_layout(c):
    from ppci.binutils import layout as L
    lay = c["layout"]
    if lay is None:
        return None
    if c.get("via_text"):
        return L.Layout.load(io.StringIO(layout_text(lay)))
    lo = L.Layout()
    if lay["entry"]:
        lo.entry = L.EntrySymbol(lay["entry"])
    for m in lay["memories"]:
        mo = L.Memory(m["name"])
        mo.location = m["location"]
        mo.size = m["size"]
        for k, v in m["inputs"]:
            mo.add_input({"S": L.Section, "D": L.SectionData, "Y": L.SymbolDefinition, "A": L.Align}[k](v))
        lo.add_memory(mo)
    return lo


def exc_name(e):
    from ppci.common import CompilerError
    if isinstance(e, CompilerError):
        return "CompilerError"
    return type(e).__name__


def run_impl(c):
    """-> (('ok', ObjectFile) | ('err', kind), objs, observed offsets {(k,i): off})"""
    import logging
    from ppci.api import link
    from ppci.binutils import objectfile
    logging.getLogger("linker").disabled = True
    objs = build_objects(c)
    layout = build_layout(c)
    before = snapshot_inputs(objs)
    piece_of = {}
    for k, of in enumerate(objs):
        for i, s in enumerate(of.sections):
            piece_of[id(s.data)] = (k, i)
    observed = {}
    orig = objectfile.Section.add_data

    def add_data(self, data):
        key = piece_of.get(id(data))
        if key is not None and key not in observed:
            observed[key] = len(self.data)
        return orig(self, data)

    objectfile.Section.add_data = add_data
    try:
        try:
            out = link(objs, layout=layout, partial_link=c["partial"],
                       extra_symbols=dict((n, v) for n, v in c["extras"]) if c["extras"] else None,
                       entry=c["entry"])
            r = ("ok", out)
        except Exception as e:  # noqa
            r = ("err", exc_name(e))
    finally:
        objectfile.Section.add_data = orig
    _ALIAS[id(c)] = aliasing_checks(c, objs, before, r)
    return r, objs, observed


_ALIAS = {}


def snapshot_inputs(objs):
    """own field walk over the input ObjectFiles (nothing of ppci's __eq__/serialize is used)"""
    snap = []
    for o in objs:
        snap.append({
            "sections": [(s.name, s.address, s.alignment, bytes(s.data)) for s in o.sections],
            "symbols": [(s.id, s.name, s.binding, s.value, s.section, s.typ, s.size) for s in o.symbols],
            "relocations": [(r.reloc_type, r.symbol_id, r.section, r.offset, r.addend) for r in o.relocations],
            "images": [(i.name, i.address, [x.name for x in i.sections]) for i in o.images],
            "entry": o.entry_symbol_id,
        })
    return snap


def link_outcome(c, objs, layout):
    from ppci.api import link
    try:
        out = link(objs, layout=layout, partial_link=c["partial"],
                   extra_symbols=dict((n, v) for n, v in c["extras"]) if c["extras"] else None, entry=c["entry"])
        return ["ok", json.loads(json.dumps(canon_obj(out)))]
    except Exception as e:  # noqa
        return ["err", exc_name(e)]


def shifted(c, delta):
    c2 = json.loads(json.dumps({k: v for k, v in c.items() if not k.startswith("_")}))
    for m in c2["layout"]["memories"]:
        m["location"] += delta
    return c2


def first_diff(a, b):
    if a[0] != b[0] or a[0] == "err":
        return None if a == b else ("outcome", a if a[0] == "err" else "ok", b if b[0] == "err" else "ok")
    for k in a[1]:
        if a[1][k] != b[1][k]:
            return (k, a[1][k], b[1][k])
    return None


def aliasing_checks(c, objs, before, first):
    """(1) the link must not change its input objects; (2) linking the SAME in-memory objects again
    (same layout, then a shifted layout) must give what fresh copies give."""
    found = []
    first_c = ["ok", json.loads(json.dumps(canon_obj(first[1])))] if first[0] == "ok" else ["err", first[1]]

    def inputs_changed(stage):
        after = snapshot_inputs(objs)
        if after != before:
            k = next(i for i, (x, y) in enumerate(zip(before, after)) if x != y)
            f = next(key for key in before[k] if before[k][key] != after[k][key])
            found.append(("link:input-object-mutated", f"{stage}: input object {k} changed in field {f}",
                          {"obj": k, "field": f, "before": repr(before[k][f])[:300], "after": repr(after[k][f])[:300]}))
            return True
        return False

    if inputs_changed("first link"):
        return found
    second = link_outcome(c, objs, build_layout(c))
    d = first_diff(first_c, second)
    if d:
        found.append(("link:second-link-differs", f"linking the same in-memory objects a second time differs in {d[0]}",
                      {"field": d[0], "first": repr(d[1])[:300], "second": repr(d[2])[:300]}))
    if inputs_changed("second link"):
        return found
    if c["layout"] is not None and c["layout"]["memories"]:
        c2 = shifted(c, 24)
        used = link_outcome(c2, objs, build_layout(c2))
        fresh = link_outcome(c2, build_objects(c2), build_layout(c2))
        d = first_diff(fresh, used)
        if d:
            found.append(("link:second-link-differs",
                          f"linking the already linked in-memory objects under a shifted layout differs from fresh copies in {d[0]}",
                          {"field": d[0], "fresh": repr(d[1])[:300], "reused": repr(d[2])[:300]}))
        inputs_changed("link under shifted layout")
    return found


def guarded(f):
    try:
        return f()
    except Exception as e:  # noqa
        return "!" + exc_name(e)


def canon_obj(out):
    """the linked ObjectFile as the same dict the driver reply parses into"""
    res = {}
    res["sections"] = [[s.name, s.address, s.alignment, bytes(s.data).hex()] for s in out.sections]
    res["symbols"] = [[s.id, s.name, s.binding, s.value, s.section, s.typ, s.size] for s in out.symbols]
    res["relocs"] = [[r.reloc_type, r.symbol_id, r.section, r.offset, r.addend] for r in out.relocations]
    res["images"] = [[i.name, i.address, [s.name for s in i.sections]] for i in out.images]
    res["entry"] = out.entry_symbol_id
    res["symvalues"] = [guarded(lambda s=s: out.get_symbol_id_value(s.id)) for s in out.symbols]
    res["imagedata"] = [guarded(lambda i=i: bytes(i.data).hex()) for i in out.images]
    return res


def obj_to_case_obj(out):
    """a real (partially linked) ObjectFile as an input object of a later case"""
    return obj(
        [sec(s.name, bytes(s.data), s.alignment, s.address) for s in out.sections],
        [sym(s.id, s.name, s.binding, s.value, s.section, s.typ, s.size) for s in out.symbols],
        [rel(r.reloc_type, r.symbol_id, r.section, r.offset, r.addend) for r in out.relocations],
        out.entry_symbol_id)


def reloc_sites(relocs):
    """{section: set(byte offsets)} covered by relocation sites (full links only)"""
    sites = {}
    for r in relocs:
        n = RELOC_SIZE.get(r[0], 0)
        sites.setdefault(r[2], set()).update(range(r[3], r[3] + n))
    return sites


def mask_hex(h, positions):
    if not positions:
        return h
    b = [h[i:i + 2] for i in range(0, len(h), 2)]
    for p in positions:
        if 0 <= p < len(b):
            b[p] = "XX"
    return "".join(b)


def mask_result(res, sites):
    """blank out relocation sites in section data and image data"""
    if not sites:
        return res
    res = json.loads(json.dumps(res))
    addr = {}
    for s in res["sections"]:
        s[3] = mask_hex(s[3], sites.get(s[0], ()))
        addr[s[0]] = s[1]
    for j, img in enumerate(res["images"]):
        d = res["imagedata"][j]
        if isinstance(d, str) and not d.startswith("!"):
            pos = set()
            for n in img[2]:
                for p in sites.get(n, ()):
                    pos.add(addr[n] - img[1] + p)
            res["imagedata"][j] = mask_hex(d, pos)
    return res


# --------------------------------------------------------------------------------------------
# the property on the real output
# --------------------------------------------------------------------------------------------

def is_pow2(a):
    return a > 0 and a & (a - 1) == 0


def harness_dup_undef(c):
    """independent reading of 'multiply defined' / 'undefined' global symbols of a request"""
    defs = [n for n, _ in c["extras"]]
    refs = []
    ename = c["entry"] or (c["layout"] and c["layout"]["entry"]) or None
    if ename:
        refs.append(ename)
    for o in c["objs"]:
        for s in o["symbols"]:
            if s["binding"] == "global":
                refs.append(s["name"])
                if s["value"] is not None:
                    defs.append(s["name"])
    if c["layout"] is not None and not c["partial"]:
        for m in c["layout"]["memories"]:
            for k, v in m["inputs"]:
                if k == "Y":
                    defs.append(v)
    dup = len(defs) != len(set(defs))
    undef = (not c["partial"]) and any(r not in set(defs) for r in refs)
    return dup, undef


def placed_name(k, v):
    return {"S": v, "D": f"_${v}_", "Y": f"_${v}_"}.get(k)


def check_property(ctx, c, impl, objs, observed, model, spec):
    """Evaluate the statement of C12 on the real result of this request."""
    dup, undef = harness_dup_undef(c)
    if (dup, undef) != (spec["dup"], spec["undef"]):
        ctx.disagree("spec-vs-harness:dup/undef", c, [dup, undef], [spec["dup"], spec["undef"]])
    overfull = spec["overfull"]
    wf = spec["wf"]
    small = {"case": c}
    # ---- failure conditions --------------------------------------------------------------
    if impl[0] == "ok":
        if dup:
            ctx.fail("link:accepted-multiply-defined-global", "link succeeded although a global symbol is defined twice", c)
        if undef:
            ctx.fail("link:accepted-undefined-global", "non-partial link succeeded although a global symbol is undefined", c)
        if overfull:
            ctx.fail("layout_sections:accepted-overfull-memory", "link succeeded although a memory is overfull", c, plans=spec["plans"])
    else:
        if wf and not (dup or undef or overfull):
            ctx.fail("link:spurious-failure:" + impl[1],
                     f"well-formed request without duplicate/undefined global or overfull memory fails with {impl[1]}", c,
                     plans=spec["plans"])
        return
    out = impl[1]
    full = not c["partial"]
    # relocation sites of the inputs (exempt from content preservation in full links)
    # ---- pieces: content, alignment, disjointness -------------------------------------------
    trace = model[1]["trace"] if model[0] == "ok" else None
    piece_off = {}
    for k, o in enumerate(c["objs"]):
        names = [s["name"] for s in o["sections"]]
        uniq = len(names) == len(set(names))
        for i, s in enumerate(o["sections"]):
            off = observed.get((k, i))
            if off is None and trace is not None and k < len(trace) and i < len(trace[k]["offsets"]):
                off = trace[k]["offsets"][i][1]
                ctx.count("offset_from_model")
            if off is None:
                continue
            piece_off[(k, i)] = off
            data = bytes.fromhex(s["data"])
            if not out.has_section(s["name"]):
                ctx.fail("inject_object:section-missing", f"output has no section {s['name']}", c)
                continue
            osec = out.get_section(s["name"])
            got = bytes(osec.data[off:off + len(data)])
            exempt = set()
            if full:
                for r in o["relocs"]:
                    if r["section"] == s["name"]:
                        if names.count(s["name"]) > 1:
                            exempt.update(range(len(data)))      # ambiguous rebasing (ill-formed object): whole piece exempt
                        exempt.update(range(r["offset"], r["offset"] + RELOC_SIZE.get(r["typ"], 0)))
            same = len(got) == len(data) and all(a == b or p in exempt for p, (a, b) in enumerate(zip(got, data)))
            if not same:
                ctx.fail("inject_object:content-changed",
                         f"bytes of input section {s['name']} (object {k}) are not found unchanged at offset {off}", c,
                         obj=k, section=s["name"], offset=off, got=got.hex(), want=data.hex())
            if s["alignment"] > 0 and off % s["alignment"] != 0:
                ctx.fail("inject_object:piece-misaligned",
                         f"input section {s['name']} (object {k}, alignment {s['alignment']}) put at offset {off}", c,
                         obj=k, section=s["name"], offset=off)
    by_out = {}
    for (k, i), off in piece_off.items():
        s = c["objs"][k]["sections"][i]
        n = len(s["data"]) // 2
        if n:
            by_out.setdefault(s["name"], []).append((off, off + n, k, i))
    for name, rs in by_out.items():
        rs.sort()
        for a, b in zip(rs, rs[1:]):
            if b[0] < a[1]:
                ctx.fail("inject_object:pieces-overlap", f"two input pieces overlap in output section {name}", c, a=a, b=b)
    # ---- symbols ----------------------------------------------------------------------------
    local_seen = {}
    out_locals = {}
    for s in out.symbols:
        if s.binding != "global":
            out_locals.setdefault(s.name, []).append(s)
    for k, o in enumerate(c["objs"]):
        names = [s["name"] for s in o["sections"]]
        uniq = len(names) == len(set(names))
        for s in o["symbols"]:
            if s["binding"] == "global":
                osym = out.get_symbol(s["name"]) if out.has_symbol(s["name"]) else None
            else:
                j = local_seen.get(s["name"], 0)
                local_seen[s["name"]] = j + 1
                lst = out_locals.get(s["name"], [])
                osym = lst[j] if j < len(lst) else None
            if osym is None:
                ctx.fail("inject_object:symbol-missing", f"symbol {s['name']} of object {k} is not in the output", c)
                continue
            if s["value"] is None or s["section"] is None or not uniq:
                continue
            i = names.index(s["section"]) if s["section"] in names else None
            if i is None or (k, i) not in piece_off or not out.has_section(s["section"]):
                continue
            want = out.get_section(s["section"]).address + piece_off[(k, i)] + s["value"]
            got = guarded(lambda: out.get_symbol_id_value(osym.id))
            if got != want:
                ctx.fail("inject_object:symbol-value-wrong",
                         f"symbol {s['name']} (object {k}) resolves to {got}, its section's final address + piece offset + value is {want}",
                         c, obj=k, symbol=s["name"], got=got, want=want)
    # ---- layout -----------------------------------------------------------------------------
    lay = c["layout"]
    if lay is not None and full:
        for j, m in enumerate(lay["memories"]):
            if j >= len(out.images):
                ctx.fail("layout_sections:image-missing", f"no image for memory {m['name']}", c)
                continue
            img = out.images[j]
            placed = [placed_name(k, v) for k, v in m["inputs"] if k != "A"]
            if [s.name for s in img.sections] != placed or img.address != m["location"]:
                ctx.fail("layout_sections:image-contents", f"image {m['name']} does not hold the placed sections in order", c,
                         got=[s.name for s in img.sections], want=placed)
                continue
            for s in img.sections:
                if s.alignment <= 0 or s.address % s.alignment != 0:
                    ctx.fail("layout_sections:section-misaligned",
                             f"section {s.name} placed at {s.address}, alignment {s.alignment}", c, section=s.name)
                if not (m["location"] <= s.address and s.address + s.size <= m["location"] + m["size"]):
                    ctx.fail("layout_sections:section-outside-memory",
                             f"section {s.name} [{s.address},{s.address + s.size}) is outside memory {m['name']} "
                             f"[{m['location']},{m['location'] + m['size']})", c, section=s.name)
            d = guarded(lambda: bytes(img.data))
            if isinstance(d, str):
                ctx.fail("Image.data:raises", f"Image.data of {m['name']} raises {d}", c)
            else:
                for s in img.sections:
                    a = s.address - img.address
                    if a < 0 or d[a:a + s.size] != bytes(s.data):
                        ctx.fail("Image.data:section-bytes-differ", f"image {m['name']} restricted to {s.name} differs from the section", c)
        for (k, i), off in piece_off.items():
            s = c["objs"][k]["sections"][i]
            osec = out.get_section(s["name"]) if out.has_section(s["name"]) else None
            if osec is None:
                continue
            in_image = any(osec in img.sections for img in out.images)
            all_pow2 = all(is_pow2(t["alignment"]) for o in c["objs"] for t in o["sections"] if t["name"] == s["name"])
            if in_image and all_pow2 and (osec.address + off) % s["alignment"] != 0:
                ctx.fail("layout_sections:piece-misaligned",
                         f"piece {s['name']} of object {k} ends up at address {osec.address + off}, alignment {s['alignment']}", c)
    # sections of one image never overlap
    for img in out.images:
        rs = sorted((s.address, s.address + s.size, s.name) for s in img.sections if s.size)
        for a, b in zip(rs, rs[1:]):
            if b[0] < a[1]:
                ctx.fail("layout_sections:sections-overlap", f"sections {a[2]} and {b[2]} overlap in image {img.name}", c)


# --------------------------------------------------------------------------------------------
# generators
# --------------------------------------------------------------------------------------------

SEC_NAMES = ["code", "data", "bss", "rodata", "vectors", "init", "heap", "s0", "s1"]
SYM_NAMES = ["main", "foo", "bar", "baz", "x", "y", "start", "isr", "tab", "cnt"]
DEF_NAMES = ["_end", "heap_start", "stack_top", "__bss", "lma"]
TYPS = ["object", "func"]


def gen_data(rng, n):
    return bytes(rng.randrange(1, 256) for _ in range(n))


def gen_size(rng):
    r = rng.random()
    if r < 0.12:
        return 0
    if r < 0.75:
        return rng.randint(1, 12)
    if r < 0.95:
        return rng.randint(13, 64)
    return rng.randint(65, 300)


def gen_align(rng, wild):
    r = rng.random()
    if wild and r < 0.03:
        return 0
    if r < 0.12:
        return rng.choice([3, 5, 6, 12, 24])
    return rng.choice([1, 1, 2, 4, 4, 4, 8, 8, 16, 32, 64])


def gen_obj(rng, secnames, symnames, wild, relocs, full):
    k = rng.randint(0 if wild else 1, min(4, len(secnames)))
    names = rng.sample(secnames, k)
    if wild and names and rng.random() < 0.04:
        names.append(rng.choice(names))                 # duplicate section name inside one object (ill-formed)
    sections = [sec(n, gen_data(rng, gen_size(rng)), gen_align(rng, wild)) for n in names]
    nsym = rng.randint(0, 6)
    ids = list(range(nsym))
    if rng.random() < 0.3:
        ids = rng.sample(range(0, 40), nsym)
    symbols, gnames = [], set()
    for i in range(nsym):
        name = rng.choice(symnames)
        binding = "global" if rng.random() < 0.6 else "local"
        if binding == "global":
            if name in gnames:
                binding = "local"
            else:
                gnames.add(name)
        if sections and rng.random() < 0.7:
            s = rng.choice(sections)
            value = rng.randint(0, len(s["data"]) // 2 + 2)
            section = s["name"]
            if wild and rng.random() < 0.03:
                section = rng.choice([None, "nowhere"])
        else:
            value = section = None
            if rng.random() < 0.2:
                section = rng.choice(secnames)           # undefined symbols drop their section
        symbols.append(sym(ids[i], name, binding, value, section, rng.choice(TYPS), rng.randint(0, 8)))
    rels = []
    if relocs and symbols and sections:
        for _ in range(rng.randint(0, 3)):
            s = rng.choice(sections)
            typ = rng.choice(list(RELOC_SIZE))
            n = RELOC_SIZE[typ]
            if full:
                cands = [y for y in symbols if y["binding"] == "global" or y["value"] is not None]
                if len(s["data"]) // 2 < n or not cands:
                    continue
                rels.append(rel(typ, rng.choice(cands)["id"], s["name"], rng.randint(0, len(s["data"]) // 2 - n), rng.randint(-8, 8)))
            else:
                sid = rng.choice(symbols)["id"]
                if wild and rng.random() < 0.05:
                    sid = 99
                rels.append(rel(typ, sid, s["name"], rng.randint(0, len(s["data"]) // 2 + 4), rng.randint(-100, 100)))
    entry = None
    if symbols and rng.random() < 0.08:
        entry = rng.choice(symbols)["id"]
    return obj(sections, symbols, rels, entry)


def repair_symbols(rng, c):
    """make the request free of duplicate and undefined globals (so that it reaches layout and succeeds)"""
    seen = set(n for n, _ in c["extras"])
    n = 0
    for o in c["objs"]:
        local_g = set(s["name"] for s in o["symbols"] if s["binding"] == "global")
        for s in o["symbols"]:
            if s["binding"] == "global" and s["value"] is not None:
                if s["name"] in seen:
                    n += 1
                    new = f"{s['name']}_{n}"
                    while new in local_g:
                        n += 1
                        new = f"{s['name']}_{n}"
                    local_g.add(new)
                    s["name"] = new
                seen.add(s["name"])
    if c["layout"] is not None:
        for m in c["layout"]["memories"]:
            for inp in m["inputs"]:
                if inp[0] == "Y":
                    while inp[1] in seen:
                        n += 1
                        inp[1] = f"{inp[1]}_{n}"
                    seen.add(inp[1])
    if not c["partial"]:
        refs = []
        ename = c["entry"] or (c["layout"] and c["layout"]["entry"])
        if ename:
            refs.append(ename)
        for o in c["objs"]:
            refs += [s["name"] for s in o["symbols"] if s["binding"] == "global"]
        for r in refs:
            if r not in seen:
                seen.add(r)
                if rng.random() < 0.5 or not c["objs"][-1]["sections"]:
                    c["extras"].append([r, rng.randint(0, 1 << 16)])
                else:
                    o = c["objs"][-1]
                    used = set(s["id"] for s in o["symbols"])
                    i = max(used, default=-1) + 1
                    s = rng.choice(o["sections"])
                    if r in set(y["name"] for y in o["symbols"] if y["binding"] == "global"):
                        c["extras"].append([r, 7])
                    else:
                        o["symbols"].append(sym(i, r, "global", rng.randint(0, len(s["data"]) // 2), s["name"]))


def probe_negative(ctx, n):
    """Negative memory locations are outside the model (addresses are `Nat`).  The real linker is still
    probed there: placement property with a Python-only oracle (no model, no Lean spec)."""
    rng = ctx.rng
    for k in range(n):
        secnames = rng.sample(SEC_NAMES, rng.randint(1, 4))
        objs = [gen_obj(rng, secnames, SYM_NAMES[:4], False, False, True) for _ in range(rng.randint(1, 3))]
        for o in objs:
            o["entry"] = None
        c = case(objs, tag="negative-location")
        gen_layout(rng, c, secnames, False)
        shift = rng.choice([1, 7, 64, 4097, 1 << 20])
        for m in c["layout"]["memories"]:
            m["location"] = m["location"] - shift - rng.randint(0, 5000)
        c["layout"]["entry"] = None
        needs = py_needs(c)
        for m, need in zip(c["layout"]["memories"], needs):
            m["size"] = need + rng.choice([0, 0, 1, 50])
        repair_symbols(rng, c)
        impl, objs_, observed = run_impl(c)
        for sig, what, detail in _ALIAS.pop(id(c), []):
            ctx.fail(sig, what, c, **detail)
        ctx.count("eval_negative_probe")
        if impl[0] != "ok":
            ctx.fail("link:spurious-failure-negative-location:" + impl[1],
                     f"request with negative memory locations and enough room fails with {impl[1]}", c)
            continue
        out = impl[1]
        for j, m in enumerate(c["layout"]["memories"]):
            img = out.images[j]
            for s in img.sections:
                if s.address % s.alignment != 0:
                    ctx.fail("layout_sections:section-misaligned", f"section {s.name} at {s.address}, alignment {s.alignment}", c)
                if not (m["location"] <= s.address and s.address + s.size <= m["location"] + m["size"]):
                    ctx.fail("layout_sections:section-outside-memory", f"section {s.name} outside memory {m['name']}", c)
            rs = sorted((s.address, s.address + s.size, s.name) for s in img.sections if s.size)
            for a, b in zip(rs, rs[1:]):
                if b[0] < a[1]:
                    ctx.fail("layout_sections:sections-overlap", f"sections {a[2]} and {b[2]} overlap in image {img.name}", c)
            d = guarded(lambda: bytes(img.data))
            if isinstance(d, str):
                ctx.fail("Image.data:raises", f"Image.data of {m['name']} raises {d}", c)
            else:
                for s in img.sections:
                    a = s.address - img.address
                    if a < 0 or d[a:a + s.size] != bytes(s.data):
                        ctx.fail("Image.data:section-bytes-differ", f"image {m['name']} restricted to {s.name} differs", c)


def al_up(a, al):
    return a if al == 0 else a + (-a) % al


def py_needs(c):
    """generator-side estimate of what each memory needs (only used to choose memory sizes; the
    oracle for 'overfull' is Spec.Link through the driver)"""
    env = {}
    for o in c["objs"]:
        for s in o["sections"]:
            a, z = env.get(s["name"], (4, 0))
            env[s["name"]] = (max(a, s["alignment"]), al_up(z, s["alignment"]) + len(s["data"]) // 2)
    needs = []
    for m in c["layout"]["memories"]:
        cur = last = m["location"]
        for k, v in m["inputs"]:
            if k == "S":
                a, z = env.setdefault(v, (4, 0))
                cur = al_up(cur, a) + z
                last = cur
            elif k == "D":
                z = env.get(v, (1, 0))[1]
                env.setdefault(f"_${v}_", (1, z))
                cur += z
                last = cur
            elif k == "Y":
                env.setdefault(f"_${v}_", (1, 0))
                last = cur
            else:
                cur = al_up(cur, v)
        needs.append(last - m["location"])
    return needs


def gen_layout(rng, c, secnames, wild):
    used = [s["name"] for o in c["objs"] for s in o["sections"]]
    pool = list(dict.fromkeys(used))
    rng.shuffle(pool)
    nmem = rng.choice([1, 1, 2, 2, 3])
    mems = []
    loc = rng.choice([0, 0, 0x100, 0x1000, 0x101, 7, 0x20000])
    defs = list(DEF_NAMES)
    rng.shuffle(defs)
    leave_out = rng.random() < 0.3
    for j in range(nmem):
        inputs = []
        for _ in range(rng.randint(0 if wild else 1, 6)):
            r = rng.random()
            if r < 0.5 and pool:
                if leave_out and rng.random() < 0.4:
                    pool.pop()
                    continue
                inputs.append(["S", pool.pop()])
            elif r < 0.58:
                inputs.append(["S", rng.choice([n for n in secnames + ["extra", "stack"]])])  # maybe absent / maybe repeated
            elif r < 0.72 and used:
                inputs.append(["D", rng.choice(used + (["ghost"] if wild else []))])
            elif r < 0.86 and defs:
                name = defs.pop()
                if wild and rng.random() < 0.3:
                    name = rng.choice(SYM_NAMES)
                inputs.append(["Y", name])
            else:
                inputs.append(["A", rng.choice([1, 2, 4, 8, 16, 64, 256, 3, 10] + ([0] if wild and rng.random() < 0.2 else []))])
        mems.append(mem(rng.choice(["flash", "ram", "rom", "m"]) + str(j), loc, 1 << 20, inputs))
        loc += rng.choice([0x40, 0x400, 0x10000, 0x333])
    if not wild:
        # keep the layout well-formed: every name placed once, SECTIONDATA sources exist
        seen = set()
        for m in mems:
            keep = []
            for k, v in m["inputs"]:
                pn = placed_name(k, v)
                if pn is not None:
                    if pn in seen:
                        continue
                    seen.add(pn)
                keep.append([k, v])
            m["inputs"] = keep
    c["layout"] = {"entry": rng.choice(SYM_NAMES) if rng.random() < 0.1 else None, "memories": mems}
    needs = py_needs(c)
    for m, need in zip(mems, needs):
        r = rng.random()
        if r < 0.3:
            m["size"] = need
        elif r < 0.42:
            m["size"] = max(0, need - 1)
        elif r < 0.55:
            m["size"] = need + 1
        elif r < 0.6:
            m["size"] = need // 2
        else:
            m["size"] = need + rng.randint(2, 5000)


def sanitize_relocs(o):
    """full links apply relocations (C10/C11, not modelled): keep only records whose site lies inside the
    section and whose symbol can be resolved, so that relocation application itself cannot fail"""
    size = {}
    for s in o["sections"]:
        size[s["name"]] = len(s["data"]) // 2
    syms = {s["id"]: s for s in o["symbols"]}
    keep = []
    for r in o["relocs"]:
        y = syms.get(r["symbol_id"])
        if y is None or (y["binding"] != "global" and y["value"] is None):
            continue
        if r["typ"] not in RELOC_SIZE or r["section"] not in size or r["offset"] + RELOC_SIZE[r["typ"]] > size[r["section"]]:
            continue
        keep.append(r)
    o["relocs"] = keep


def gen_case(rng, wild, prev_partials):
    secnames = rng.sample(SEC_NAMES, rng.randint(1, 5))
    symnames = rng.sample(SYM_NAMES, rng.randint(2, 8))
    partial = rng.random() < 0.2
    relocs = rng.random() < (0.6 if partial else 0.2)
    nobj = rng.choice([1, 2, 2, 3, 3, 4])
    objs = [gen_obj(rng, secnames, symnames, wild, relocs, not partial) for _ in range(nobj)]
    if prev_partials and rng.random() < 0.15:
        objs[rng.randrange(len(objs))] = json.loads(json.dumps(rng.choice(prev_partials)))
    if not partial:
        for o in objs:
            sanitize_relocs(o)
    c = case(objs, partial=partial, tag="wild" if wild else "gen")
    if rng.random() < 0.1:
        c["entry"] = rng.choice(symnames)
    if rng.random() < 0.15:
        c["extras"] = [[n, rng.randint(0, 1 << 20)] for n in rng.sample(SYM_NAMES + DEF_NAMES, rng.randint(1, 3))]
    if (not partial and rng.random() < 0.8) or (partial and wild and rng.random() < 0.1):
        gen_layout(rng, c, secnames, wild)
        c["via_text"] = rng.random() < 0.25 and all(
            (k != "A" or v > 0) for m in c["layout"]["memories"] for k, v in m["inputs"]) and all(
            m["inputs"] for m in c["layout"]["memories"])
    if not wild or rng.random() < 0.5:
        # at most one entry point
        seen_entry = bool(c["entry"] or (c["layout"] and c["layout"]["entry"]))
        for o in c["objs"]:
            if o["entry"] is not None:
                if seen_entry:
                    o["entry"] = None
                seen_entry = True
        if c["entry"] or (c["layout"] and c["layout"]["entry"]):
            en = c["entry"] or c["layout"]["entry"]
            c["extras"] = [e for e in c["extras"] if e[0] != en]
        if rng.random() < 0.8:
            repair_symbols(rng, c)
    return c


def corpus():
    """fixed boundary cases, run first on every check"""
    cs = []
    A = bytes(range(1, 6))          # 5 bytes
    B = bytes(range(0x11, 0x19))    # 8 bytes
    C = bytes([0xAA] * 3)
    # three objects sharing one section name; the third piece needs padding; symbols in every piece
    o1 = obj([sec("code", A, 4)], [sym(0, "f1", "global", 1, "code"), sym(1, "l", "local", 2, "code")])
    o2 = obj([sec("code", B, 8)], [sym(0, "f2", "global", 3, "code"), sym(1, "l", "local", 0, "code")])
    o3 = obj([sec("code", C, 2), sec("data", B, 4)], [sym(0, "f3", "global", 2, "code"), sym(5, "d", "global", 4, "data"),
                                                       sym(7, "f1", "global", None, None)])
    cs.append(case([o1, o2, o3], tag="three-merged-no-layout"))
    lay = [mem("flash", 0x100, 27, [["S", "code"], ["A", 8], ["Y", "_end"]]), mem("ram", 0x1001, 12, [["S", "data"], ["D", "code"]])]
    cs.append(case([o1, o2, o3], layout=lay, tag="three-merged-layout"))
    # already aligned: no padding may be inserted
    p1 = obj([sec("code", B, 4)], [sym(0, "a", "global", 0, "code")])
    p2 = obj([sec("code", B, 8)], [sym(0, "b", "global", 0, "code")])
    p3 = obj([sec("code", A, 16)], [sym(0, "c", "global", 4, "code")])
    cs.append(case([p1, p2, p3], tag="aligned-no-padding"))
    # exact fit / one byte too small / one byte spare
    for size, tag in ((21, "exact-fit"), (20, "one-byte-short"), (22, "one-byte-spare")):
        cs.append(case([p1, p2, p3], layout=[mem("flash", 0, size, [["S", "code"]])], tag=tag))
    # leading gap counts for the size: location 1, alignment 16 -> section at 16
    cs.append(case([p3], layout=[mem("m", 1, 20, [["S", "code"]])], tag="leading-gap-exact"))
    cs.append(case([p3], layout=[mem("m", 1, 19, [["S", "code"]])], tag="leading-gap-short"))
    # empty sections, empty memory, section absent from the objects, section absent from the layout
    e1 = obj([sec("bss", b"", 4), sec("code", A, 1)], [sym(0, "z", "global", 0, "bss")])
    cs.append(case([e1], layout=[mem("m0", 0x10, 5, [["S", "code"], ["S", "bss"]]), mem("m1", 0x100, 0, [["S", "nothing"]]),
                                 mem("m2", 0x200, 0, [["A", 64]])], tag="empty-sections"))
    cs.append(case([e1], layout=[mem("m0", 0x10, 100, [["S", "code"]])], tag="section-not-in-layout"))
    # duplicate / undefined globals, locals never clash
    d1 = obj([sec("code", A)], [sym(0, "main", "global", 0, "code")])
    d2 = obj([sec("code", B)], [sym(0, "main", "global", 0, "code")])
    cs.append(case([d1, d2], tag="duplicate-global"))
    cs.append(case([d1, d2], partial=True, tag="duplicate-global-partial"))
    u1 = obj([sec("code", A)], [sym(0, "ext", "global", None, None), sym(1, "main", "global", 0, "code")])
    cs.append(case([u1], tag="undefined-global"))
    cs.append(case([u1], partial=True, tag="undefined-global-partial"))
    cs.append(case([u1], extras=[["ext", 0x1234]], tag="undefined-resolved-by-extra"))
    cs.append(case([u1], layout=[mem("m", 0, 100, [["S", "code"], ["Y", "ext"]])], tag="undefined-resolved-by-definesymbol"))
    cs.append(case([d1], layout=[mem("m", 0, 100, [["S", "code"], ["Y", "main"]])], tag="definesymbol-duplicates"))
    l1 = obj([sec("code", A)], [sym(0, "t", "local", 1, "code"), sym(1, "t", "local", None, None)])
    cs.append(case([l1, l1, u1], extras=[["ext", 1]], tag="locals-same-name"))
    # entry symbols
    cs.append(case([d1], entry="main", tag="entry-arg"))
    cs.append(case([d1], entry="nomain", tag="entry-undefined"))
    cs.append(case([obj([sec("code", A)], [sym(3, "main", "global", 0, "code")], entry=3)], tag="entry-in-object"))
    cs.append(case([d1], layout=[mem("m", 0, 100, [["S", "code"]])], layout_entry="main", via_text=True, tag="entry-layout-text"))
    # partial link with relocation records, then a layout in a partial link
    r1 = obj([sec("code", B)], [sym(0, "a", "global", 0, "code"), sym(1, "q", "global", None, None)], [rel("abs32", 1, "code", 4, -4)])
    r2 = obj([sec("code", A, 8)], [sym(4, "q", "global", 1, "code")], [rel("rel32", 4, "code", 1, 2)])
    cs.append(case([r1, r2], partial=True, tag="partial-relocs"))
    cs.append(case([r1, r2], partial=True, layout=[mem("m", 0, 100, [["S", "code"]])], tag="partial-with-layout"))
    cs.append(case([r1, r2], layout=[mem("m", 0x400, 100, [["S", "code"]])], tag="full-relocs"))
    # ill-formed inputs (model must raise the same exception class)
    cs.append(case([obj([sec("code", A, 0)])], tag="alignment-zero"))
    cs.append(case([obj([sec("code", A)], [sym(0, "s", "global", 1, "nowhere")])], tag="symbol-in-missing-section"))
    cs.append(case([d1], layout=[mem("m", 0, 100, [["D", "ghost"]])], tag="sectiondata-missing"))
    cs.append(case([d1], layout=[mem("m", 0, 100, [["S", "code"], ["A", 0]])], tag="align-zero"))
    cs.append(case([d1], layout=[mem("m", 0, 100, [["S", "code"], ["S", "code"]])], tag="section-placed-twice"))
    cs.append(case([d1], layout=[mem("m", 0, 100, [["S", "code"]]), mem("n", 0x80, 100, [["S", "code"]])], tag="section-in-two-memories"))
    cs.append(case([e1], layout=[mem("m", 0, 100, [["S", "code"], ["S", "bss"]]), mem("n", 0x200, 100, [["S", "bss"], ["S", "code"]])],
                   tag="two-sections-in-two-memories"))
    cs.append(case([e1], layout=[mem("m", 0, 100, [["S", "bss"], ["A", 16], ["S", "bss"]])], tag="empty-section-placed-twice"))
    cs.append(case([d1], layout=[mem("m", 0, 100, [["Y", "e"], ["S", "code"], ["S", "_$e_"]])], tag="marker-section-placed-again"))
    cs.append(case([d1], layout=[mem("m", 0, 100, [["Y", "e"], ["Y", "e"]])], tag="definesymbol-twice"))
    cs.append(case([], tag="no-objects"))
    cs.append(case([d1, obj([sec("code", A)], [sym(1, "q", "local", 0, "code")], entry=1)], entry="main", tag="two-entries"))
    cs.append(case([d1], entry="e", extras=[["e", 5]], tag="entry-is-extra"))
    # non power of two alignment
    n1 = obj([sec("code", A, 3)], [sym(0, "n1", "global", 0, "code")])
    n2 = obj([sec("code", B, 6)], [sym(0, "n2", "global", 0, "code")])
    cs.append(case([n1, n2, obj([sec("code", C, 3)], [sym(0, "n3", "global", 1, "code")])],
                   layout=[mem("m", 2, 100, [["S", "code"]])], tag="non-pow2-alignment"))
    return cs


def gen_image_case(rng):
    n = rng.randint(0, 5)
    base = rng.choice([0, 5, 0x100])
    secs, cur = [], base
    for i in range(n):
        size = gen_size(rng) % 20
        r = rng.random()
        if r < 0.15 and cur > 0:
            addr = max(0, cur - rng.randint(1, 4))
        elif r < 0.5:
            addr = cur
        else:
            addr = cur + rng.randint(1, 9)
        secs.append(sec(f"s{i}", gen_data(rng, size), rng.choice([1, 4]), addr))
        cur = addr + size
    if secs and rng.random() < 0.15:
        rng.shuffle(secs)
    return {"base": base, "sections": secs}


def prepare_images(ctx, n):
    from ppci.binutils.objectfile import Image, Section
    cases = [{"base": 0, "sections": []},
             {"base": 4, "sections": [sec("a", b"\x01\x02", 1, 4), sec("b", b"", 1, 6), sec("c", b"\x03", 1, 6)]},
             {"base": 4, "sections": [sec("a", b"\x01\x02", 1, 4), sec("c", b"\x03", 1, 5)]},
             {"base": 4, "sections": [sec("a", b"\x01", 1, 3)]}]
    cases += [gen_image_case(ctx.rng) for _ in range(n)]
    reqs, impl = [], []
    for c in cases:
        img = Image("i", c["base"])
        for s in c["sections"]:
            so = Section(s["name"])
            so.address, so.alignment, so.data = s["address"], s["alignment"], bytearray(bytes.fromhex(s["data"]))
            img.add_section(so)
        r = guarded(lambda: bytes(img.data).hex())
        impl.append("err " + r[1:] if r.startswith("!") else "ok " + hx(r))
        t = ["image", str(c["base"]), str(len(c["sections"]))]
        for s in c["sections"]:
            t += [s["name"], str(s["address"]), str(s["alignment"]), hx(s["data"])]
        reqs.append(" ".join(t))
        # the property on Image.data itself: either an overlap error on a non-chain, or the restriction equals each section
        chain, cur = True, c["base"]
        for s in c["sections"]:
            if s["address"] < cur:
                chain = False
                break
            cur = s["address"] + len(s["data"]) // 2
        if r.startswith("!"):
            if chain:
                ctx.fail("Image.data:raises", f"Image.data raises {r} although sections are in order and disjoint", c)
        else:
            if not chain:
                ctx.fail("Image.data:overlap-accepted", "Image.data returns bytes for overlapping / unordered sections", c)
            d = bytes.fromhex(r)
            for s in c["sections"]:
                a = s["address"] - c["base"]
                if d[a:a + len(s["data"]) // 2].hex() != s["data"]:
                    ctx.fail("Image.data:section-bytes-differ", "Image.data restricted to a section differs from the section", c)
    return cases, reqs, impl


def compare_images(ctx, prepared, model):
    cases, reqs, impl = prepared
    for c, rq, i, m in zip(cases, reqs, impl, model):
        ctx.count("eval_image")
        ctx.count("image_" + i.split()[0] + ("" if i.startswith("ok") else "_" + i.split()[1]))
        if i != m:
            ctx.disagree("Image.data", c, i, m)
        if len(c["sections"]) >= 2:
            ctx.nontrivial(rq)


# --------------------------------------------------------------------------------------------
# check
# --------------------------------------------------------------------------------------------

def diff_results(ctx, c, impl, model):
    if impl[0] != model[0]:
        ctx.disagree("link:outcome", c, impl if impl[0] == "err" else "ok", model if model[0] == "err" else "ok")
        return
    if impl[0] == "err":
        if impl[1] != model[1]:
            ctx.disagree("link:error-kind", c, impl[1], model[1])
        return
    ci = canon_obj(impl[1])
    cm = {k: v for k, v in model[1].items() if k != "trace"}
    if not c["partial"]:
        sites = reloc_sites(ci["relocs"])
        ci, cm = mask_result(ci, sites), mask_result(cm, reloc_sites(cm["relocs"]))
    for key in ("sections", "symbols", "relocs", "images", "entry", "symvalues", "imagedata"):
        a, b = ci[key], cm[key]
        a = json.loads(json.dumps(a))
        if a != b:
            ctx.disagree("link:" + key, c, a, b)


def run_impls(cases):
    impls = []
    for c in cases:
        try:
            impls.append(run_impl(c))
        except Exception as e:  # building the input objects failed (generator bug) – not a verdict
            raise common.BrokenCheck(f"cannot build case {c.get('tag')}: {type(e).__name__}: {e}")
    return impls


def run_cases(ctx, cases, impls=None, extra=()):
    """run the real link() on every case, then the model and the spec in one driver call;
    `extra` request lines ride along in the same call, their replies are returned"""
    if impls is None:
        impls = run_impls(cases)
    reqs = []
    for c in cases:
        p = req_payload(c)
        reqs += ["link " + p, "spec " + p]
    replies = ctx.driver("C12", reqs + list(extra))
    extra_replies = replies[len(reqs):]
    results = []
    for idx, c in enumerate(cases):
        (impl, objs, observed) = impls[idx]
        lr, sr = replies[2 * idx], replies[2 * idx + 1]
        if lr == "bad-op" or sr == "bad-op":
            raise common.BrokenCheck("driver rejected request: " + reqs[2 * idx][:300])
        model = parse_link_reply(lr)
        spec = parse_spec_reply(sr)
        diff_results(ctx, c, impl, model)
        # observed offsets vs the model's trace
        if model[0] == "ok" and impl[0] == "ok":
            for (k, i), off in observed.items():
                tr = model[1]["trace"]
                if k < len(tr) and i < len(tr[k]["offsets"]) and tr[k]["offsets"][i][1] != off:
                    ctx.disagree("inject_object:section_offsets", c, off, tr[k]["offsets"][i])
        check_property(ctx, c, impl, objs, observed, model, spec)
        for sig, what, detail in _ALIAS.pop(id(c), []):
            ctx.fail(sig, what, c, **detail)
        ctx.count("eval_relink_same_objects")
        # statistics
        ctx.count("eval_link")
        outcome = "ok" if impl[0] == "ok" else "err_" + impl[1]
        ctx.count("outcome_" + outcome)
        ctx.count("wf" if spec["wf"] else "illformed")
        if c["partial"]:
            ctx.count("partial")
        if c["layout"] is not None:
            ctx.count("with_layout")
            ctx.count("memories", len(c["layout"]["memories"]))
            if c.get("via_text"):
                ctx.count("layout_via_text")
        for f in ("dup", "undef", "overfull"):
            if spec[f]:
                ctx.count("spec_" + f)
        if spec["plans"] and c["layout"]:
            for m, p in zip(c["layout"]["memories"], spec["plans"]):
                d = m["size"] - p["need"]
                ctx.count("mem_exact_fit" if d == 0 else "mem_one_short" if d == -1 else "mem_one_spare" if d == 1 else
                          "mem_short" if d < 0 else "mem_roomy")
        pieces = {}
        padded = False
        if model[0] == "ok":
            for k, t in enumerate(model[1]["trace"]):
                for i, (n, off) in enumerate(t["offsets"]):
                    prev = pieces.get(n, 0)
                    if off > prev:
                        padded = True
                    pieces[n] = off + len(c["objs"][k]["sections"][i]["data"]) // 2
            nmerge = {}
            for t in model[1]["trace"]:
                for n, _ in t["offsets"]:
                    nmerge[n] = nmerge.get(n, 0) + 1
            if padded:
                ctx.count("cases_with_padding")
            if any(v >= 3 for v in nmerge.values()):
                ctx.count("cases_three_way_merge")
            multi = any(v >= 2 for v in nmerge.values())
        else:
            multi = False
        placed2 = bool(spec["plans"]) and any(len(p["placed"]) >= 2 for p in spec["plans"])
        if multi or placed2 or impl[0] == "err":
            ctx.nontrivial(reqs[2 * idx])
        if idx % 97 == 0:
            ctx.sample({"tag": c.get("tag"), "request": reqs[2 * idx][:400], "impl": outcome,
                        "model": lr[:200], "spec": sr[:200]})
        results.append((c, impl))
    if extra:
        return results, extra_replies
    return results


def check(ctx):
    rng = ctx.rng
    t0 = time.time()
    cases = corpus()
    ctx.count("corpus_cases", len(cases))
    impls = run_impls(cases)
    n = 4000 if ctx.thorough else 350
    prev_partials = []
    done = 0
    while done < n:
        batch = [gen_case(rng, wild=rng.random() < 0.3, prev_partials=prev_partials) for _ in range(min(100, n - done))]
        res = run_impls(batch)
        done += len(batch)
        cases += batch
        impls += res
        # real partial-link outputs become inputs of later requests
        for c, (impl, _objs, _obs) in zip(batch, res):
            if c["partial"] and impl[0] == "ok" and len(prev_partials) < 60:
                prev_partials.append(obj_to_case_obj(impl[1]))
    t1 = time.time()
    prepared = prepare_images(ctx, 3000 if ctx.thorough else 300)
    step = 1000
    for i in range(0, len(cases), step):
        if i == 0:
            _, img_replies = run_cases(ctx, cases[:step], impls[:step], extra=prepared[1])
            compare_images(ctx, prepared, img_replies)
        else:
            run_cases(ctx, cases[i:i + step], impls[i:i + step])
    t2 = time.time()
    probe_negative(ctx, 400 if ctx.thorough else 40)
    ctx.extra_cov["phase_seconds"] = {"real_linker": round(t1 - t0, 1), "lean_driver_and_diff": round(t2 - t1, 1),
                                      "negative_probe": round(time.time() - t2, 1)}
    ctx.extra_cov["exhaustive"] = False


def replay(ctx, rp):
    c = rp.get("case")
    if isinstance(c, dict) and "objs" in c:
        run_cases(ctx, [c])
    else:
        check(ctx)
