"""C11 — linked references resolve exactly to their symbols.

check: two-object programs with every modelled relocation type of riscv (incl. rvc), arm, thumb, x86_64
       (plus the data relocations) are linked by the REAL `ppci.api.link()` under generated layouts with
       distances at the edges of each type's range; the relocated field is read back from the linked section
       with the Lean Spec decoder (Spec.RelocSem, via the driver) and compared with the final symbol address
       (+ addend); the linker's relocation step is compared with Model.LinkReloc.  Thorough: the Spec decoders
       are validated against LLVM's disassembler (llvm-mc --disassemble, the printer llvm-objdump -d uses).
"""
import io
import subprocess
import sys
from pathlib import Path

from harness import common
from harness.c10 import region, WIDTH

sys.path.insert(0, str(Path(__file__).resolve().parent.parent / "translate"))

PROP = "C11"
LEAN_PROPS = "PpciVerif/Props/C11.lean"
LEAN_PROPS_EXTRA = ["PpciVerif/Props/C11T1.lean"]   # T1 translation tie of relocation bodies (harness/t1.py, notes/T1.md)
LEAN_TARGETS = ["PpciVerif.Props.C11", "Drivers.C11", "PpciVerif.Props.C11T1"]
LEVEL = "proof"
LEVEL_TEXT = (
    "Lean theorems over a model of the linker's relocation phase (Linker.do_relocations/_do_relocation: symbol value = symbol offset + "
    "section address, site address = section address + offset, slice, apply, write back) composed with the per-type apply models. "
    "LIST LEVEL (all_sites_resolve_partial): if do_relocations succeeds on pairwise disjoint sites (decidable; checked on every real "
    "link) then for EVERY relocation of the output object the site bytes, read with the ISA-manual decoder Spec.RelocSem.decodeTarget, "
    "designate exactly the symbol's final address (+ addend for x86_64 rel32), for all sections, symbols, offsets and prior bytes, "
    "whenever the reference is `resolvable` (Spec.LinkGuard: representable in the architecture's field -- the explicit guard needed "
    "exactly where ppci's own range check is too wide, open findings with a proved negation witness -- plus standing assumptions); "
    "bytes_outside_sites_unchanged: every other byte, every section address/length and every symbol value is that of the merged "
    "input (the interface to C12). Types covered: riscv b_imm12, b_imm20/cb_imm11/cbl_imm11, bc_imm11, bc_imm8, arm imm24, ldr_imm12, "
    "thumb wrap_new11, rel8, lit8, bl_imm11, x86_64 rel32, jmp8, abs32, abs64 (no guard needed for thumb wrap_new11/rel8/lit8, arm "
    "ldr_imm12 and the absolute types); riscv hi/lo pairs: (hi<<12)+sext12(lo) = S mod 2^32 resp. S-P mod 2^32 for all integers.")
LEVEL_NOTE = (
    "trusted: Lean kernel; hand models Model.Reloc / Model.LinkReloc tied to /repo by differential runs through the real link() on every "
    "check (sampled at range edges); Spec.RelocSem is my reading of the RISC-V/ARM/Intel manuals, validated for the riscv/arm/thumb branch "
    "types against llvm-mc --disassemble in the thorough tier. Not covered: relocation types of the other 8 targets; arm adr_imm12 "
    "and thumb b_imm11_imm6 have models and are checked by the harness against the Spec decoders (also in compiled programs) but have no "
    "theorem; the hi/lo pair theorems are at the apply level; merging/layout is C12, relaxation C13.")
TECHNIQUE = ("Lean 4 proofs (bit-field algebra + omega on literal div/mod) over hand models + differential correspondence through the real "
             "linker + spec validation against LLVM's disassembler")
RULE = ("links with SEVERAL relocations (same type, different addends -4/-5/-8/0/7/-1000/+-2^20 on rel32, different symbols, other types interleaved, shuffled order); per relocation type: distances d = S - P - bias at +-2^k, +-2^k+-{2,4,8} for k around the field width and the accepted width, "
        "several code/data addresses and paddings (site alignment), addends {-4,0} for rel32; distinct = distinct (type, S, P, bytes); "
        "non-trivial = every case (each is a full link of two objects under a generated layout)")
TRUSTED = [
    "hand models Model.Reloc and Model.LinkReloc (tied by differential run through ppci.api.link on every check)",
    "Spec.RelocSem (decoders written from the ISA manuals; riscv/arm/thumb branch decoders cross-checked with llvm-mc in the thorough tier)",
]
ASSUMPTIONS = [
    "section bytes are bytes; thumb sites are halfword aligned (ppci does not assert it)",
    "bl_imm11: the BL instruction has J1 = J2 = 1 as emitted by Bl.encode",
    "symbol values and section addresses are non-negative",
]
CHECK_WITHOUT_BUILD = True

# (arch name for get_arch, isa key of the tables/driver)
ARCHS = {"riscv": "riscv", "riscv:rvc": "riscv", "arm": "arm", "arm:thumb": "thumb", "x86_64": "x86_64"}

# relocation type -> arch, bias (field encodes S - (P + bias)), bits, instruction bytes with a clear field, addends
TYPES = [
    ("riscv", "b_imm12", 0, 13, "63000000", [0]),
    ("riscv", "b_imm20", 0, 21, "6f000000", [0]),
    ("riscv:rvc", "cb_imm11", 0, 21, "6f000000", [0]),
    ("riscv:rvc", "cbl_imm11", 0, 21, "ef000000", [0]),
    ("riscv:rvc", "bc_imm11", 0, 12, "01a0", [0]),
    ("riscv:rvc", "bc_imm8", 0, 9, "01c0", [0]),
    ("arm", "imm24", 8, 26, "000000ea", [0]),
    ("arm", "ldr_imm12", 8, 13, "00001fe5", [0]),
    ("arm", "adr_imm12", 8, 13, "00000fe2", [0]),
    ("arm:thumb", "lit8", 4, 11, "0048", [0]),
    ("arm:thumb", "wrap_new11", 4, 12, "00e0", [0]),
    ("arm:thumb", "rel8", 4, 9, "00d0", [0]),
    ("arm:thumb", "bl_imm11", 4, 25, "00f000f8", [0]),
    ("arm:thumb", "b_imm11_imm6", 4, 21, "00f00080", [0]),
    ("x86_64", "rel32", 0, 32, "00000000", [-4, 0]),
    ("x86_64", "jmp8", 1, 8, "00", [0]),
    ("x86_64", "abs32", None, 33, "00000000", [0]),
    ("x86_64", "abs64", None, 65, "0000000000000000", [0]),
    ("riscv", "absaddr32", None, 33, "00000000", [0]),
    ("arm", "absaddr32", None, 33, "00000000", [0]),
    ("x86_64", "absaddr64", None, 65, "0000000000000000", [0]),
]


def exc_name(e):
    n = type(e).__name__
    return {"error": "struct.error", "IndexError": "KeyError"}.get(n, n)


def distances(bits, rng, thorough):
    ds = {0, 4, -4, 8, 16, -16, 64}
    for k in ((bits - 3, bits - 2, bits - 1, bits) if thorough else (bits - 2, bits - 1, bits)):
        if k < 2:
            continue
        for d in ((-8, -4, -2, 0, 2, 4, 8) if thorough else (-4, -2, 0, 2, 4)):
            ds.add((1 << k) + d)
            ds.add(-(1 << k) + d)
    for _ in range(8 if thorough else 2):
        k = rng.randint(2, bits)
        ds.add(rng.randint(-(1 << k), 1 << k) & ~3)
        ds.add(rng.randint(-(1 << k), 1 << k) & ~1)
    if thorough:
        for k in range(2, bits + 1, 2):
            ds.update({1 << k, -(1 << k), (1 << k) - 4})
    return sorted(ds)


MSIZE = 0x20      # both sections are at most 24 bytes, so distances down to 32 bytes can be laid out


def build_and_link(arch, reloc_type, addend, code_bytes, pad, sym_off, code_addr, far_addr):
    """two objects: `code` (pad + instruction, one relocation against `target`) and `far` (defines `target`)."""
    from ppci.api import link
    from ppci.binutils.objectfile import ObjectFile, RelocationEntry
    from ppci.binutils.layout import Layout, Memory, Section as LSection
    o1 = ObjectFile(arch)
    o1.get_section("code", create=True).add_data(bytes(pad) + code_bytes + bytes(4))
    o1.add_symbol(0, "target", "global", None, None, "object", 0)
    o1.add_relocation(RelocationEntry(reloc_type, 0, "code", pad, addend))
    o2 = ObjectFile(arch)
    o2.get_section("far", create=True).add_data(bytes(sym_off + 4))
    o2.add_symbol(0, "target", "global", sym_off, "far", "object", 0)
    lay = Layout()
    m1 = Memory("m1"); m1.location = code_addr; m1.size = MSIZE; m1.add_input(LSection("code")); lay.add_memory(m1)
    m2 = Memory("m2"); m2.location = far_addr; m2.size = MSIZE; m2.add_input(LSection("far")); lay.add_memory(m2)
    out = link([o1, o2], layout=lay)
    sec = out.get_section("code")
    return sec.address, bytes(sec.data), out.get_symbol_value("target")


def place(d, bias, rng, isa):
    """choose code address, padding, far address, symbol offset with S - (P + bias) = d, all non-negative"""
    pad = rng.choice([0, 4, 8] if isa != "thumb" else [0, 2, 4, 6])
    if isa == "x86_64":
        pad = rng.choice([0, 1, 3, 4])
    code_addr = rng.choice([0x1000, 0x10000, 0x100000]) if d >= 0 else rng.choice([0x1000, 0x10000]) + ((-d + 0xFFF) & ~0xFFF)
    P = code_addr + pad
    S = P + bias + d
    if S < 0:
        return None
    sym_off = S % 16
    far_addr = S - sym_off
    if far_addr < code_addr + MSIZE and code_addr < far_addr + MSIZE:     # the two memories must not overlap
        return None
    return code_addr, pad, far_addr, sym_off, P, S


def check_links(ctx):
    from ppci.api import get_arch
    reqs, meta = [], []
    for archname, rtype, bias, bits, hexbytes, addends in TYPES:
        arch = get_arch(archname)
        isa = ARCHS[archname]
        code = bytes.fromhex(hexbytes)
        for A in addends:
            dlist = distances(bits, ctx.rng, ctx.thorough)
            if rtype in ("cb_imm11", "cbl_imm11"):      # around the relaxation threshold of the rvc jumps
                dlist = sorted(set(dlist) | {2040, 2046, 2048, 2050, 2998, 4094, 4096, -2044, -2048, -2050, -4096})
            for d in dlist:
                if bias is None:          # absolute: the symbol address itself is the value
                    S = d
                    if S < 0:
                        continue
                    code_addr, pad = 0x1000, ctx.rng.choice([0, 4, 8])
                    sym_off = S % 16
                    far_addr = S - sym_off
                    if far_addr < code_addr + MSIZE and code_addr < far_addr + MSIZE:
                        code_addr = far_addr + 0x1000
                    P = code_addr + pad
                else:
                    pl = place(d - A, bias, ctx.rng, isa)
                    if pl is None:
                        ctx.count("skipped_layout_clash")
                        continue
                    code_addr, pad, far_addr, sym_off, P, S = pl
                try:
                    sec_addr, data, symval = build_and_link(arch, rtype, A, code, pad, sym_off, code_addr, far_addr)
                    site = data[pad: pad + len(code)]
                    impl = "ok " + data.hex()
                    ok = True
                    relaxed = len(data) < pad + len(code) + 4
                    if sec_addr != code_addr or symval != S:
                        ctx.disagree("layout", {"want": (code_addr, S), "got": (sec_addr, symval)}, "layout moved", "-")
                except Exception as e:  # noqa
                    impl = "err " + exc_name(e)
                    ok = False
                    site = None
                    relaxed = False
                ctx.count("programs")
                ctx.count("eval_link")
                ctx.count("link_" + ("ok" if ok else impl[4:]))
                dd = S if bias is None else S + A - P - bias
                case = {"arch": archname, "isa": isa, "reloc": rtype, "addend": A, "S": S, "P": P, "code_addr": code_addr,
                        "pad": pad, "far_addr": far_addr, "sym_off": sym_off, "d": dd, "region": region(rtype, dd)}
                before = (bytes(pad) + code + bytes(4)).hex()
                if relaxed:
                    # linker relaxation (rvc): the 4-byte jump was shrunk to C.J/C.JAL and re-relocated as bc_imm11
                    # (hole punching is C13's subject; here only the resolved target is checked)
                    ctx.count("link_relaxed")
                    case = dict(case, reloc="bc_imm11", relaxed_from=rtype, region=region("bc_imm11", dd))
                    reqs.append(f"rrep {isa} bc_imm11 {S} {A} {P}")
                    meta.append(("rrep", impl, case))
                    reqs.append(f"rtarget {isa} bc_imm11 {data[pad: pad + 2].hex()} {P}")
                    meta.append(("rtarget", impl, case))
                    continue
                reqs.append(f"dorel {isa} {rtype} {A} {sym_off} {far_addr} {code_addr} {pad} {before}")
                meta.append(("dorel", impl, case))
                reqs.append(f"rrep {isa} {rtype} {S} {A} {P}")
                meta.append(("rrep", impl, case))
                if ok:
                    reqs.append(f"rtarget {isa} {rtype} {site.hex()} {P}")
                    meta.append(("rtarget", impl, case))
    # riscv hi/lo pairs through the real linker: `lui`+`addi` (absolute), `auipc`+`addi` (pc-relative)
    from ppci.api import link
    from ppci.binutils.objectfile import ObjectFile, RelocationEntry
    from ppci.binutils.layout import Layout, Memory, Section as LSection
    arch = get_arch("riscv")
    for hi, lo, hexhi, rel in (("abs32_imm20", "abs32_imm12", "b7000000", False), ("rel_imm20", "rel_imm12", "97000000", True)):
        for d in [0, 0x7FE, 0x800, 0x802, 0xFFE, 0x1000, 0x12345678, 0x7FFFF7FE, 0x7FFFF800, 0x80000000, 0xFFFFF7FE, 0xFFFFF800, 0xFFFFFFFC, 0x100000008] + \
                [ctx.rng.getrandbits(32) & ~1 for _ in range(20 if ctx.thorough else 4)]:
            code_addr = 0x2000 if not rel else ctx.rng.choice([0x2000, 0x40000000])
            S = d if not rel else (code_addr + d) % (1 << 32)
            if rel and d >= (1 << 32):
                continue
            sym_off = S % 16
            far_addr = S - sym_off
            if far_addr < code_addr + MSIZE and code_addr < far_addr + MSIZE:
                continue
            o1 = ObjectFile(arch)
            o1.get_section("code", create=True).add_data(bytes.fromhex(hexhi) + bytes.fromhex("13000000"))
            o1.add_symbol(0, "target", "global", None, None, "object", 0)
            o1.add_relocation(RelocationEntry(hi, 0, "code", 0, 0))
            o1.add_relocation(RelocationEntry(lo, 0, "code", 4, 0))
            o2 = ObjectFile(arch)
            o2.get_section("far", create=True).add_data(bytes(sym_off + 4))
            o2.add_symbol(0, "target", "global", sym_off, "far", "object", 0)
            lay = Layout()
            m1 = Memory("m1"); m1.location = code_addr; m1.size = MSIZE; m1.add_input(LSection("code")); lay.add_memory(m1)
            m2 = Memory("m2"); m2.location = far_addr; m2.size = MSIZE; m2.add_input(LSection("far")); lay.add_memory(m2)
            try:
                out = link([o1, o2], layout=lay)
            except Exception as e:  # noqa
                ctx.count("link_" + exc_name(e))
                continue
            ctx.count("programs")
            ctx.count("eval_link")
            data = bytes(out.get_section("code").data)
            case = {"arch": "riscv", "reloc": hi + "+" + lo, "S": S, "P": code_addr}
            reqs.append(f"rhilo {data[0:4].hex()} {data[4:8].hex()}")
            meta.append(("rhilo", None, (case, rel)))
    out = ctx.driver("C11", reqs)
    rep = {}
    for rq, (kind, impl, case), m in zip(reqs, meta, out):
        if kind == "dorel":
            ctx.count("eval_dorel")
            ctx.nontrivial(rq)
            if impl != m:
                ctx.disagree("linker relocation step", rq, impl, m)
        elif kind == "rrep":
            key = (case["isa"], case["reloc"], case["S"], case["P"], case["addend"])
            rep[key] = m
            if impl.startswith("ok") and m == "ok false":
                if case.get("relaxed_from"):
                    ctx.fail(f"link:{case['relaxed_from']}@{case['isa']}:relaxed-{case['region']}",
                             f"{case['arch']} {case['relaxed_from']}: displacement {case['d']} (symbol at {case['S']}, site at {case['P']}) "
                             f"lies in {case['region']} and does not fit C.J/C.JAL, but link() relaxed the jump to the 16-bit form", case)
                    continue
                ctx.fail(f"link:{case['reloc']}@{case['isa']}:links-{case['region']}",
                         f"{case['arch']} {case['reloc']}: displacement {case['d']} (symbol at {case['S']}, site at {case['P']}, addend "
                         f"{case['addend']}) lies in {case['region']}, is not representable, but link() succeeds", case)
        elif kind == "rtarget":
            ctx.count("eval_link_property")
            key = (case["isa"], case["reloc"], case["S"], case["P"], case["addend"])
            want = case["S"] + (case["addend"] if case["reloc"] == "rel32" else 0)
            if rep.get(key) == "ok true" and m != f"ok {want}":
                ctx.fail(f"link:{case['reloc']}@{case['isa']}:wrong-target-{case['region']}",
                         f"{case['arch']} {case['reloc']}: displacement {case['d']} (symbol at {case['S']}, site at {case['P']}, region "
                         f"{case['region']}): the linked field designates {m[3:]}", case, spec_target=m)
        elif kind == "rhilo":
            c, rel = case
            ctx.count("eval_link_property")
            want = (c["S"] - c["P"]) % (1 << 32) if rel else c["S"]
            if m != f"ok {want}":
                ctx.fail(f"link:{c['reloc']}:wrong-pair-value" + ("-" + region("abs32_imm20", c["S"]) if not rel else ""),
                         f"riscv {c['reloc']}: symbol at {c['S']}, site at {c['P']}: the pair computes {m[3:]}, expected {want}", c)
    if reqs:
        ctx.sample({"request": reqs[0], "impl": meta[0][1], "model": out[0]})
        ctx.sample({"request": reqs[2], "spec": out[2]})


# ---------------------------------------------------------------------------------------------
# several relocations per link: same type with DIFFERENT addends, different symbols, interleaved with other types

# (bytes before the field, bytes after the field, relocation type, addend)
MULTI = {
    "x86_64": [("e8", "", "rel32", -4), ("833d", "07", "rel32", -5), ("c705", "78563412", "rel32", -8), ("e9", "", "rel32", -4),
               ("0f84", "", "rel32", -4), ("48b8", "", "abs64", 0), ("e8", "", "rel32", 0), ("e8", "", "rel32", 7),
               ("e8", "", "rel32", -1000), ("b8", "", "abs32", 0), ("e8", "", "rel32", 1 << 20), ("e8", "", "rel32", -(1 << 20))],
    "riscv": [("", "", "b_imm20", 0), ("", "", "b_imm12", 0), ("", "", "b_imm20", 0), ("", "", "absaddr32", 0), ("", "", "b_imm12", 0)],
    "arm": [("", "", "imm24", 0), ("", "", "imm24", 0), ("", "", "absaddr32", 0), ("", "", "imm24", 0)],
    "arm:thumb": [("", "", "wrap_new11", 0), ("", "", "bl_imm11", 0), ("", "", "rel8", 0), ("", "", "bl_imm11", 0)],
}
FIELD0 = {"b_imm20": "6f000000", "b_imm12": "63000000", "absaddr32": "00000000", "imm24": "000000ea", "wrap_new11": "00e0",
          "bl_imm11": "00f000f8", "rel8": "00d0", "rel32": "00000000", "abs32": "00000000", "abs64": "0000000000000000"}


def check_multi(ctx):
    """one link, many relocations: every field must resolve with ITS OWN symbol and ITS OWN addend
    (the list-level theorem all_sites_resolve_partial on real links, incl. heterogeneous addends)"""
    from ppci.api import link, get_arch
    from ppci.binutils.objectfile import ObjectFile, RelocationEntry
    from ppci.binutils.layout import Layout, Memory, Section as LSection
    reqs, meta = [], []
    for archname, frags in MULTI.items():
        arch = get_arch(archname)
        isa = ARCHS[archname]
        for rnd in range(12 if ctx.thorough else 4):
            order = list(frags)
            ctx.rng.shuffle(order)
            if rnd == 0:
                order = list(frags)
            near = isa in ("thumb",) or any(t in ("b_imm12", "rel8") for _, _, t, _ in order)
            code_addr = ctx.rng.choice([0x1000, 0x20000])
            far_addr = code_addr + (0x80 if near else ctx.rng.choice([0x400, 0x8000, 0x100000]))
            o1 = ObjectFile(arch)
            code = o1.get_section("code", create=True)
            o2 = ObjectFile(arch)
            o2.get_section("far", create=True).add_data(bytes(0x40))
            sym_offs = [0, 4, 16, 32]
            for k, off in enumerate(sym_offs):
                o1.add_symbol(k, f"t{k}", "global", None, None, "object", 0)
                o2.add_symbol(k, f"t{k}", "global", off, "far", "object", 0)
            o1.add_symbol(10, "here", "local", 0, "code", "object", 0)
            entries = []
            for j, (pre, post, rtype, A) in enumerate(order):
                off = code.size + len(bytes.fromhex(pre))
                code.add_data(bytes.fromhex(pre) + bytes.fromhex(FIELD0[rtype]) + bytes.fromhex(post))
                sym = 10 if (isa == "x86_64" and j % 5 == 4) else j % len(sym_offs)
                o1.add_relocation(RelocationEntry(rtype, sym, "code", off, A))
                entries.append((rtype, sym, off, A))
            before = bytes(code.data)
            lay = Layout()
            m1 = Memory("m1"); m1.location = code_addr; m1.size = 0x80; m1.add_input(LSection("code")); lay.add_memory(m1)
            m2 = Memory("m2"); m2.location = far_addr; m2.size = 0x40; m2.add_input(LSection("far")); lay.add_memory(m2)
            try:
                out = link([o1, o2], layout=lay)
                data = bytes(out.get_section("code").data)
                impl = "ok " + data.hex()
            except Exception as e:  # noqa
                impl = "err " + exc_name(e)
                data = None
            ctx.count("programs")
            ctx.count("eval_multi_link")
            ctx.count("multi_" + ("ok" if data is not None else impl[4:]))
            svals = {k: far_addr + off for k, off in enumerate(sym_offs)}
            svals[10] = code_addr
            reqs.append(f"dorels {isa} {code_addr} {before.hex()} " + ";".join(f"{t}:{o}:{A}:{svals[sy]}" for t, sy, o, A in entries))
            meta.append(("dorels", impl, None))
            ctx.nontrivial(reqs[-1])
            if data is None:
                continue
            for t, sy, o, A in entries:
                size = len(bytes.fromhex(FIELD0[t]))
                S, P = svals[sy], code_addr + o
                case = {"arch": archname, "isa": isa, "reloc": t, "S": S, "P": P, "addend": A, "multi": True,
                        "order": [f"{x[2]}:{x[3]}" for x in order]}
                reqs.append(f"rrep {isa} {t} {S} {A} {P}")
                meta.append(("rrep", impl, case))
                reqs.append(f"rtarget {isa} {t} {data[o:o + size].hex()} {P}")
                meta.append(("rtarget", impl, case))
    out = ctx.driver("C11", reqs) if reqs else []
    rep = None
    for rq, (kind, impl, case), m in zip(reqs, meta, out):
        if kind == "dorels":
            ctx.count("eval_dorels")
            if impl != m:
                ctx.disagree("do_relocations (several relocations, own addends)", rq[:300], impl[:200], m[:200])
        elif kind == "rrep":
            rep = m
        elif kind == "rtarget":
            if rep != "ok true":
                continue
            ctx.count("eval_link_property")
            ctx.count("multi_site_checked")
            want = case["S"] + (case["addend"] if case["reloc"] == "rel32" else 0)
            if m != f"ok {want}":
                ctx.fail(f"link:{case['reloc']}@{case['isa']}:wrong-target-among-several-relocations",
                         f"{case['arch']} link with several relocations ({', '.join(case['order'])}): the {case['reloc']} field at {case['P']} "
                         f"(symbol at {case['S']}, addend {case['addend']}) designates {m[3:]}, expected {want}", case)


# ---------------------------------------------------------------------------------------------
# assembled programs: the relocations the real instruction classes emit


ASM = [
    ("riscv", "riscv", "section code\n jal ra, target\n beq x1, x2, target\n j target\n", "section far\n global target\n target:\n add x1, x2, x3\n",
     [(0, "b_imm20"), (4, "b_imm12"), (8, "b_imm20")]),
    ("arm", "arm", "section code\n b target\n bl target\n", "section far\n global target\n target:\n mov r0, r1\n", [(0, "imm24"), (4, "imm24")]),
    ("arm:thumb", "thumb", "section code\n b target\n bl target\n beq target\n", "section far\n global target\n target:\n mov r0, r1\n",
     [(0, "wrap_new11"), (2, "bl_imm11"), (6, "rel8")]),
    ("x86_64", "x86_64", "section code\n jmp target\n call target\n mov rax, [target]\n jz target\n mov [target], rax\n mov [rip, 16], rax\n",
     "section far\n global target\n target:\n ret\n",
     [(1, "rel32"), (6, "rel32"), (14, "abs32"), (20, "rel32"), (28, "abs32")]),
]


def check_asm(ctx):
    from ppci.api import asm, link, get_arch
    from ppci.binutils.layout import Layout, Memory, Section as LSection
    reqs, meta = [], []
    for archname, isa, src1, src2, sites in ASM:
        arch = get_arch(archname)
        for code_addr, far_addr in [(0x1000, 0x1040), (0x1040, 0x1000), (0x1000, 0x10c0)]:
            try:
                o1 = asm(io.StringIO(src1.replace("section code\n", "section code\n global target\n")), arch)
                o2 = asm(io.StringIO(src2), arch)
                emitted = {(r.offset, r.reloc_type) for r in o1.relocations}
                lay = Layout()
                m1 = Memory("m1"); m1.location = code_addr; m1.size = 0x40; m1.add_input(LSection("code")); lay.add_memory(m1)
                m2 = Memory("m2"); m2.location = far_addr; m2.size = 0x40; m2.add_input(LSection("far")); lay.add_memory(m2)
                out = link([o1, o2], layout=lay)
            except Exception as e:  # noqa
                ctx.note(f"asm program for {archname} did not assemble/link: {type(e).__name__}: {e}"[:200])
                break
            ctx.count("programs")
            ctx.count("eval_asm_link")
            S = out.get_symbol_value("target")
            data = bytes(out.get_section("code").data)
            for off, rtype in sites:
                if (off, rtype) not in emitted:
                    ctx.disagree("asm relocation", {"arch": archname, "site": off, "type": rtype}, sorted(emitted), "expected site")
            for r in o1.relocations:          # every relocation the assembler emitted, with the addend IT chose
                off, rtype, A = r.offset, r.reloc_type, r.addend
                size = {"jmp8": 1, "wrap_new11": 2, "rel8": 2, "lit8": 2}.get(rtype, 4)
                if A != 0:
                    ctx.count(f"asm_addend_{rtype}_{A}")
                case = {"arch": archname, "isa": isa, "reloc": rtype, "S": S, "P": code_addr + off, "addend": A, "asm": True}
                reqs.append(f"rtarget {isa} {rtype} {data[off:off + size].hex()} {code_addr + off}")
                meta.append(case)
    out = ctx.driver("C11", reqs) if reqs else []
    for rq, case, m in zip(reqs, meta, out):
        ctx.count("eval_link_property")
        want = case["S"] + (case["addend"] if case["reloc"] == "rel32" else 0)
        if m != f"ok {want}":
            ctx.fail(f"link:{case['reloc']}@{case['isa']}:wrong-target-asm",
                     f"{case['arch']} assembled {case['reloc']} at {case['P']}: the linked field designates {m[3:]}, symbol is at {case['S']}", case)


# ---------------------------------------------------------------------------------------------
# whole programs: EVERY relocation site of a compiled + linked program (the list-level theorem on real objects)

C_SRC = """
int g1 = 5; int arr[4]; char msg[6];
int f(int a) { if (a > 3) return a + g1; return arr[a & 3]; }
int k(int a, int b) { while (a < b) { a = a + f(b); if (a == 17) break; } return a; }
int h(int x) { int s = 0; int i; for (i = 0; i < x; i++) { s += f(i) + k(i, x); } return s; }
void main_(void) { arr[1] = h(7); msg[2] = 1; }
"""
C_EXTRAS = ["", "int e1(int a){return f(a)+1;}\n", "int e1(int a){return f(a)+1;}\nint e2(int a){return e1(a)+f(a);}\n",
            "int e1(int a){return f(a)+h(a)+k(a,a);}\n"]
HILO_PAIRS = {("abs32_imm20", "abs32_imm12"): False, ("rel_imm20", "rel_imm12"): True}


def queue_all_sites(ctx, out, archname, isa, reqs, meta, tag):
    """queue, for EVERY relocation entry of a linked object, the Spec decode of its site against the FINAL symbol value
    (`get_symbol_id_value` of the output) and site address; also the decidable disjointness hypothesis"""
    rmap = out.arch.isa.relocation_map
    rels = list(out.relocations)
    sites = []
    for r in rels:
        sites.append((r.section, r.offset, rmap[r.reloc_type].size()))
        if r.addend != 0:             # which producers ever emit an addend? (only x86_64 rel32, -4)
            ctx.count(f"addend_nonzero_{r.reloc_type}")
            if r.reloc_type != "rel32":
                ctx.note(f"{archname}: a {tag} carries addend {r.addend} on a {r.reloc_type} relocation")
    overlap = [(a, b) for i, a in enumerate(sites) for b in sites[i + 1:]
               if a[0] == b[0] and a[1] < b[1] + b[2] and b[1] < a[1] + a[2]]
    ctx.count("eval_sites_disjoint")
    reqs.append(f"disjoint {isa} " + ";".join(f"{r.reloc_type}:{r.section}:{r.offset}" for r in rels))
    meta.append(("disjoint", not overlap, {"arch": archname, "overlap": overlap[:3]}))
    if overlap:
        ctx.note(f"{archname}: overlapping relocation sites in a {tag}: {overlap[:3]}")
    i = 0
    while i < len(rels):
        r = rels[i]
        sec = out.get_section(r.section)
        S = out.get_symbol_id_value(r.symbol_id)
        P = sec.address + r.offset
        size = sites[i][2]
        site = bytes(sec.data[r.offset: r.offset + size])
        case = {"arch": archname, "isa": isa, "reloc": r.reloc_type, "S": S, "P": P, "addend": r.addend, "program": tag,
                "d": S + r.addend - P, "region": "program", "section": r.section, "offset": r.offset}
        nxt = rels[i + 1] if i + 1 < len(rels) else None
        if nxt is not None and (r.reloc_type, nxt.reloc_type) in HILO_PAIRS and nxt.symbol_id == r.symbol_id \
                and nxt.section == r.section and nxt.offset == r.offset + 4:
            rel = HILO_PAIRS[(r.reloc_type, nxt.reloc_type)]
            lo = bytes(sec.data[nxt.offset: nxt.offset + 4])
            reqs.append(f"rhilo {site.hex()} {lo.hex()}")
            meta.append(("rhilo", None, (dict(case, reloc=r.reloc_type + "+" + nxt.reloc_type), rel)))
            i += 2
            continue
        reqs.append(f"rrep {isa} {r.reloc_type} {S} {r.addend} {P}")
        meta.append(("rrep", "ok", case))
        reqs.append(f"rtarget {isa} {r.reloc_type} {site.hex()} {P}")
        meta.append(("rtarget", "ok", case))
        i += 1


def judge_all_sites(ctx, reqs, meta, out):
    rep = None
    for rq, (kind, impl, case), m in zip(reqs, meta, out):
        if kind == "disjoint":
            if m != ("ok true" if impl else "ok false"):
                ctx.disagree("sitesDisjoint", rq[:200], impl, m)
        elif kind == "rrep":
            rep = m
            if m == "bad-op":
                ctx.count("program_site_unmodelled_type")
        elif kind == "rtarget":
            if rep != "ok true":
                if rep == "ok false":
                    ctx.fail(f"link:{case['reloc']}@{case['isa']}:program-links-unrepresentable",
                             f"{case['arch']} {case['program']}: {case['reloc']} at {case['P']} against {case['S']} is not representable but linked", case)
                continue
            ctx.count("eval_link_property")
            ctx.count("program_site_checked")
            want = case["S"] + (case["addend"] if case["reloc"] == "rel32" else 0)
            if m != f"ok {want}":
                ctx.fail(f"link:{case['reloc']}@{case['isa']}:wrong-target-in-program",
                         f"{case['arch']} {case['program']}: the {case['reloc']} site at {case['P']} ({case['section']}+{case['offset']}) designates "
                         f"{m[3:]}, its symbol's final address is {case['S']}", case)
        elif kind == "rhilo":
            c, rel = case
            ctx.count("eval_link_property")
            ctx.count("program_site_checked")
            want = (c["S"] - c["P"]) % (1 << 32) if rel else c["S"]
            if m != f"ok {want}":
                ctx.fail(f"link:{c['reloc']}:wrong-pair-value-in-program",
                         f"{c['arch']} {c['program']}: pair at {c['P']} computes {m[3:]}, expected {want}", c)


def check_programs(ctx):
    import logging
    from ppci.api import cc, link, get_arch
    from ppci.binutils.layout import Layout, Memory, Section as LSection
    reqs, meta = [], []
    for archname, isa in ARCHS.items():
        # two memories (code / data), and ONE memory holding code followed by data (for rvc the data then moves when
        # relaxation shrinks the code in front of it)
        layouts = [(0x1000, 0x8000), (0x40000, None)] + ([(0x7000000, 0x100), (0x2000, None)] if ctx.thorough else [])
        for code_addr, data_addr in layouts:
            out = None
            # in ONE memory, data behind relaxed rvc code loses its 4-byte alignment when an odd number of jumps shrinks (C13's open
            # finding relaxed-link-fails:AssertionError:absaddr32): try source variants until one links
            for extra in C_EXTRAS if data_addr is None else C_EXTRAS[:1]:
                try:
                    logging.disable(logging.CRITICAL)
                    obj = cc(io.StringIO(C_SRC + extra), archname)
                    lay = Layout()
                    m1 = Memory("m1"); m1.location = code_addr; m1.size = 0x4000; m1.add_input(LSection("code")); lay.add_memory(m1)
                    if data_addr is None:
                        m1.add_input(LSection("data"))
                    else:
                        m2 = Memory("m2"); m2.location = data_addr; m2.size = 0x1000; m2.add_input(LSection("data")); lay.add_memory(m2)
                    out = link([obj], layout=lay)
                    break
                except Exception as e:  # noqa
                    ctx.count(f"program_link_failed_{exc_name(e)}")
                    last = f"{type(e).__name__}: {e}"[:120]
                finally:
                    logging.disable(logging.NOTSET)
            if out is None:
                ctx.note(f"C program for {archname} ({'one memory' if data_addr is None else 'two memories'}) did not compile/link: {last}"
                         + (" (cf. C13 finding relaxed-link-fails:AssertionError:absaddr32)" if "rvc" in archname else ""))
                continue
            ctx.count("programs")
            ctx.count("eval_program_link")
            queue_all_sites(ctx, out, archname, isa, reqs, meta, "compiled program" + (" (one memory)" if data_addr is None else ""))
    out = ctx.driver("C11", reqs) if reqs else []
    judge_all_sites(ctx, reqs, meta, out)


# ---------------------------------------------------------------------------------------------
# rvc relaxation with sections BEHIND the shrinking one in the same memory


def check_relaxed_layouts(ctx):
    """directly built riscv:rvc objects: jumps that the linker relaxes (cb_imm11/cbl_imm11 in range) in `code`, and further
    sections (`code2`, `data`) placed behind it in the SAME memory, referenced from `code` (jumps, a lui/addi pair, a branch)
    and referencing back into `code` (in front of and behind the shrunk instructions), plus address words in `data`.
    An even number of relaxations keeps 4-byte alignment of what follows (C13's open alignment findings are not the
    subject here)."""
    from ppci.api import link, get_arch
    from ppci.binutils.objectfile import ObjectFile, RelocationEntry
    from ppci.binutils.layout import Layout, Memory, Section as LSection
    arch = get_arch("riscv:rvc")
    reqs, meta = [], []
    J, JAL, BEQ, LUI, ADDI, NOP = "6f000000", "ef000000", "63000000", "b7050000", "93850500", "13000000"
    for variant in range(6 if ctx.thorough else 3):
        o = ObjectFile(arch)
        code = o.get_section("code", create=True)
        code2 = o.get_section("code2", create=True)
        data = o.get_section("data", create=True)
        syms = {}

        def sym(name, section, value):
            syms[name] = len(syms)
            o.add_symbol(syms[name], name, "global", value, section.name, "object", 0)

        def emit(section, hexbytes, rtype=None, target=None):
            off = section.size
            section.add_data(bytes.fromhex(hexbytes))
            if rtype:
                pending.append((rtype, target, section.name, off))
        pending = []
        n_relax = (2, 4, 2, 6, 2, 4)[variant]
        sym("start", code, 0)
        emit(code, NOP)
        for k in range(n_relax):                       # in range: the linker relaxes these
            emit(code, JAL if k % 2 == 0 else J, "cbl_imm11" if k % 2 == 0 else "cb_imm11", ("f2", "near", "g2")[k % 3])
        sym("near", code, code.size)
        emit(code, NOP)
        emit(code, BEQ, "b_imm12", "f2")               # forward branch across the section boundary
        emit(code, LUI, "abs32_imm20", "var"); emit(code, ADDI, "abs32_imm12", "var")
        emit(code, JAL, "b_imm20", "g2")
        sym("after", code, code.size)
        emit(code, NOP)
        for _ in range(ctx.rng.randrange(0, 3)):
            emit(code, NOP)
        sym("f2", code2, 0)
        emit(code2, NOP)
        emit(code2, J, "b_imm20", "start")             # backward across the boundary, in front of the shrunk jumps
        emit(code2, BEQ, "b_imm12", "after")           # backward to a label BEHIND the shrunk jumps
        sym("g2", code2, code2.size)
        emit(code2, JAL, "b_imm20", "near")
        emit(code2, LUI, "abs32_imm20", "tab"); emit(code2, ADDI, "abs32_imm12", "tab")
        emit(data, "00000000" * (1 + variant % 2))
        sym("var", data, data.size)
        emit(data, "00000000", "absaddr32", "f2")
        emit(data, "00000000", "absaddr32", "after")
        sym("tab", data, data.size)
        emit(data, "00000000", "absaddr32", "var")
        for rtype, target, secname, off in pending:
            o.add_relocation(RelocationEntry(rtype, syms[target], secname, off, 0))
        lay = Layout()
        base = (0x1000, 0x20000, 0x400)[variant % 3]
        m1 = Memory("m1"); m1.location = base; m1.size = 0x1000
        for n in ("code", "code2", "data"):
            m1.add_input(LSection(n))
        lay.add_memory(m1)
        try:
            out = link([o], layout=lay)
        except Exception as e:  # noqa
            ctx.count(f"relaxed_layout_link_failed_{exc_name(e)}")
            ctx.note(f"rvc relaxed-layout object {variant} did not link: {type(e).__name__}: {e}"[:160])
            continue
        ctx.count("programs")
        ctx.count("eval_relaxed_layout_link")
        shrunk = sum(1 for r in out.relocations if r.reloc_type == "bc_imm11")
        ctx.count("relaxed_layout_jumps_shrunk", shrunk)
        if shrunk == 0:
            ctx.note(f"rvc relaxed-layout object {variant}: no jump was relaxed")
        queue_all_sites(ctx, out, "riscv:rvc", "riscv", reqs, meta, f"rvc object with {shrunk} relaxed jumps and sections behind the code")
    res = ctx.driver("C11", reqs) if reqs else []
    judge_all_sites(ctx, reqs, meta, res)


# ---------------------------------------------------------------------------------------------
# spec validation against LLVM's disassembler (thorough)

LLVM = [("riscv", "b_imm12", "riscv32", [], "63000000"), ("riscv", "b_imm20", "riscv32", [], "6f000000"),
        ("riscv", "bc_imm11", "riscv32", ["-mattr=+c"], "01a0"), ("riscv", "bc_imm8", "riscv32", ["-mattr=+c"], "01c0"),
        ("arm", "imm24", "armv7", [], "000000ea"), ("thumb", "wrap_new11", "thumbv7", [], "00e0"),
        ("thumb", "rel8", "thumbv7", [], "00d0"), ("thumb", "bl_imm11", "thumbv7", [], "00f000f8")]
PC_BIAS = {"arm": 8, "thumb": 4, "riscv": 0}


def check_llvm(ctx):
    """Spec.RelocSem decoders vs the operand LLVM prints for the same bytes (offset relative to PC(+8/+4))."""
    import re
    from ppci.api import get_arch
    classes = {}
    for archname, isa in ARCHS.items():
        for k, v in get_arch(archname).isa.relocation_map.items():
            classes.setdefault((isa, k), v)
    cases = []
    for isa, rtype, triple, extra, hexbytes in LLVM:
        cls = classes[(isa, rtype)]
        for d in distances({"b_imm12": 13, "b_imm20": 21, "bc_imm11": 12, "bc_imm8": 9, "imm24": 26, "wrap_new11": 12, "rel8": 9,
                            "bl_imm11": 23}[rtype], ctx.rng, False):
            P = 0x100000
            S = P + PC_BIAS[isa] + d
            try:
                data = bytes(cls(None).apply(S, bytearray.fromhex(hexbytes), P))
            except Exception:  # noqa
                continue
            cases.append((isa, rtype, triple, extra, data))
    reqs = [f"roff {isa} {rtype} {data.hex()}" for isa, rtype, _t, _e, data in cases]
    out = ctx.driver("C11", reqs) if reqs else []
    # one llvm-mc process per (triple, attributes): one instruction per input line, one output line each
    groups = {}
    for i, (isa, rtype, triple, extra, data) in enumerate(cases):
        groups.setdefault((triple, tuple(extra)), []).append(i)
    llvm = {}
    for (triple, extra), idxs in groups.items():
        txt = "".join(" ".join(f"0x{b:02x}" for b in cases[i][4]) + "\n" for i in idxs)
        p = subprocess.run(["llvm-mc", "--disassemble", f"--triple={triple}", *extra], input=txt, capture_output=True, text=True)
        lines = [l for l in p.stdout.splitlines() if l.strip() and not l.strip().startswith(".")]
        if len(lines) != len(idxs):
            ctx.note(f"llvm-mc {triple}: {len(lines)} instructions for {len(idxs)} inputs; group skipped")
            continue
        for i, l in zip(idxs, lines):
            llvm[i] = l
    for i, ((isa, rtype, triple, extra, data), m) in enumerate(zip(cases, out)):
        if i not in llvm:
            continue
        nums = re.findall(r"#?(-?\d+)\s*$", llvm[i].strip())
        ctx.count("eval_llvm_spec_validation")
        if not nums:
            ctx.count("llvm_no_operand")
            continue
        llvm_off = int(nums[-1]) + PC_BIAS[isa]          # LLVM prints the offset relative to PC (+8 arm, +4 thumb)
        if m != f"ok {llvm_off}":
            ctx.disagree("Spec.RelocSem vs llvm-mc", {"isa": isa, "type": rtype, "bytes": data.hex(), "llvm": llvm[i].strip()},
                         f"llvm offset {llvm_off}", m)


def check(ctx):
    if ctx.build_ok is False:
        try:
            if ctx.driver("C11", ["roff riscv b_imm12 630800f6"]) != ["ok -2192"]:
                raise common.BrokenCheck("driver")
        except Exception:  # noqa
            ctx.note("proofs do not build and the driver cannot run: no failing-input search possible")
            return
    check_links(ctx)
    check_multi(ctx)
    check_asm(ctx)
    check_programs(ctx)
    check_relaxed_layouts(ctx)
    if ctx.thorough:
        check_llvm(ctx)
    ctx.extra_cov["exhaustive"] = False
    ctx.extra_cov["relocation_types"] = [f"{a}/{t}" for a, t, *_ in TYPES] + ["riscv/abs32_imm20+abs32_imm12", "riscv/rel_imm20+rel_imm12"]
    ctx.extra_cov["spec_validation"] = "llvm-mc --disassemble (thorough tier)" if ctx.thorough else "thorough tier only"


def replay(ctx, rp):
    check(ctx)


def regen(ctx):
    """T1: py2lean translation of relocation calc/apply bodies (+ the bitfun helpers they call); harness/t1.py"""
    from . import t1
    t1.regen_many(ctx, t1.RELOC_KEYS)
