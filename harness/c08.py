"""C08 — instruction encodings agree with the architecture reference.

riscv (Thm B): correspondence of Model.RVEnc (encoder, printed tokens) with the real classes, the
property evaluated on the REAL bytes and the REAL printed text with the Lean decoder
`Spec.RV32.decode/decodeC` as oracle; the Lean decoder itself is validated against llvm-mc 14.
all ISAs (Thm A): regenerated T2 tables (shared with C10) + `decide +kernel`.
other ISAs with an llvm disassembler: failing-input search only (harness/c08_llvm.py)."""
import re

from harness import rvlib
from harness import c08_llvm

PROP = "C08"
LEAN_PROPS = "PpciVerif/Props/C08.lean"
LEAN_TARGETS = ["PpciVerif.Props.C08", "Drivers.C08"]
LEVEL = "proof"
LEVEL_TEXT = (
    "P. (B, riscv) Lean theorem for ALL 96 modelled RV32I/M/Zicsr/RVC instruction classes, all registers and all "
    "architecturally in-range immediates: the bytes of the encoder model decode, under a decoder written from the ISA "
    "manual (Spec.RV32), to the instruction the class is meant to be, and the tokens the class prints are a spelling "
    "(canonical form or an ISA-manual pseudo-instruction) of that instruction; exceptions are proved as negation witnesses "
    "and listed as open findings. The encoder model is hand-written and tied to ppci by a differential run (real encode() "
    "bytes and str() of real instances); the property is evaluated on the real bytes/text on every run. "
    "(A, all 14 ISA tables) kernel-checked on the regenerated T2 tables: in every declarative class no operand field is "
    "overwritten by a later pattern and all fixed values fit, hence (generic lemma) the emitted fields determine the "
    "operands modulo 2^width (no two in-range operand tuples collide) and every fixed field holds its declared value. "
    "Other ISAs' architectural meaning is NOT proved: arm/thumb/x86_64/msp430/avr/m68k/mips are searched for failing "
    "inputs with llvm-mc as reference disassembler; or1k, xtensa, microblaze have no reference here.")
LEVEL_NOTE = (
    "trusted: Lean kernel; Spec.RV32 (validated against llvm-mc 14 on boundary/random words each run, hints/reserved "
    "encodings excluded); the harness tokeniser of ppci's printed text; hand encoder model <-> source correspondence is "
    "sampled in quick (exhaustive register tuples in thorough), not proved; float classes (rvf/rvfx) not modelled")
TECHNIQUE = ("Lean 4 proof (omega on bit-field arithmetic, case split over classes) over a hand encoder model + differential "
             "correspondence; decide +kernel over regenerated tables; llvm-mc only validates the spec / searches failing inputs")
RULE = ("riscv: per class, register tuples exhaustive (thorough) or corners+random (quick) x immediates {bounds, ±2^k, ±2^k±1, random}; "
        "distinct = distinct (class, operands); non-trivial = has a register or immediate operand. "
        "spec validation: random 32/16-bit words + every real encoding. other ISAs: per class instances over register operands "
        "and boundary/random immediates")
TRUSTED = [
    "Spec.RV32 (decode/decodeC/printing, written from the RISC-V ISA manual; validated against llvm-mc 14 each run)",
    "hand model Model.RVEnc of ppci/arch/riscv/{instructions,rvc_instructions}.py, tied by differential run on every check",
    "harness tokeniser of printed instruction text (split at blanks, commas, parentheses)",
    "translate/tables.py (T2 dump of tokens/patterns, shared with C10)",
]
ASSUMPTIONS = [
    "a label operand leaves its field 0 and is filled by a relocation (C11); it is compared as the offset 0",
    "operands outside the architectural range (accepted or not) are C10's subject; C08 is evaluated on in-range operands",
]

# operands that reproduce the open findings (and past defects) on every run: (class, a, b, c, imm)
CORPUS = [
    ("Addi", 5, 5, 0, 4095), ("Addi", 5, 6, 0, -1), ("Addi", 5, 6, 0, -2048), ("Addi", 5, 6, 0, 2047),
    ("Ble", 5, 6, 0, 0), ("Bgt", 5, 6, 0, 0), ("Bleu", 31, 1, 0, 0), ("Csrw", 3072, 0, 0, 0), ("Csrs", 768, 0, 0, 0),
    ("CAddi", 5, 5, 0, -1), ("CAddi", 5, 5, 0, -32), ("CAddi", 5, 5, 0, 31),
    ("CAndi", 8, 8, 0, -1), ("CAndi", 15, 15, 0, -32),
    ("CSlli", 5, 5, 0, 20), ("CSlli", 5, 5, 0, 31), ("CSlli", 5, 6, 0, 3),
    ("CBnez", 9, 0, 0, 0), ("CBeqz", 9, 0, 0, 0),
    ("Adrlrel", 7, 0, 0, 0), ("Loadlrel", 3, 9, 0, 0),
    ("Srai", 5, 6, 0, 31), ("Srli", 5, 6, 0, 31), ("Sw", 5, 6, 0, -4), ("Sw", 5, 6, 0, 2047), ("Sb", 31, 31, 0, -2048),
    ("Lui", 5, 0, 0, 1048575), ("CLui", 5, 0, 0, -3), ("CAddi16sp", 0, 0, 0, -512), ("CAddi16sp", 0, 0, 0, 496),
    ("CAddi4spn", 8, 0, 0, 1020), ("CLwsp", 5, 0, 0, 252), ("CSwsp", 5, 0, 0, 252), ("CLw", 8, 9, 0, 124),
]


def real(name, a, b, c, imm):
    try:
        ins = rvlib.make(name, a, b, c, imm)
        text = str(ins)
        bs = ins.encode()
        return "ok", bytes(bs), text, str(ins)
    except Exception as e:  # noqa
        return "err", type(e).__name__, "", ""


def riscv_cases(ctx, classes):
    cases = list(CORPUS)
    for f in ctx.known_findings("open"):
        inp = f.get("input") or {}
        if isinstance(inp, dict) and inp.get("isa") == "riscv":
            cases.append((inp["cls"], inp["a"], inp["b"], inp["c"], inp["imm"]))
    nreg = 4000 if ctx.thorough else 24
    for name in classes:
        doms, immd = rvlib.domain(name)
        nfree = len([d for d in doms if d != "=0"])
        exhaustive = ctx.thorough and nfree <= 2
        tuples = rvlib.reg_tuples(ctx.rng, doms, exhaustive, nreg)
        if immd is None:
            for t in tuples:
                cases.append((name, t[0], t[1], t[2], 0))
        else:
            lo, hi, stepv, excl = immd
            full = ctx.thorough and (hi - lo) // stepv <= 4096
            if full:
                allv = [v for v in range(lo, hi, stepv) if v not in excl]
                few = tuples if len(tuples) <= 6 else [tuples[0], tuples[-1]] + ctx.rng.sample(tuples, 4)
                for t in few:
                    for v in allv:
                        cases.append((name, t[0], t[1], t[2], v))
            vals = rvlib.imm_values(ctx.rng, lo, hi, stepv, 12 if ctx.thorough else 4, excl)
            for j, t in enumerate(tuples):
                few_t = (len(tuples) <= 64) if ctx.thorough else (j < 3)
                vs = vals if few_t else ctx.rng.sample(vals, min(len(vals), 4 if ctx.thorough else 3))
                for v in vs:
                    cases.append((name, t[0], t[1], t[2], v))
    return cases


def check_riscv(ctx):
    from pathlib import Path
    classes = (Path(__file__).resolve().parent.parent / "translate" / "c07_classes.txt").read_text().split()
    # every encodable non-float class of the two riscv ISAs must be modelled
    I, C, R = rvlib.modules()
    modelled = {rvlib.pyclass(n) for n in classes}
    for mod, isa in ((I, I.isa), (C, C.rvcisa)):
        for cls in isa.instructions:
            if not getattr(cls, "syntax", None) or not hasattr(cls, "tokens") or cls.__module__ != mod.__name__:
                continue
            if cls.__name__ in ("Dcd2",):
                continue
            if cls not in modelled:
                ctx.disagree("class-list", cls.__name__, "present in " + mod.__name__, "not modelled in Model.RVEnc")
    cases = riscv_cases(ctx, classes)
    seen, uniq = set(), []
    for cse in cases:
        if cse not in seen:
            seen.add(cse); uniq.append(cse)
    cases = uniq
    reqs = [f"enc {n} {a} {b} {c} {imm}" for (n, a, b, c, imm) in cases]
    reals = [real(*cse) for cse in cases]
    # property on the real bytes + real text, oracle = Lean decoder
    sp_reqs, sp_idx = [], []
    for k, (cse, rl) in enumerate(zip(cases, reals)):
        if rl[0] == "ok":
            sp_reqs.append(f"spell {rl[1].hex()} {rvlib.tokenise(rl[2])}")
            sp_idx.append(k)
    out = ctx.driver("C08", ["classes"] + reqs + sp_reqs)
    if out[0][3:].split(",") != classes:
        ctx.disagree("class-list", "translate/c07_classes.txt", classes, out[0][3:].split(","))
    model = out[1:1 + len(reqs)]
    spelled = dict(zip(sp_idx, out[1 + len(reqs):]))
    for k, (cse, rl, m) in enumerate(zip(cases, reals, model)):
        name = cse[0]
        ctx.count("eval_riscv_enc")
        ctx.count("class_" + name)
        if any(cse[1:]):
            ctx.nontrivial(cse)
        if m.startswith("err "):
            mi = ("err", m[4:])
            if rl[0] != "err" or rl[1] != mi[1]:
                ctx.disagree("riscv-encode", list(cse), rl[1].hex() if rl[0] == "ok" else "err " + rl[1], m)
            ctx.count("err_" + mi[1])
            continue
        f = dict(p.split("=", 1) for p in re.findall(r"(?:valid|dec|mean|same|spelled|toks)=.*?(?= (?:valid|dec|mean|same|spelled|toks)=|$)", m))
        mbytes = m.split()[1]
        if rl[0] == "err":
            ctx.disagree("riscv-encode", list(cse), "err " + rl[1], m)
            if f["valid"] == "1":
                ctx.fail(f"riscv:{name}:rejects-valid-operands", f"{name}{cse[1:]} raised {rl[1]}", list(cse))
            continue
        rbytes, rtext = rl[1].hex(), rl[2]
        rtoks = rvlib.tokenise(rtext)
        if rl[3] != rtext:
            ctx.fail(f"riscv:{name}:encode-changes-printed-operand",
                     f"{rtext!r} prints as {rl[3]!r} after encode()", list(cse), before=rtext, after=rl[3])
        if rbytes != mbytes:
            ctx.disagree("riscv-encode", list(cse), rbytes, mbytes)
        if rtoks != f["toks"]:
            ctx.disagree("riscv-text", list(cse), rtoks, f["toks"])
        if k < 3 or k % 997 == 0:
            ctx.sample({"case": list(cse), "bytes": rbytes, "printed": rtext, "decoded_by_spec": f["dec"]})
        if f["valid"] != "1":
            ctx.count("out_of_range_operands")
            # accepted although out of the architectural range: C10's subject; one representative
            # (addi with 4095) is tracked as a finding because ppci itself emits it (Li)
            if name == "Addi" and cse[4] == 4095 and spelled.get(k, "").startswith("ok 0"):
                ctx.fail("riscv:IBase:unsigned-imm12-printed", f"{rtext!r} encodes {rbytes} = {f['dec']!r}", list(cse),
                         printed=rtext, bytes=rbytes, decoded=f["dec"])
            continue
        sp = spelled.get(k, "")
        if sp == "ok 1":
            continue
        if rbytes == mbytes and f["same"] == "1":
            kind = "printed-text"
        elif sp == "ok none":
            kind = "undecodable"
        else:
            kind = "encoding"
        if name == "Adrlrel" and kind == "printed-text":
            ctx.count("unknown_spelling_Adrlrel")     # `addi rd, label`: ppci's private two-operand relocation form
            continue
        ctx.fail(f"riscv:{name}:{kind}", f"{rtext!r} encodes {rbytes}, which is {sp[5:]!r}"
                 if sp.startswith("ok 0") else f"{rtext!r} encodes {rbytes}, which is no instruction", list(cse),
                 printed=rtext, bytes=rbytes, oracle=sp, model=m)
    return cases, reals


# --- validation of Spec.RV32 against llvm-mc -------------------------------------------------

LLVM_ONLY = re.compile(
    r"^(fence\.tso|fence\.i|fence .*unknown.*|wfi|sret|uret|dret|c\.unimp|sfence\.vma .*|c\.nop -?\d+"
    r"|c\.lui x\d+, 0|c\.lwsp x0, .*|c\.addi4spn x\d+, x2, 0|c\.addi16sp x2, 0|c\.jr x0)$")


def norm_llvm(l):
    if l == "unimp":      # the assembler manual's name for csrrw x0, cycle, x0
        return "csrrw x0, 3072, x0"
    m = re.fullmatch(r"jalr (x\d+), (-?\d+)\((x\d+)\)", l)
    if m:
        return f"jalr {m.group(1)}, {m.group(3)}, {m.group(2)}"
    m = re.fullmatch(r"(c\.lui x\d+), (\d+)", l)
    if m:
        v = int(m.group(2))
        return f"{m.group(1)}, {v - (1 << 20) if v >= (1 << 19) else v}"
    m = re.fullmatch(r"c\.s(lli|rli|rai)64 (x\d+)", l)
    if m:   # shamt = 0 is a HINT that llvm prints with the RV128 mnemonic
        return f"c.s{m.group(1)} {m.group(2)}, 0"
    m = re.fullmatch(r"fence (\w+), (\w+)", l)
    if m:
        def num(s):
            return str(sum({"i": 8, "o": 4, "r": 2, "w": 1}[ch] for ch in s)) if s != "0" else "0"
        try:
            return f"fence {num(m.group(1))}, {num(m.group(2))}"
        except KeyError:
            return l
    m = re.fullmatch(r"(csrr[wsc]i?) (x\d+), (\w+), (\w+)", l)
    if m and not m.group(3).isdigit():
        return f"{m.group(1)} {m.group(2)}, CSR, {m.group(4)}"
    return l


def norm_spec(l, llvm_line):
    # llvm prints CSR names where it knows one: compare those modulo the CSR operand
    m = re.fullmatch(r"(csrr[wsc]i?) (x\d+), (\d+), (\w+)", l)
    if m and ", CSR, " in llvm_line:
        return f"{m.group(1)} {m.group(2)}, CSR, {m.group(4)}"
    return l


def shift_big(l):
    # llvm 14 decodes the RV64 6-bit shift amounts on riscv32 too; shamt[5] = 1 is reserved on RV32
    m = re.fullmatch(r"(?:c\.)?s(lli|rli|rai) x\d+, (?:x\d+, )?(\d+)", l)
    return bool(m) and int(m.group(2)) >= 32


def validate_spec(ctx, real_encodings):
    rng = ctx.rng
    n = 60000 if ctx.thorough else 2500
    words32, words16 = [], []
    uniq_real = list(dict.fromkeys(bytes(b) for b in real_encodings))
    cap = 60000 if ctx.thorough else 6000
    if len(uniq_real) > cap:
        uniq_real = rng.sample(uniq_real, cap)
    for bs in uniq_real:
        (words32 if len(bs) == 4 else words16).append(bs)
    opcodes = [0x37, 0x17, 0x6f, 0x67, 0x63, 0x03, 0x23, 0x13, 0x33, 0x0f, 0x73]
    for _ in range(n):
        w = rng.getrandbits(32)
        r = rng.random()
        if r < 0.8:
            w = (w & ~0x7F) | rng.choice(opcodes)
        if r < 0.3 and (w & 0x7F) in (0x33, 0x13):
            w = (w & ~(0x7F << 25)) | (rng.choice([0, 0x20, 1]) << 25)
        if (w & 3) != 3:
            w |= 3
        words32.append(w.to_bytes(4, "little"))
    if ctx.thorough:
        words16 += [h.to_bytes(2, "little") for h in range(1 << 16) if (h & 3) != 3]
        ctx.extra_cov["rvc_parcels_exhaustive"] = True
    else:
        for _ in range(n):
            h = rng.getrandbits(16)
            if (h & 3) == 3:
                h &= ~rng.choice([1, 2])
            words16.append(h.to_bytes(2, "little"))
    words32 = list(dict.fromkeys(words32))
    words16 = list(dict.fromkeys(words16))
    allw = words32 + words16
    spec = ctx.driver("C08", [("dec " if len(b) == 4 else "decc ") + b.hex() for b in allw])
    CH = 20000
    llvm = []
    for i in range(0, len(allw), CH):
        llvm += rvlib.llvm_mc_disassemble(allw[i:i + CH])
    for b, s, l in zip(allw, spec, llvm):
        ctx.count("eval_spec_vs_llvm")
        s = s[3:]
        if len(b) == 4 and len(l) != 1:
            # llvm split the word into parcels or decoded nothing
            l = []
        lt = norm_llvm(l[0]) if l else "none"
        st = norm_spec(s, lt)
        if st == lt:
            ctx.count("spec_llvm_agree_" + ("none" if st == "none" else "insn"))
            continue
        if st == "none" and (LLVM_ONLY.match(lt) or shift_big(lt)):
            ctx.count("llvm_only_hint_or_reserved")
            continue
        if st == "none" and lt.startswith("fence ") and len(b) == 4:
            w = int.from_bytes(b, "little")
            if (w >> 7) & 0x1F or (w >> 15) & 0x1F or (w >> 28):
                ctx.count("llvm_only_hint_or_reserved")   # reserved fence fields set
                continue
        ctx.disagree("spec-vs-llvm", b.hex(), lt, st)


def regen(ctx):
    c08_llvm.regen(ctx)


def check(ctx):
    cases, reals = check_riscv(ctx)
    validate_spec(ctx, [r[1] for r in reals if r[0] == "ok"])
    c08_llvm.check(ctx)
    ctx.extra_cov["exhaustive"] = False
    ctx.extra_cov["riscv_classes_modelled"] = len({c[0] for c in cases})


def replay(ctx, rp):
    check(ctx)
