"""Shared by C15 (IR text format) and C16 (IR JSON): module sources and helpers.

Module sources (all are real `ppci.ir.Module` objects built through ppci's own API):
  * `corner_modules()`  hand-built modules: every instruction kind, operator, type, constant
    class, initialised globals, volatile accesses, forward references, and one module per
    known finding (tagged with the reason the Lean fragment predicate must report);
  * `generated(ctx, n)` harness/irgen.py modules under several configurations, then *decorated*:
    volatile flags, initialised globals with address parts, special float / huge integer
    constants, names with a leading underscore, shuffled block order (forward references);
  * `c_modules()`       C front-end output (irgen.c_modules), plain and after mem2reg etc.
"""
import io
import re
import struct

from ppci import ir
from harness import irgen, irser

SPECIAL_FLOATS = [1e30, 1e-7, 5e-324, 1.7976931348623157e308, -0.0, 123456789.125, -2.5e-300, 1e16,
                  1e22, 0.1, 1.5, -1.5, 2.2250738585072014e-308, 9007199254740993.0, 3.141592653589793,
                  1e15, 1e-5, 0.0001, 123456789012345680.0]
NONFINITE = [float("inf"), float("-inf"), float("nan")]


def fbits(x):
    return struct.unpack("<Q", struct.pack("<d", float(x)))[0]


def float_table(module):
    """{bits: str(value)} of every float constant: CPython is the oracle for float <-> text"""
    tab = {}
    for f in module.functions:
        for b in f.blocks:
            for i in b.instructions:
                if isinstance(i, ir.Const) and isinstance(i.value, float):
                    tab[fbits(i.value)] = str(i.value)
    return tab


def ftab_line(tab):
    return "ftab " + (";".join(f"{b}:{t.encode().hex()}" for b, t in sorted(tab.items())) or "-")


_PHI = re.compile(r"\(phi (\S+) (\(blob \d+ \d+\)|\S+)((?: \([^()]*\))+)\)")


def norm_phi(sexpr):
    """phi inputs are a dictionary: order them canonically"""
    def fix(mo):
        items = sorted(re.findall(r"\([^()]*\)", mo.group(3)))
        return f"(phi {mo.group(1)} {mo.group(2)} {' '.join(items)})"
    return _PHI.sub(fix, sexpr)


def all_names(module):
    out = [module.name] + [e.name for e in module.externals] + [v.name for v in module.variables]
    for f in module.functions:
        out.append(f.name)
        out += [p.name for p in f.arguments]
        for b in f.blocks:
            out.append(b.name)
            out += [i.name for i in b.instructions if isinstance(i, ir.Value)]
    return out


def plain_names(module):
    """irser hex-escapes unusual names; the Lean side would then see other names than ppci"""
    return all(irser.atom(n) == n and "!" not in n for n in all_names(module))


# ---------------------------------------------------------------------------------------------
# hand-built modules

def _fn(m, name="f", ret=ir.i32, params=(), binding=ir.Binding.GLOBAL):
    f = ir.Function(name, binding, ret) if ret is not None else ir.Procedure(name, binding)
    m.add_function(f)
    ps = []
    for n, t in params:
        p = ir.Parameter(n, t)
        f.add_parameter(p)
        ps.append(p)
    return f, ps


def _blocks(f, *names):
    bs = []
    for n in names:
        b = ir.Block(n)
        f.add_block(b)
        bs.append(b)
    f.entry = bs[0]
    return bs


def _add(b, *instrs):
    for i in instrs:
        b.add_instruction(i)
    return instrs[-1]


def m_all_kinds():
    """every instruction kind, every operator, every type"""
    m = ir.Module("kinds")
    m.add_external(ir.ExternalVariable("xv"))
    xf = ir.ExternalFunction("xf", [ir.i32, ir.ptr], ir.i64)
    xp = ir.ExternalProcedure("xp", [])
    xq = ir.ExternalProcedure("xq", [ir.u8, ir.f64, ir.f32])
    for e in (xf, xp, xq):
        m.add_external(e)
    g0 = ir.Variable("g0", ir.Binding.GLOBAL, 8, 8)
    g1 = ir.Variable("g1", ir.Binding.LOCAL, 4, 4, value=b"\x01\x02\x03\xff")
    g2 = ir.Variable("g2", ir.Binding.GLOBAL, 24, 8, value=(b"\x00" * 8, (ir.ptr, "g0"), (ir.ptr, "hlp")))
    g3 = ir.Variable("g3", ir.Binding.GLOBAL, 40, 1, value=bytes(range(40)))
    g4 = ir.Variable("g4", ir.Binding.GLOBAL, 0, 1, value=b"")
    for v in (g0, g1, g2, g3, g4):
        m.add_variable(v)
    hlp, (hp,) = _fn(m, "hlp", None, [("p", ir.ptr)], ir.Binding.LOCAL)
    (hb,) = _blocks(hlp, "hlp_entry")
    _add(hb, ir.Exit())
    f, (a, b, p, d) = _fn(m, "f", ir.i32, [("a", ir.i32), ("b", ir.i32), ("p", ir.ptr), ("d", ir.f64)])
    e, l, r, j = _blocks(f, "entry", "left", "right", "join")
    vals = []
    for k, op in enumerate(ir.Binop.ops):
        vals.append(_add(e, ir.Binop(a, op, b, f"bin{k}", ir.i32)))
    n1 = _add(e, ir.Unop("-", a, "neg", ir.i32))
    n2 = _add(e, ir.Unop("~", b, "inv", ir.i32))
    for t in ir.all_types:
        _add(e, ir.Cast(a, "cast_" + t.name, t))
    al = _add(e, ir.Alloc("slot", 16, 8))
    ad = _add(e, ir.AddressOf(al, "slot_addr"))
    lit = _add(e, ir.LiteralData(b"hello\x00\xfe", "lit"))
    la = _add(e, ir.AddressOf(lit, "lit_addr"))
    big = _add(e, ir.LiteralData(bytes(range(70)), "biglit"))
    _add(e, ir.AddressOf(big, "biglit_addr"))
    emp = _add(e, ir.LiteralData(b"", "emptylit"))
    _add(e, ir.Store(a, ad), ir.Store(d, p, volatile=True))
    ld = _add(e, ir.Load(ad, "ld", ir.i32))
    lv = _add(e, ir.Load(g0, "lv", ir.u16, volatile=True))
    lp = _add(e, ir.Load(p, "lp", ir.ptr))
    _add(e, ir.CopyBlob(ad, la, 7), ir.CopyBlob(g3, g0, 8))
    un = _add(e, ir.Undefined("und", ir.i32))
    c64 = _add(e, ir.FunctionCall(xf, [ld, lp], "c64", ir.i64))
    _add(e, ir.ProcedureCall(xp, []), ir.ProcedureCall(hlp, [g2]))
    fp = _add(e, ir.Cast(a, "fptr", ir.ptr))
    _add(e, ir.ProcedureCall(fp, [a, a]))          # indirect call, duplicated argument
    u8 = _add(e, ir.Cast(a, "as_u8", ir.u8))
    f32 = _add(e, ir.Cast(d, "as_f32", ir.f32))
    _add(e, ir.ProcedureCall(xq, [u8, d, f32]))
    _add(e, ir.CJump(a, "<", b, l, r))
    x1 = _add(l, ir.Binop(n1, "+", n2, "x1", ir.i32))
    _add(l, ir.Jump(j))
    x2 = _add(r, ir.Binop(ld, "*", vals[0], "x2", ir.i32))
    _add(r, ir.CJump(x2, "!=", a, j, l))
    ph = ir.Phi("ph", ir.i32)
    _add(j, ph)
    ph.set_incoming(r, x2)
    ph.set_incoming(l, x1)
    ph2 = ir.Phi("ph2", ir.i32)
    _add(j, ph2)
    ph2.set_incoming(l, a)
    ph2.set_incoming(r, a)                         # same value from two predecessors
    s = _add(j, ir.Binop(ph, "+", ph2, "s", ir.i32))
    _add(j, ir.Return(s))
    for k, c in enumerate(ir.CJump.conditions):
        g, (q,) = _fn(m, f"cond{k}", ir.i8, [("q", ir.i8)])
        b0, b1, b2 = _blocks(g, "c_entry", "c_yes", "c_no")
        _add(b0, ir.CJump(q, c, q, b1, b2))
        one = _add(b1, ir.Const(1, "one", ir.i8))
        _add(b1, ir.Return(one))
        zero = _add(b2, ir.Const(0, "zero", ir.i8))
        _add(b2, ir.Return(zero))
    return m


def m_constants():
    m = ir.Module("consts")
    f, _ = _fn(m, "f", ir.i32)
    (e,) = _blocks(f, "entry")
    k = 0
    for t in ir.value_types + [ir.ptr]:
        if isinstance(t, ir.FloatingPointTyp):
            vs = SPECIAL_FLOATS + [3, -7]
        elif t is ir.ptr:
            vs = [0, 1, 2 ** 64 - 1, 2 ** 32]
        else:
            lo, hi = irgen.type_range(t)
            vs = [0, 1, -1 if t.signed else 2, lo, hi, lo + 1, hi - 1, hi + 1, lo - 1, 10 ** 40, -10 ** 40]
        for v in vs:
            _add(e, ir.Const(v, f"c{k}", t))
            k += 1
    z = _add(e, ir.Const(0, "z", ir.i32))
    _add(e, ir.Return(z))
    return m


def m_forward(t, kind):
    """block order not a dominance order: a value is used textually before its definition"""
    m = ir.Module("fwd")
    f, (p,) = _fn(m, "f", t, [("p", t)])
    e, b2, b1 = _blocks(f, "entry", "b2", "b1")
    _add(e, ir.Jump(b1))
    x = _add(b1, ir.Binop(p, "+", p, "x", t))
    _add(b1, ir.Jump(b2))
    if kind == "binop":
        y = ir.Binop(x, "+", p, "y", t)
    elif kind == "binop2":
        y = ir.Binop(x, "*", x, "y", t)
    elif kind == "unop":
        y = ir.Unop("-", x, "y", t)
    elif kind == "cast-then-binop":
        _add(b2, ir.Cast(x, "c", ir.u8))            # untyped use first, typed use second
        y = ir.Binop(p, "-", x, "y", t)
    else:
        y = ir.Cast(x, "y", t)
    _add(b2, y)
    _add(b2, ir.Return(y))
    return m


def m_forward_calls():
    """callee defined later in the module; forward value passed twice; loop phi with one value on two edges"""
    m = ir.Module("fwdcall")
    f, (p,) = _fn(m, "f", ir.i32, [("p", ir.i32)])
    g, (ga, gb) = _fn(m, "g", ir.i32, [("a", ir.i32), ("b", ir.i32)], ir.Binding.LOCAL)
    (ge,) = _blocks(g, "g_entry")
    _add(ge, ir.Return(ga))
    e, b2, b1, h, l, r, x = _blocks(f, "entry", "b2", "b1", "h", "l", "r", "x")
    _add(e, ir.Jump(b1))
    v = _add(b1, ir.Binop(p, "+", p, "v", ir.i32))
    _add(b1, ir.Jump(b2))
    y = _add(b2, ir.FunctionCall(g, [v, v], "y", ir.i32))
    _add(b2, ir.Store(v, _add(b2, ir.AddressOf(_add(b2, ir.Alloc("sl", 4, 4)), "sla"))))
    _add(b2, ir.Jump(h))
    ph = ir.Phi("ph", ir.i32)
    _add(h, ph)
    w = _add(h, ir.Binop(ph, "+", p, "w", ir.i32))
    _add(h, ir.CJump(w, "<", p, l, r))
    _add(l, ir.CJump(w, ">", p, h, x))
    _add(r, ir.CJump(w, "==", p, h, x))
    _add(x, ir.Return(w))
    ph.set_incoming(b2, y)
    ph.set_incoming(r, w)
    ph.set_incoming(l, w)
    return m


def m_names():
    """identifiers with underscores and digits, names equal to keywords of the text format"""
    m = ir.Module("_names_1")
    m.add_variable(ir.Variable("__txt_const_0", ir.Binding.LOCAL, 3, 1, value=b"hi\x00"))
    f, (a,) = _fn(m, "_start", ir.i32, [("_a", ir.i32)])
    (e,) = _blocks(f, "_entry_0")
    prev = a
    for nm in ["phi", "load", "store", "call", "rol", "ror", "undefined", "bytes", "i32", "blob", "exit",
               "jmp", "cjmp", "volatile", "memcpy", "literal", "alloc", "cast", "module", "global", "e5",
               "x__", "A9_z", "inf1", "nan_", "external", "function", "at", "aligned"]:
        prev = _add(e, ir.Binop(prev, "+", a, nm, ir.i32))
        _add(e, ir.Cast(prev, "c_" + nm, ir.i64))
    _add(e, ir.Return(prev))
    return m


def m_rol_keyword_free():
    m = ir.Module("rolror")
    f, (a, b) = _fn(m, "f", ir.u32, [("a", ir.u32), ("b", ir.u32)])
    (e,) = _blocks(f, "entry")
    x = _add(e, ir.Binop(a, "rol", b, "x", ir.u32))
    y = _add(e, ir.Binop(x, "ror", a, "rol", ir.u32))
    z = _add(e, ir.Binop(y, "rol", y, "ror", ir.u32))
    _add(e, ir.Return(z))
    return m


def m_empty_phi():
    m = ir.Module("emptyphi")
    f, _ = _fn(m, "f", ir.i32)
    (e,) = _blocks(f, "entry")
    x = _add(e, ir.Phi("x", ir.i32))
    _add(e, ir.Return(x))
    return m


def m_procedures():
    m = ir.Module("procs")
    m.add_variable(ir.Variable("cnt", ir.Binding.GLOBAL, 4, 4, value=b"\x07\x00\x00\x00"))
    p, (q,) = _fn(m, "bump", None, [("q", ir.ptr)], ir.Binding.LOCAL)
    (e,) = _blocks(p, "entry")
    v = _add(e, ir.Load(q, "v", ir.i32))
    one = _add(e, ir.Const(1, "one", ir.i32))
    s = _add(e, ir.Binop(v, "+", one, "s", ir.i32))
    _add(e, ir.Store(s, q), ir.Exit())
    f, _ = _fn(m, "main", ir.i32)
    (e,) = _blocks(f, "entry")
    _add(e, ir.ProcedureCall(p, [m.variables[0]]))
    r = _add(e, ir.Load(m.variables[0], "r", ir.i32))
    _add(e, ir.Return(r))
    e0, _ = _fn(m, "nothing", None)
    (b,) = _blocks(e0, "only")
    _add(b, ir.Exit())
    return m


# --- one module per known finding (outside the proved fragment) -----------------------------------

def m_inline_asm():
    m = ir.Module("asm")
    f, (a,) = _fn(m, "f", None, [("a", ir.i32)])
    (e,) = _blocks(f, "entry")
    i = ir.InlineAsm("mov rax, 1", ["rax"])
    i.add_input_variable(a)
    _add(e, i, ir.Exit())
    return m


def m_float(v):
    m = ir.Module("nonfinite")
    f, _ = _fn(m, "f", ir.f64)
    (e,) = _blocks(f, "entry")
    x = _add(e, ir.Const(v, "x", ir.f64))
    _add(e, ir.Return(x))
    return m


def m_capture_c():
    """what the C front-end emits for `int tmp; int f(int a){int r = tmp + a; tmp = r; return tmp;}`"""
    from ppci.api import c_to_ir
    src = "int tmp; int f(int a) { int r = tmp + a; tmp = r; return tmp; }"
    m = c_to_ir(io.StringIO(src), "x86_64")
    m.debug_db = None
    return m


def m_capture_min():
    m = ir.Module("capture")
    gv = ir.Variable("x", ir.Binding.GLOBAL, 4, 4)
    m.add_variable(gv)
    f, (p,) = _fn(m, "f", ir.i32, [("p", ir.i32)])
    (e,) = _blocks(f, "entry")
    x = _add(e, ir.Binop(p, "+", p, "x", ir.i32))     # local value with the name of the global
    ld = _add(e, ir.Load(gv, "ld", ir.i32))
    s = _add(e, ir.Binop(x, "+", ld, "s", ir.i32))
    _add(e, ir.Return(s))
    return m


def m_identifier(nm):
    m = ir.Module("ident")
    f, (a,) = _fn(m, "f", ir.i32, [("a", ir.i32)])
    (e,) = _blocks(f, "entry")
    x = _add(e, ir.Binop(a, "+", a, nm, ir.i32))
    _add(e, ir.Return(x))
    return m


def m_rol_keyword():
    m = ir.Module("rolkw")
    f, (a,) = _fn(m, "f", ir.u32, [("a", ir.u32)])
    (e,) = _blocks(f, "entry")
    ld = _add(e, ir.Binop(a, "+", a, "load", ir.u32))
    x = _add(e, ir.Binop(ld, "rol", a, "x", ir.u32))
    _add(e, ir.Return(x))
    return m


def corner_modules():
    """[(label, module, expected reason outside the text fragment | None, expected outside JSON fragment)]"""
    out = [("all-kinds", m_all_kinds(), None, None), ("constants", m_constants(), None, None),
           ("forward-calls", m_forward_calls(), None, None), ("names", m_names(), None, None),
           ("rolror", m_rol_keyword_free(), None, None), ("empty-phi", m_empty_phi(), None, None),
           ("procedures", m_procedures(), None, None)]
    for t in (ir.i32, ir.i8, ir.u64, ir.ptr, ir.f64):
        for k in ("binop", "binop2", "unop", "cast", "cast-then-binop"):
            out.append((f"forward-{k}-{t}", m_forward(t, k), None, None))
    out += [("finding-inline-asm", m_inline_asm(), "inline-asm", "inline-asm"),
            ("finding-float-inf", m_float(float("inf")), "float-text", None),
            ("finding-float-neginf", m_float(float("-inf")), "float-text", None),
            ("finding-float-nan", m_float(float("nan")), "float-text", None),
            ("finding-name-capture-c", m_capture_c(), "name-capture", "name-capture"),
            ("finding-name-capture", m_capture_min(), "name-capture", "name-capture"),
            ("finding-identifier-dot", m_identifier("a.b"), "identifier", None),
            ("finding-identifier-dollar", m_identifier("x$1"), "identifier", None),
            ("finding-rol-keyword", m_rol_keyword(), "rol-keyword", None)]
    return out


# ---------------------------------------------------------------------------------------------
# generated modules + decoration

CONFIGS = [
    dict(),
    dict(floats=True, rolror=True, undefined=True),
    dict(rolror=True, indirect_calls=True, max_funcs=4),
    dict(floats=True, undefined=True, copyblob=True, total_stmts=30),
    dict(globals=False, externals=False, max_funcs=2, total_stmts=25),
    dict(int_types=[ir.i8, ir.u8, ir.i16, ir.u64], rolror=True),
]


def decorate(rng, g, cover):
    """in-fragment features irgen does not produce; every change keeps the module well-formed"""
    m = g.module
    for f in m.functions:
        instrs = [i for b in f.blocks for i in b.instructions]
        for i in instrs:
            if isinstance(i, (ir.Load, ir.Store)) and rng.random() < 0.15:
                i.volatile = True
                cover("volatile")
        # special constants (dead) at the start of the entry block
        for _ in range(rng.randint(0, 3)):
            kind = rng.random()
            if kind < 0.5:
                c = ir.Const(rng.choice(SPECIAL_FLOATS + [rng.uniform(-1e9, 1e9), rng.random() * 10 ** rng.randint(-300, 300)]),
                             "fc", rng.choice([ir.f64, ir.f32]))
                cover("float-const")
            else:
                t = rng.choice(irgen.INT_TYPES)
                lo, hi = irgen.type_range(t)
                c = ir.Const(rng.choice([lo, hi, -1 if t.signed else hi, rng.randint(lo, hi), 10 ** rng.randint(20, 45)]), "ic", t)
                cover("int-const")
            f.entry.insert_instruction(c)
        # names with a leading underscore
        for i in instrs:
            if isinstance(i, ir.Value) and rng.random() < 0.05:
                nn = "_" + i.name
                if nn not in f.defined_names:
                    i.name = nn
                    f.defined_names.add(nn)
                    cover("underscore-name")
        # block order that is not a dominance order
        if len(f.blocks) > 2 and rng.random() < 0.5:
            rest = f.blocks[1:]
            rng.shuffle(rest)
            f.blocks[1:] = rest
            cover("shuffled-blocks")
    # initial values with address parts
    names = [v.name for v in m.variables] + [f.name for f in m.functions]
    for v in m.variables:
        if v.value is not None and names and rng.random() < 0.4 and v.amount >= 8:
            raw = b"".join(p for p in v.value if isinstance(p, bytes))
            v.value = (raw[: v.amount - 8], (ir.ptr, rng.choice(names)))
            cover("init-address")
    return g


def add_finding_feature(rng, g, which):
    """put one out-of-fragment construct into a generated module"""
    m = g.module
    f = rng.choice(m.functions)
    if which == "inline-asm":
        i = ir.InlineAsm("nop", [])
        f.entry.insert_instruction(i)
    elif which == "float-text":
        f.entry.insert_instruction(ir.Const(rng.choice(NONFINITE), "nf", ir.f64))
    elif which == "name-capture":
        gl = [v.name for v in m.variables] + [x.name for x in m.functions] + [x.name for x in m.externals]
        vals = [i for b in f.blocks for i in b.instructions if isinstance(i, ir.Value)]
        for nm in gl:
            if nm not in f.defined_names and vals:
                v = rng.choice(vals)
                v.name = nm
                f.defined_names.add(nm)
                return True
        return False
    return True


def generated(ctx, n, cover):
    out = []
    for k in range(n):
        cfg = irgen.GenConfig(**CONFIGS[k % len(CONFIGS)])
        g = irgen.gen_module(ctx.rng, cfg, name=f"gen{k}")
        decorate(ctx.rng, g, cover)
        out.append((f"gen{k}", g))
    return out


def c_modules(ctx):
    """front-end output, plain and optimised"""
    from ppci.opt import Mem2RegPromotor, CleanPass, DeleteUnusedInstructionsPass, CommonSubexpressionEliminationPass
    out = []
    for opt in (False, True):
        for g in irgen.c_modules("x86_64"):
            if opt:
                try:
                    for P in (Mem2RegPromotor, DeleteUnusedInstructionsPass, CommonSubexpressionEliminationPass, CleanPass):
                        P().run(g.module)
                except Exception as e:  # a pass crashing is another property's business
                    ctx.count("c_module_pass_exception_" + type(e).__name__)
                    continue
            g.module.name = g.module.name + ("_opt" if opt else "")
            out.append((g.module.name, g))
    return out
