"""Shared by C15 (IR text format) and C16 (IR JSON): module sources and helpers.

Module sources (all are real `ppci.ir.Module` objects built through ppci's own API):
  * `corner_modules()`  hand-built modules: every instruction kind, operator, type, constant
    class, initialised globals, volatile accesses, forward references, and one module per
    known finding (tagged with the reason the Lean fragment predicate must report);
  * `generated(ctx, n)` harness/irgen.py modules under several configurations, then *decorated*:
    volatile flags, initialised globals with address parts, special float / huge integer
    constants, names with a leading underscore, shuffled block order (forward references);
  * `c_modules()`       C front-end output (irgen.c_modules), plain and after mem2reg etc.
"""
import io
import re
import struct

from ppci import ir
from harness import irgen, irser

SPECIAL_FLOATS = [1e30, 1e-7, 5e-324, 1.7976931348623157e308, -0.0, 123456789.125, -2.5e-300, 1e16,
                  1e22, 0.1, 1.5, -1.5, 2.2250738585072014e-308, 9007199254740993.0, 3.141592653589793,
                  1e15, 1e-5, 0.0001, 123456789012345680.0]
NONFINITE = [float("inf"), float("-inf"), float("nan")]


def fbits(x):
    return struct.unpack("<Q", struct.pack("<d", float(x)))[0]


def float_table(module):
    """{bits: str(value)} of every float constant: CPython is the oracle for float <-> text"""
    tab = {}
    for f in module.functions:
        for b in f.blocks:
            for i in b.instructions:
                if isinstance(i, ir.Const) and isinstance(i.value, float):
                    tab[fbits(i.value)] = str(i.value)
    return tab


def ftab_line(tab):
    return "ftab " + (";".join(f"{b}:{t.encode().hex()}" for b, t in sorted(tab.items())) or "-")


_PHI = re.compile(r"\(phi (\S+) (\(blob \d+ \d+\)|\S+)((?: \([^()]*\))+)\)")


def norm_phi(sexpr):
    """phi inputs are a dictionary: order them canonically"""
    def fix(mo):
        items = sorted(re.findall(r"\([^()]*\)", mo.group(3)))
        return f"(phi {mo.group(1)} {mo.group(2)} {' '.join(items)})"
    return _PHI.sub(fix, sexpr)


def all_names(module):
    out = [module.name] + [e.name for e in module.externals] + [v.name for v in module.variables]
    for f in module.functions:
        out.append(f.name)
        out += [p.name for p in f.arguments]
        for b in f.blocks:
            out.append(b.name)
            out += [i.name for i in b.instructions if isinstance(i, ir.Value)]
    return out


def plain_names(module):
    """irser hex-escapes unusual names; the Lean side would then see other names than ppci"""
    return all(irser.atom(n) == n and "!" not in n for n in all_names(module))


def identity_walk(m):
    """Second, independent structural view: every operand by the IDENTITY of the definition it refers to
    (module-level object of this module / parameter index / (block index, instruction index) of the same
    function), every block reference by block index, every type in full (blob size AND alignment)."""
    glob = {}
    for e in m.externals:
        glob[id(e)] = ("external", e.name)
    for v in m.variables:
        glob[id(v)] = ("variable", v.name)
    for f in m.functions:
        glob[id(f)] = ("subroutine", f.name)
    T = lambda t: f"{type(t).__name__}:{t}"  # noqa: E731
    out = [("module", m.name)]
    for e in m.externals:
        out.append(("external", e.name, type(e).__name__, tuple(T(t) for t in getattr(e, "argument_types", [])),
                    T(e.return_ty) if hasattr(e, "return_ty") else None))
    for v in m.variables:
        out.append(("variable", v.name, v.binding, v.amount, v.alignment,
                    None if v.value is None else tuple(p if isinstance(p, bytes) else ("address", p[1]) for p in v.value)))
    for f in m.functions:
        loc = {}
        for pi, p in enumerate(f.arguments):
            loc[id(p)] = ("param", pi)
        bidx = {id(b): bi for bi, b in enumerate(f.blocks)}
        for bi, b in enumerate(f.blocks):
            for ii, i in enumerate(b.instructions):
                if isinstance(i, ir.Value):
                    loc[id(i)] = ("ins", bi, ii)

        def ref(v):
            return loc.get(id(v)) or glob.get(id(v)) or ("NOT-IN-SCOPE", type(v).__name__, getattr(v, "name", "?"))

        def bref(b):
            return bidx.get(id(b), ("NOT-IN-FUNCTION", getattr(b, "name", "?")))

        out.append(("subroutine", f.name, f.binding, type(f).__name__,
                    T(f.return_ty) if isinstance(f, ir.Function) else None,
                    tuple((p.name, T(p.ty)) for p in f.arguments),
                    bref(f.entry) if f.entry is not None else None))
        for bi, b in enumerate(f.blocks):
            out.append(("block", f.name, bi, b.name))
            for ii, i in enumerate(b.instructions):
                k = type(i).__name__
                nm = (i.name, T(i.ty)) if isinstance(i, ir.Value) else None
                if isinstance(i, ir.Phi):
                    ops = tuple(sorted(((bl.name, v.name), bref(bl), ref(v)) for bl, v in i.inputs.items()))
                elif isinstance(i, (ir.FunctionCall, ir.ProcedureCall)):
                    ops = (ref(i.callee),) + tuple(ref(a) for a in i.arguments)
                elif isinstance(i, ir.Binop):
                    ops = (i.operation, ref(i.a), ref(i.b))
                elif isinstance(i, ir.Unop):
                    ops = (i.operation, ref(i.a))
                elif isinstance(i, ir.Cast):
                    ops = (ref(i.src),)
                elif isinstance(i, ir.AddressOf):
                    ops = (ref(i.src),)
                elif isinstance(i, ir.Load):
                    ops = (ref(i.address), bool(i.volatile))
                elif isinstance(i, ir.Store):
                    ops = (ref(i.value), T(i.value.ty), ref(i.address), bool(i.volatile))
                elif isinstance(i, ir.CopyBlob):
                    ops = (ref(i.dst), ref(i.src), i.amount)
                elif isinstance(i, ir.CJump):
                    ops = (ref(i.a), i.cond, ref(i.b), bref(i.lab_yes), bref(i.lab_no))
                elif isinstance(i, ir.Jump):
                    ops = (bref(i.target),)
                elif isinstance(i, ir.Return):
                    ops = (ref(i.result),)
                elif isinstance(i, ir.Const):
                    ops = (("f", fbits(i.value)) if isinstance(i.value, float) else ("i", int(i.value)),)
                elif isinstance(i, ir.LiteralData):
                    ops = (bytes(i.data),)
                elif isinstance(i, ir.Alloc):
                    ops = (i.amount, i.alignment)
                elif isinstance(i, ir.InlineAsm):
                    ops = (str(i.template), tuple(ref(v) for v in i.input_values), tuple(ref(v) for v in i.output_values),
                           tuple(i.clobbers or ()))
                else:
                    ops = ()
                out.append(("ins", f.name, bi, ii, k, nm, ops))
    return out


def capture_in_same_function(m):
    """some function uses a module-level value whose name is also the name of a value of THAT function"""
    for f in m.functions:
        local = {p.name for p in f.arguments} | {i.name for b in f.blocks for i in b.instructions if isinstance(i, ir.Value)}
        for b in f.blocks:
            for i in b.instructions:
                for u in i.uses:
                    if isinstance(u, ir.GlobalValue) and u.name in local:
                        return True
    return False


def operands_of(i):
    """the values in the operand slots of an instruction, read from its public attributes"""
    if isinstance(i, ir.Phi):
        return list(i.inputs.values())
    if isinstance(i, (ir.FunctionCall, ir.ProcedureCall)):
        return [i.callee] + list(i.arguments)
    if isinstance(i, (ir.Binop, ir.CJump)):
        return [i.a, i.b]
    if isinstance(i, ir.Unop):
        return [i.a]
    if isinstance(i, (ir.Cast, ir.AddressOf)):
        return [i.src]
    if isinstance(i, ir.Load):
        return [i.address]
    if isinstance(i, ir.Store):
        return [i.value, i.address]
    if isinstance(i, ir.CopyBlob):
        return [i.dst, i.src]
    if isinstance(i, ir.Return):
        return [i.result]
    if isinstance(i, ir.InlineAsm):
        return list(i.input_values) + list(i.output_values)
    return []


def bookkeeping(m):
    """The def-use information of a module seen from the PUBLIC side; None = sane, else a short description.
      * ppci's own verify_module passes, and print_module with its default verification works,
      * `instruction.uses` is exactly the set of values in the operand slots, and i in v.used_by <=> v in i.uses,
      * every used value is a parameter, a module-level value of this module or an instruction that sits in a
        block of the same function (no `Undefined` placeholder of a reader, nothing from elsewhere),
      * every user recorded in `used_by` of a value of the module is an instruction that sits in the module."""
    from ppci.irutils import verify_module, print_module
    try:
        verify_module(m)
    except Exception as e:  # noqa
        return f"verify:{type(e).__name__}"
    try:
        print_module(m, file=io.StringIO())
    except Exception as e:  # noqa
        return f"print-verified:{type(e).__name__}"
    glob = {id(x) for x in list(m.externals) + list(m.variables) + list(m.functions)}
    placed = {id(i) for f in m.functions for b in f.blocks for i in b.instructions}
    values = list(m.externals) + list(m.variables) + list(m.functions)
    for f in m.functions:
        local = {id(p) for p in f.arguments} | {id(i) for b in f.blocks for i in b.instructions}
        values += list(f.arguments)
        for b in f.blocks:
            for i in b.instructions:
                if isinstance(i, ir.Value):
                    values.append(i)
                ops = operands_of(i)
                if {id(v) for v in i.uses} != {id(v) for v in ops}:
                    stale = [v for v in i.uses if id(v) not in {id(o) for o in ops}]
                    if any(isinstance(v, ir.Undefined) and id(v) not in placed for v in stale):
                        return "stale-placeholder-in-uses"
                    return "uses-differ-from-operands"
                for v in ops:
                    if id(v) not in local and id(v) not in glob:
                        return "placeholder-operand" if isinstance(v, ir.Undefined) else "operand-from-elsewhere"
                    if i not in v.used_by:
                        return "used_by-misses-user"
    for v in values:
        for u in v.used_by:
            if id(u) not in placed:
                return "used_by-lists-instruction-outside-module"
            if v not in u.uses:
                return "used_by-lists-non-user"
    return None


def ppci_verifies(m):
    from ppci.irutils import verify_module
    try:
        verify_module(m)
        return True
    except Exception:  # noqa
        return False


# ---------------------------------------------------------------------------------------------
# hand-built modules

def _fn(m, name="f", ret=ir.i32, params=(), binding=ir.Binding.GLOBAL):
    f = ir.Function(name, binding, ret) if ret is not None else ir.Procedure(name, binding)
    m.add_function(f)
    ps = []
    for n, t in params:
        p = ir.Parameter(n, t)
        f.add_parameter(p)
        ps.append(p)
    return f, ps


def _blocks(f, *names):
    bs = []
    for n in names:
        b = ir.Block(n)
        f.add_block(b)
        bs.append(b)
    f.entry = bs[0]
    return bs


def _add(b, *instrs):
    for i in instrs:
        b.add_instruction(i)
    return instrs[-1]


def m_all_kinds():
    """every instruction kind, every operator, every type"""
    m = ir.Module("kinds")
    m.add_external(ir.ExternalVariable("xv"))
    xf = ir.ExternalFunction("xf", [ir.i32, ir.ptr], ir.i64)
    xp = ir.ExternalProcedure("xp", [])
    xq = ir.ExternalProcedure("xq", [ir.u8, ir.f64, ir.f32])
    for e in (xf, xp, xq):
        m.add_external(e)
    g0 = ir.Variable("g0", ir.Binding.GLOBAL, 8, 8)
    g1 = ir.Variable("g1", ir.Binding.LOCAL, 4, 4, value=b"\x01\x02\x03\xff")
    g2 = ir.Variable("g2", ir.Binding.GLOBAL, 24, 8, value=(b"\x00" * 8, (ir.ptr, "g0"), (ir.ptr, "hlp")))
    g3 = ir.Variable("g3", ir.Binding.GLOBAL, 40, 1, value=bytes(range(40)))
    g4 = ir.Variable("g4", ir.Binding.GLOBAL, 0, 1, value=b"")
    for v in (g0, g1, g2, g3, g4):
        m.add_variable(v)
    hlp, (hp,) = _fn(m, "hlp", None, [("p", ir.ptr)], ir.Binding.LOCAL)
    (hb,) = _blocks(hlp, "hlp_entry")
    _add(hb, ir.Exit())
    f, (a, b, p, d) = _fn(m, "f", ir.i32, [("a", ir.i32), ("b", ir.i32), ("p", ir.ptr), ("d", ir.f64)])
    e, l, r, j = _blocks(f, "entry", "left", "right", "join")
    vals = []
    for k, op in enumerate(ir.Binop.ops):
        vals.append(_add(e, ir.Binop(a, op, b, f"bin{k}", ir.i32)))
    n1 = _add(e, ir.Unop("-", a, "neg", ir.i32))
    n2 = _add(e, ir.Unop("~", b, "inv", ir.i32))
    for t in ir.all_types:
        _add(e, ir.Cast(a, "cast_" + t.name, t))
    al = _add(e, ir.Alloc("slot", 16, 8))
    ad = _add(e, ir.AddressOf(al, "slot_addr"))
    lit = _add(e, ir.LiteralData(b"hello\x00\xfe", "lit"))
    la = _add(e, ir.AddressOf(lit, "lit_addr"))
    big = _add(e, ir.LiteralData(bytes(range(70)), "biglit"))
    _add(e, ir.AddressOf(big, "biglit_addr"))
    emp = _add(e, ir.LiteralData(b"", "emptylit"))
    _add(e, ir.Store(a, ad), ir.Store(d, p, volatile=True))
    ld = _add(e, ir.Load(ad, "ld", ir.i32))
    lv = _add(e, ir.Load(g0, "lv", ir.u16, volatile=True))
    lp = _add(e, ir.Load(p, "lp", ir.ptr))
    _add(e, ir.CopyBlob(ad, la, 7), ir.CopyBlob(g3, g0, 8))
    un = _add(e, ir.Undefined("und", ir.i32))
    c64 = _add(e, ir.FunctionCall(xf, [ld, lp], "c64", ir.i64))
    _add(e, ir.ProcedureCall(xp, []), ir.ProcedureCall(hlp, [g2]))
    fp = _add(e, ir.Cast(a, "fptr", ir.ptr))
    _add(e, ir.ProcedureCall(fp, [a, a]))          # indirect call, duplicated argument
    u8 = _add(e, ir.Cast(a, "as_u8", ir.u8))
    f32 = _add(e, ir.Cast(d, "as_f32", ir.f32))
    _add(e, ir.ProcedureCall(xq, [u8, d, f32]))
    _add(e, ir.CJump(a, "<", b, l, r))
    x1 = _add(l, ir.Binop(n1, "+", n2, "x1", ir.i32))
    _add(l, ir.Jump(j))
    x2 = _add(r, ir.Binop(ld, "*", vals[0], "x2", ir.i32))
    _add(r, ir.CJump(x2, "!=", a, j, l))
    ph = ir.Phi("ph", ir.i32)
    _add(j, ph)
    ph.set_incoming(r, x2)
    ph.set_incoming(l, x1)
    ph2 = ir.Phi("ph2", ir.i32)
    _add(j, ph2)
    ph2.set_incoming(l, a)
    ph2.set_incoming(r, a)                         # same value from two predecessors
    s = _add(j, ir.Binop(ph, "+", ph2, "s", ir.i32))
    _add(j, ir.Return(s))
    for k, c in enumerate(ir.CJump.conditions):
        g, (q,) = _fn(m, f"cond{k}", ir.i8, [("q", ir.i8)])
        b0, b1, b2 = _blocks(g, "c_entry", "c_yes", "c_no")
        _add(b0, ir.CJump(q, c, q, b1, b2))
        one = _add(b1, ir.Const(1, "one", ir.i8))
        _add(b1, ir.Return(one))
        zero = _add(b2, ir.Const(0, "zero", ir.i8))
        _add(b2, ir.Return(zero))
    return m


def m_constants():
    m = ir.Module("consts")
    f, _ = _fn(m, "f", ir.i32)
    (e,) = _blocks(f, "entry")
    k = 0
    for t in ir.value_types + [ir.ptr]:
        if isinstance(t, ir.FloatingPointTyp):
            vs = SPECIAL_FLOATS + [3, -7]
        elif t is ir.ptr:
            vs = [0, 1, 2 ** 64 - 1, 2 ** 32]
        else:
            lo, hi = irgen.type_range(t)
            vs = [0, 1, -1 if t.signed else 2, lo, hi, lo + 1, hi - 1, hi + 1, lo - 1, 10 ** 40, -10 ** 40]
        for v in vs:
            _add(e, ir.Const(v, f"c{k}", t))
            k += 1
    z = _add(e, ir.Const(0, "z", ir.i32))
    _add(e, ir.Return(z))
    return m


def m_forward(t, kind):
    """block order not a dominance order: a value is used textually before its definition"""
    m = ir.Module("fwd")
    f, (p,) = _fn(m, "f", t, [("p", t)])
    e, b2, b1 = _blocks(f, "entry", "b2", "b1")
    _add(e, ir.Jump(b1))
    x = _add(b1, ir.Binop(p, "+", p, "x", t))
    _add(b1, ir.Jump(b2))
    if kind == "binop":
        y = ir.Binop(x, "+", p, "y", t)
    elif kind == "binop2":
        y = ir.Binop(x, "*", x, "y", t)
    elif kind == "unop":
        y = ir.Unop("-", x, "y", t)
    elif kind == "cast-then-binop":
        _add(b2, ir.Cast(x, "c", ir.u8))            # untyped use first, typed use second
        y = ir.Binop(p, "-", x, "y", t)
    else:
        y = ir.Cast(x, "y", t)
    _add(b2, y)
    _add(b2, ir.Return(y))
    return m


def m_forward_calls():
    """callee defined later in the module; forward value passed twice; loop phi with one value on two edges"""
    m = ir.Module("fwdcall")
    f, (p,) = _fn(m, "f", ir.i32, [("p", ir.i32)])
    g, (ga, gb) = _fn(m, "g", ir.i32, [("a", ir.i32), ("b", ir.i32)], ir.Binding.LOCAL)
    (ge,) = _blocks(g, "g_entry")
    _add(ge, ir.Return(ga))
    e, b2, b1, h, l, r, x = _blocks(f, "entry", "b2", "b1", "h", "l", "r", "x")
    _add(e, ir.Jump(b1))
    v = _add(b1, ir.Binop(p, "+", p, "v", ir.i32))
    _add(b1, ir.Jump(b2))
    y = _add(b2, ir.FunctionCall(g, [v, v], "y", ir.i32))
    _add(b2, ir.Store(v, _add(b2, ir.AddressOf(_add(b2, ir.Alloc("sl", 4, 4)), "sla"))))
    _add(b2, ir.Jump(h))
    ph = ir.Phi("ph", ir.i32)
    _add(h, ph)
    w = _add(h, ir.Binop(ph, "+", p, "w", ir.i32))
    _add(h, ir.CJump(w, "<", p, l, r))
    _add(l, ir.CJump(w, ">", p, h, x))
    _add(r, ir.CJump(w, "==", p, h, x))
    _add(x, ir.Return(w))
    ph.set_incoming(b2, y)
    ph.set_incoming(r, w)
    ph.set_incoming(l, w)
    return m


def m_forward_twice():
    """a value whose defining block is printed AFTER the using block, in TWO operand slots of one instruction,
    for every instruction kind with two value operands (the readers resolve it through replace_by)"""
    m = ir.Module("fwdtwice")
    # binop x * x, and a second user of the same value in the same block
    f, (a,) = _fn(m, "square_next", ir.i32, [("a", ir.i32)])
    e, fin, comp = _blocks(f, "entry", "finish", "compute")
    _add(e, ir.Jump(comp))
    x = _add(comp, ir.Binop(a, "+", _add(comp, ir.Const(1, "one", ir.i32)), "x", ir.i32))
    _add(comp, ir.Jump(fin))
    sq = _add(fin, ir.Binop(x, "*", x, "sq", ir.i32))
    s2 = _add(fin, ir.Binop(sq, "rol", x, "s2", ir.i32))
    _add(fin, ir.Return(_add(fin, ir.Binop(s2, "-", s2, "z", ir.i32))))
    # store w, w / cjmp w == w / memcpy(w, w, n)
    p, (q,) = _fn(m, "poke", None, [("q", ir.ptr)])
    pe, use, dfn, end = _blocks(p, "p_entry", "p_use", "p_def", "p_end")
    _add(pe, ir.Jump(dfn))
    w = _add(dfn, ir.Load(q, "w", ir.ptr))
    _add(dfn, ir.Jump(use))
    _add(use, ir.Store(w, w))
    _add(use, ir.CopyBlob(w, w, 4))
    _add(use, ir.Store(w, w, volatile=True))
    _add(use, ir.CJump(w, "==", w, end, end))
    _add(end, ir.Exit())
    # call with a repeated argument, callee = the forward value as well; phi with one value from two predecessors
    g, (fp, c) = _fn(m, "viaptr", ir.u16, [("fp", ir.ptr), ("c", ir.u16)])
    ge, join, d, l, r = _blocks(g, "g_entry", "g_join", "g_def", "g_l", "g_r")
    _add(ge, ir.Jump(d))
    v = _add(d, ir.Binop(c, "+", c, "v", ir.u16))
    cal = _add(d, ir.Cast(fp, "cal", ir.ptr))
    _add(d, ir.CJump(v, "<", c, l, r))
    _add(l, ir.Jump(join))
    _add(r, ir.Jump(join))
    ph = _add(join, ir.Phi("ph", ir.u16))
    ph.set_incoming(l, v)
    ph.set_incoming(r, v)
    y = _add(join, ir.FunctionCall(cal, [v, v, ph], "y", ir.u16))
    _add(join, ir.ProcedureCall(cal, [y, y]))
    _add(join, ir.Return(_add(join, ir.Binop(y, "^", y, "yy", ir.u16))))
    return m


def m_names():
    """identifiers with underscores and digits, names equal to keywords of the text format"""
    m = ir.Module("_names_1")
    m.add_variable(ir.Variable("__txt_const_0", ir.Binding.LOCAL, 3, 1, value=b"hi\x00"))
    f, (a,) = _fn(m, "_start", ir.i32, [("_a", ir.i32)])
    (e,) = _blocks(f, "_entry_0")
    prev = a
    for nm in ["phi", "load", "store", "call", "rol", "ror", "undefined", "bytes", "i32", "blob", "exit",
               "jmp", "cjmp", "volatile", "memcpy", "literal", "alloc", "cast", "module", "global", "e5",
               "x__", "A9_z", "inf1", "nan_", "external", "function", "at", "aligned"]:
        prev = _add(e, ir.Binop(prev, "+", a, nm, ir.i32))
        _add(e, ir.Cast(prev, "c_" + nm, ir.i64))
    _add(e, ir.Return(prev))
    return m


def m_rol_keyword_free():
    m = ir.Module("rolror")
    f, (a, b) = _fn(m, "f", ir.u32, [("a", ir.u32), ("b", ir.u32)])
    (e,) = _blocks(f, "entry")
    x = _add(e, ir.Binop(a, "rol", b, "x", ir.u32))
    y = _add(e, ir.Binop(x, "ror", a, "rol", ir.u32))
    z = _add(e, ir.Binop(y, "rol", y, "ror", ir.u32))
    _add(e, ir.Return(z))
    return m


def m_empty_phi():
    m = ir.Module("emptyphi")
    f, _ = _fn(m, "f", ir.i32)
    (e,) = _blocks(f, "entry")
    x = _add(e, ir.Phi("x", ir.i32))
    _add(e, ir.Return(x))
    return m


def m_procedures():
    m = ir.Module("procs")
    m.add_variable(ir.Variable("cnt", ir.Binding.GLOBAL, 4, 4, value=b"\x07\x00\x00\x00"))
    p, (q,) = _fn(m, "bump", None, [("q", ir.ptr)], ir.Binding.LOCAL)
    (e,) = _blocks(p, "entry")
    v = _add(e, ir.Load(q, "v", ir.i32))
    one = _add(e, ir.Const(1, "one", ir.i32))
    s = _add(e, ir.Binop(v, "+", one, "s", ir.i32))
    _add(e, ir.Store(s, q), ir.Exit())
    f, _ = _fn(m, "main", ir.i32)
    (e,) = _blocks(f, "entry")
    _add(e, ir.ProcedureCall(p, [m.variables[0]]))
    r = _add(e, ir.Load(m.variables[0], "r", ir.i32))
    _add(e, ir.Return(r))
    e0, _ = _fn(m, "nothing", None)
    (b,) = _blocks(e0, "only")
    _add(b, ir.Exit())
    return m


# --- one module per known finding (outside the proved fragment) -----------------------------------

def m_inline_asm():
    m = ir.Module("asm")
    f, (a,) = _fn(m, "f", None, [("a", ir.i32)])
    (e,) = _blocks(f, "entry")
    i = ir.InlineAsm("mov rax, 1", ["rax"])
    i.add_input_variable(a)
    _add(e, i, ir.Exit())
    return m


def m_float(v):
    m = ir.Module("nonfinite")
    f, _ = _fn(m, "f", ir.f64)
    (e,) = _blocks(f, "entry")
    x = _add(e, ir.Const(v, "x", ir.f64))
    _add(e, ir.Return(x))
    return m


def m_capture_c():
    """what the C front-end emits for `int tmp; int f(int a){int r = tmp + a; tmp = r; return tmp;}`"""
    from ppci.api import c_to_ir
    src = "int tmp; int f(int a) { int r = tmp + a; tmp = r; return tmp; }"
    m = c_to_ir(io.StringIO(src), "x86_64")
    m.debug_db = None
    return m


def m_capture_min():
    m = ir.Module("capture")
    gv = ir.Variable("x", ir.Binding.GLOBAL, 4, 4)
    m.add_variable(gv)
    f, (p,) = _fn(m, "f", ir.i32, [("p", ir.i32)])
    (e,) = _blocks(f, "entry")
    x = _add(e, ir.Binop(p, "+", p, "x", ir.i32))     # local value with the name of the global
    ld = _add(e, ir.Load(gv, "ld", ir.i32))
    s = _add(e, ir.Binop(x, "+", ld, "s", ir.i32))
    _add(e, ir.Return(s))
    return m


def m_identifier(nm):
    m = ir.Module("ident")
    f, (a,) = _fn(m, "f", ir.i32, [("a", ir.i32)])
    (e,) = _blocks(f, "entry")
    x = _add(e, ir.Binop(a, "+", a, nm, ir.i32))
    _add(e, ir.Return(x))
    return m


def m_rol_keyword():
    """values named like the reader's keywords as first operand of rol/ror, and values named rol / ror in
    every position where a keyword is followed by a value (fixed in /repo: one more token of look-ahead)"""
    m = ir.Module("rolkw")
    f, (rol, a) = _fn(m, "f", ir.u32, [("rol", ir.ptr), ("a", ir.u32)])
    e, nxt = _blocks(f, "entry", "nxt")
    acc = a
    for kw in ["load", "phi", "alloc", "cast", "call", "literal", "volatile", "undefined", "float", "store"]:
        v = _add(e, ir.Binop(acc, "+", a, kw, ir.u32))
        acc = _add(e, ir.Binop(v, "rol" if len(kw) % 2 else "ror", a, "x_" + kw, ir.u32))
    ld = _add(e, ir.Load(rol, "v_ld", ir.u32))
    vl = _add(e, ir.Load(rol, "v_vl", ir.u32, volatile=True))
    c = _add(e, ir.Cast(rol, "v_c", ir.u64))
    y = _add(e, ir.FunctionCall(rol, [acc, ld], "v_y", ir.u32))
    _add(e, ir.Jump(nxt))
    p = _add(nxt, ir.Phi("v_p", ir.ptr))
    p.set_incoming(e, rol)
    ror = _add(nxt, ir.Binop(y, "ror", vl, "ror", ir.u32))
    w = _add(nxt, ir.Binop(ror, "rol", ror, "w", ir.u32))
    _add(nxt, ir.Return(w))
    return m


# --- name collisions of every kind, across several functions --------------------------------------------------

def m_collide(kind):
    """`first` owns a parameter / value / block named like a module-level symbol (or like something in another
    function) and does not use that symbol itself; `later` uses the symbol.  ppci must keep them apart."""
    m = ir.Module("collide")
    ext = ir.ExternalFunction("cursor_x", [ir.i32], ir.i32)
    m.add_external(ext)
    gv = ir.Variable("cursor", ir.Binding.GLOBAL, 8, 8, value=b"\x01\x00\x00\x00\x02\x00\x00\x00")
    gw = ir.Variable("count", ir.Binding.LOCAL, 4, 4)
    m.add_variable(gv)
    m.add_variable(gw)
    helper, (ha,) = _fn(m, "helper", ir.i32, [("a", ir.i32)], ir.Binding.LOCAL)
    (hb,) = _blocks(helper, "entry")
    _add(hb, ir.Return(ha))
    # --- first: owns the colliding name, never uses the module-level symbol
    pname, ptype = {"param-var-ptr": ("cursor", ir.ptr), "param-var-int": ("cursor", ir.i32),
                    "param-func": ("helper", ir.ptr), "param-ext": ("cursor_x", ir.i32),
                    "param-later-func": ("later", ir.i32)}.get(kind, ("p0", ir.i32))
    first, (fp, fn_) = _fn(m, "first", ir.i32, [(pname, ptype), ("n", ir.i32)])
    bname = {"block-var": "cursor", "block-func": "helper", "block-param": "n", "block-later-value": "shared"}.get(kind, "entry")
    (fb,) = _blocks(first, bname)
    vname = {"value-var": "count", "value-func": "helper", "value-ext": "cursor_x", "value-later-func": "later",
             "value-other-func-value": "shared", "value-other-func-param": "d"}.get(kind, "t")
    t = _add(fb, ir.Binop(fn_, "+", fn_, vname, ir.i32))
    u = _add(fb, ir.Binop(t, "*", fn_, "u", ir.i32))
    _add(fb, ir.Return(u))
    # --- later: uses the module-level symbols
    later, (ld,) = _fn(m, "later", ir.i32, [("d", ir.i32)])
    (lb,) = _blocks(later, "entry")
    a = _add(lb, ir.Load(gv, "v0", ir.i32))
    b = _add(lb, ir.Load(gw, "v1", ir.i32))
    c = _add(lb, ir.FunctionCall(helper, [a], "v2", ir.i32))
    e = _add(lb, ir.FunctionCall(ext, [b], "v3", ir.i32))
    r = _add(lb, ir.FunctionCall(first, [gv if ptype is ir.ptr else c, e] , "v4", ir.i32))
    s_ = _add(lb, ir.Binop(r, "+", ld, "shared", ir.i32))
    _add(lb, ir.Store(s_, gw))
    _add(lb, ir.Return(s_))
    return m


COLLISIONS = ["param-var-ptr", "param-var-int", "param-func", "param-ext", "param-later-func", "block-var",
              "block-func", "block-param", "block-later-value", "value-var", "value-func", "value-ext",
              "value-later-func", "value-other-func-value", "value-other-func-param"]


def m_forward_capture():
    """`early` calls `target`, which is defined AFTER `middle`; `middle` has a value named `target`:
    the readers replace the placeholder by that value (open finding, other direction of capture)."""
    m = ir.Module("fwdcapture")
    early, (p,) = _fn(m, "early", ir.i32, [("p", ir.i32)])
    middle, (q,) = _fn(m, "middle", ir.i32, [("q", ir.i32)])
    target, (r,) = _fn(m, "target", ir.i32, [("r", ir.i32)], ir.Binding.LOCAL)
    (eb,) = _blocks(early, "entry")
    x = _add(eb, ir.FunctionCall(target, [p], "x", ir.i32))
    _add(eb, ir.Return(x))
    (mb,) = _blocks(middle, "entry")
    t = _add(mb, ir.Binop(q, "+", q, "target", ir.i32))
    _add(mb, ir.Return(t))
    (tb,) = _blocks(target, "entry")
    _add(tb, ir.Return(r))
    return m


# --- several blob types: equal size / different alignment, equal alignment / different size ------------------

BLOBS = [(8, 1), (8, 8), (8, 4), (4, 8), (16, 8), (16, 1), (1, 1)]


def m_blob_types(with_undefined=False):
    m = ir.Module("blobs")
    B = [ir.BlobDataTyp(s, a) for s, a in BLOBS]
    xs = ir.ExternalFunction("xsig", [B[1], B[0], B[3], ir.i8], B[2])
    xp = ir.ExternalProcedure("xproc", [B[0], B[1], B[5], B[4], ir.f32])
    m.add_external(xs)
    m.add_external(xp)
    m.add_variable(ir.Variable("ga", ir.Binding.GLOBAL, 8, 1, value=bytes(8)))
    m.add_variable(ir.Variable("gb", ir.Binding.GLOBAL, 8, 8))
    m.add_variable(ir.Variable("gc", ir.Binding.GLOBAL, 16, 8))
    # every type as parameter and as return type; two functions per pair of clashing types
    fa, (a0, a1, a2) = _fn(m, "fa", B[0], [("a", B[0]), ("b", B[1]), ("c", B[3])], ir.Binding.LOCAL)
    (e,) = _blocks(fa, "entry")
    _add(e, ir.Return(a0))
    fb, (b0, b1, b2, b3) = _fn(m, "fb", B[1], [("a", B[1]), ("b", B[0]), ("c", B[4]), ("d", B[5])], ir.Binding.LOCAL)
    (e,) = _blocks(fb, "entry")
    _add(e, ir.Return(b0))
    g, (p0, p1, p2, sel) = _fn(m, "g", B[2], [("x", B[0]), ("y", B[1]), ("z", B[3]), ("sel", ir.i32)])
    e, l, r, j = _blocks(g, "entry", "l", "r", "j")
    s0 = _add(e, ir.Alloc("s0", 8, 1))
    s1 = _add(e, ir.Alloc("s1", 8, 8))
    s2 = _add(e, ir.Alloc("s2", 16, 8))
    s3 = _add(e, ir.Alloc("s3", 16, 1))
    q0 = _add(e, ir.AddressOf(s0, "q0"))
    q1 = _add(e, ir.AddressOf(s1, "q1"))
    q2 = _add(e, ir.AddressOf(s2, "q2"))
    q3 = _add(e, ir.AddressOf(s3, "q3"))
    _add(e, ir.CopyBlob(q0, q1, 8), ir.CopyBlob(q2, q3, 16), ir.CopyBlob(q2, m.variables[2], 16))
    _add(e, ir.Store(p0, q0), ir.Store(p1, q1))
    c0 = _add(e, ir.FunctionCall(fa, [p0, p1, p2], "c0", B[0]))
    c1 = _add(e, ir.FunctionCall(fb, [p1, p0, _add(e, ir.Cast(sel, "w", B[4])), _add(e, ir.Cast(sel, "w2", B[5]))], "c1", B[1]))
    c2 = _add(e, ir.FunctionCall(xs, [p1, p0, p2, _add(e, ir.Cast(sel, "k", ir.i8))], "c2", B[2]))
    _add(e, ir.ProcedureCall(xp, [c0, c1, _add(e, ir.Cast(sel, "w3", B[5])), _add(e, ir.Cast(sel, "w4", B[4])),
                                  _add(e, ir.Cast(sel, "fl", ir.f32))]))
    zero = _add(e, ir.Const(0, "zero", ir.i32))
    _add(e, ir.CJump(sel, "==", zero, l, r))
    _add(l, ir.Jump(j))
    _add(r, ir.Jump(j))
    pha = _add(j, ir.Phi("pha", B[0]))
    phb = _add(j, ir.Phi("phb", B[1]))
    pha.set_incoming(l, p0)
    pha.set_incoming(r, c0)
    phb.set_incoming(l, c1)
    phb.set_incoming(r, p1)
    if with_undefined:
        _add(j, ir.Undefined("ua", B[0]), ir.Undefined("ub", B[1]), ir.Undefined("uc", B[6]))
    _add(j, ir.Store(pha, q0), ir.Store(phb, q1), ir.Return(c2))
    return m


def corner_modules():
    """[(label, module, expected reason outside the text fragment | None, expected outside JSON fragment)]"""
    out = [("all-kinds", m_all_kinds(), None, None), ("constants", m_constants(), None, None),
           ("forward-calls", m_forward_calls(), None, None), ("forward-twice", m_forward_twice(), None, None),
           ("names", m_names(), None, None),
           ("rolror", m_rol_keyword_free(), None, None), ("empty-phi", m_empty_phi(), None, None),
           ("procedures", m_procedures(), None, None)]
    for t in (ir.i32, ir.i8, ir.u64, ir.ptr, ir.f64):
        for k in ("binop", "binop2", "unop", "cast", "cast-then-binop"):
            out.append((f"forward-{k}-{t}", m_forward(t, k), None, None))
    out += [("blob-types", m_blob_types(), None, None), ("blob-types-undefined", m_blob_types(True), None, None)]
    for k in COLLISIONS:
        cap = k.startswith(("param-var", "param-func", "param-ext", "param-later", "value-var", "value-func",
                            "value-ext", "value-later"))
        out.append((f"collide-{k}", m_collide(k), "name-capture" if cap else None, "name-capture" if cap else None))
    out.append(("finding-forward-capture", m_forward_capture(), "name-capture", "name-capture"))
    out += [("finding-inline-asm", m_inline_asm(), "inline-asm", "inline-asm"),
            ("float-inf", m_float(float("inf")), None, None),
            ("float-neginf", m_float(float("-inf")), None, None),
            ("float-nan", m_float(float("nan")), None, None),
            ("finding-name-capture-c", m_capture_c(), "name-capture", "name-capture"),
            ("finding-name-capture", m_capture_min(), "name-capture", "name-capture"),
            ("finding-identifier-dot", m_identifier("a.b"), "identifier", None),
            ("finding-identifier-dollar", m_identifier("x$1"), "identifier", None),
            ("rol-keyword", m_rol_keyword(), None, None)]
    return out


# ---------------------------------------------------------------------------------------------
# generated modules + decoration

CONFIGS = [
    dict(),
    dict(floats=True, rolror=True, undefined=True),
    dict(rolror=True, indirect_calls=True, max_funcs=4),
    dict(floats=True, undefined=True, copyblob=True, total_stmts=30),
    dict(globals=False, externals=False, max_funcs=2, total_stmts=25),
    dict(int_types=[ir.i8, ir.u8, ir.i16, ir.u64], rolror=True),
]


def decorate(rng, g, cover):
    """in-fragment features irgen does not produce; every change keeps the module well-formed"""
    m = g.module
    for f in m.functions:
        instrs = [i for b in f.blocks for i in b.instructions]
        for i in instrs:
            if isinstance(i, (ir.Load, ir.Store)) and rng.random() < 0.15:
                i.volatile = True
                cover("volatile")
        # special constants (dead) at the start of the entry block
        for _ in range(rng.randint(0, 3)):
            kind = rng.random()
            if kind < 0.5:
                c = ir.Const(rng.choice(SPECIAL_FLOATS + NONFINITE + [rng.uniform(-1e9, 1e9), rng.random() * 10 ** rng.randint(-300, 300)]),
                             "fc", rng.choice([ir.f64, ir.f32]))
                cover("float-const")
            else:
                t = rng.choice(irgen.INT_TYPES)
                lo, hi = irgen.type_range(t)
                c = ir.Const(rng.choice([lo, hi, -1 if t.signed else hi, rng.randint(lo, hi), 10 ** rng.randint(20, 45)]), "ic", t)
                cover("int-const")
            f.entry.insert_instruction(c)
        # one value in both operand slots (with the shuffled block order below: a forward reference in two slots)
        for i in instrs:
            if isinstance(i, (ir.Binop, ir.CJump)) and i.a.ty is i.b.ty and rng.random() < 0.2:
                if rng.random() < 0.5:
                    i.b = i.a
                else:
                    i.a = i.b
                cover("one-value-two-slots")
        # names with a leading underscore
        for i in instrs:
            if isinstance(i, ir.Value) and rng.random() < 0.05:
                nn = "_" + i.name
                if nn not in f.defined_names:
                    i.name = nn
                    f.defined_names.add(nn)
                    cover("underscore-name")
        # block order that is not a dominance order
        if len(f.blocks) > 2 and rng.random() < 0.6:
            rest = f.blocks[1:]
            rng.shuffle(rest)
            f.blocks[1:] = rest
            cover("shuffled-blocks")
    # several blob types (equal size / different alignment ...) in signatures
    if rng.random() < 0.6:
        bl = [ir.BlobDataTyp(sz, al) for sz, al in rng.sample(BLOBS, 4)]
        m.add_external(ir.ExternalProcedure("xblob", [bl[0], bl[1], rng.choice(irgen.INT_TYPES), bl[2]]))
        m.add_external(ir.ExternalFunction("xblobf", [bl[3], bl[0]], bl[1]))
        bf = ir.Function("blobfn", ir.Binding.LOCAL, bl[2])
        m.add_function(bf)
        ps = []
        for k_, t_ in enumerate([bl[1], bl[2], bl[0], bl[3]]):
            p_ = ir.Parameter(f"bp{k_}", t_)
            bf.add_parameter(p_)
            ps.append(p_)
        bb = ir.Block("blobfn_entry")
        bf.add_block(bb)
        bf.entry = bb
        xproc, xfunc = m.externals[-2], m.externals[-1]
        one = ir.Const(1, "one", xproc.argument_types[2])
        bb.add_instruction(one)
        cl = ir.FunctionCall(xfunc, [ps[3], ps[2]], "cl", bl[1])
        bb.add_instruction(cl)
        bb.add_instruction(ir.ProcedureCall(xproc, [ps[2], cl, one, ps[1]]))
        bb.add_instruction(ir.Return(ps[1]))
        cover("blob-signatures")
    # initial values with address parts
    names = [v.name for v in m.variables] + [f.name for f in m.functions]
    for v in m.variables:
        if v.value is not None and names and rng.random() < 0.4 and v.amount >= 8:
            raw = b"".join(p for p in v.value if isinstance(p, bytes))
            v.value = (raw[: v.amount - 8], (ir.ptr, rng.choice(names)))
            cover("init-address")
    return g


def add_finding_feature(rng, g, which):
    """put one out-of-fragment construct into a generated module"""
    m = g.module
    f = rng.choice(m.functions)
    if which == "inline-asm":
        i = ir.InlineAsm("nop", [])
        f.entry.insert_instruction(i)
    elif which == "float-text":
        f.entry.insert_instruction(ir.Const(rng.choice(NONFINITE), "nf", ir.f64))
    elif which == "name-capture":
        gl = [v.name for v in m.variables] + [x.name for x in m.functions] + [x.name for x in m.externals]
        vals = [i for b in f.blocks for i in b.instructions if isinstance(i, ir.Value)]
        for nm in gl:
            if nm not in f.defined_names and vals:
                v = rng.choice(vals)
                v.name = nm
                f.defined_names.add(nm)
                return True
        return False
    return True


def generated(ctx, n, cover):
    out = []
    for k in range(n):
        cfg = irgen.GenConfig(**CONFIGS[k % len(CONFIGS)])
        g = irgen.gen_module(ctx.rng, cfg, name=f"gen{k}")
        decorate(ctx.rng, g, cover)
        out.append((f"gen{k}", g))
    return out


def c_modules(ctx):
    """front-end output, plain and optimised"""
    from ppci.opt import Mem2RegPromotor, CleanPass, DeleteUnusedInstructionsPass, CommonSubexpressionEliminationPass
    out = []
    for opt in (False, True):
        for g in irgen.c_modules("x86_64"):
            if opt:
                try:
                    for P in (Mem2RegPromotor, DeleteUnusedInstructionsPass, CommonSubexpressionEliminationPass, CleanPass):
                        P().run(g.module)
                except Exception as e:  # a pass crashing is another property's business
                    ctx.count("c_module_pass_exception_" + type(e).__name__)
                    continue
            g.module.name = g.module.name + ("_opt" if opt else "")
            out.append((g.module.name, g))
    return out
