"""C22: run module descriptions on the REAL ppci (`ppci.wasm.instantiate(...)`, python or native target) in forked
children (isolation: the native target can die with SIGFPE/SIGSEGV, a broken translation can loop forever, and all
python-target instances of one process share a heap).  One child per (module, target); results come back as JSON lines.

Child protocol (one JSON object per line):
    {"inst": "ok"} | {"inst": "exc", "name": ..., "msg": ...}
    {"i": k, "r": R}                     result of call k
    {"final": {"mem": [pages, {addr: hex}] | None | ["exc", name], "globals": [R...]}}
R := ["v", [["i", int] | ["f", f64bits_of_python_float] | ["t", typename], ...]] | ["exc", name, msg]
"""
import json
import os
import re
import select
import signal
import struct
import time
import collections

from . import c22_gen as G

TRAP_NAMES = ("WasmTrapException", "Unreachable")


def enc_result(r, nres):
    if nres == 0:
        return ["v", []] if r is None else ["v", [["t", "unexpected-" + type(r).__name__]]]
    vals = [r] if nres == 1 else (list(r) if isinstance(r, (tuple, list)) else [r])
    out = []
    for v in vals:
        if isinstance(v, bool):
            out.append(["t", "bool"])
        elif isinstance(v, int):
            out.append(["i", v])
        elif isinstance(v, float):
            out.append(["f", struct.unpack("<Q", struct.pack("<d", v))[0]])
        else:
            out.append(["t", type(v).__name__])
    return ["v", out]


def child(desc, target, calls, start, wfd, budget):
    out = os.fdopen(wfd, "w", buffering=1)

    def emit(o):
        out.write(json.dumps(o) + "\n")
        out.flush()
    signal.alarm(budget)
    devnull = os.open(os.devnull, os.O_WRONLY)
    os.dup2(devnull, 2)
    os.dup2(devnull, 1)
    try:
        import logging
        logging.disable(logging.CRITICAL)
        from ppci.wasm import instantiate
        m = G.to_ppci(desc)
        inst = instantiate(m, target=target)
    except BaseException as e:  # noqa
        emit({"inst": "exc", "name": type(e).__name__, "msg": str(e)[:300]})
        out.close()
        os._exit(0)
    emit({"inst": "ok"})
    ex = inst.exports
    for k, (fi, args) in enumerate(calls):
        if k < start:
            continue
        ft = desc["types"][desc["funcs"][fi]["type"]]
        hargs = [G.to_host(t, b) for t, b in zip(ft[0], args)]
        try:
            r = ex[f"f{fi}"](*hargs)
            emit({"i": k, "r": enc_result(r, len(ft[1]))})
        except BaseException as e:  # noqa
            emit({"i": k, "r": ["exc", type(e).__name__, str(e)[:200]]})
    fin = {"mem": None, "globals": []}
    if desc.get("mem") is not None:
        try:
            mem = ex["mem"]
            pages = mem.size()
            data = bytes(mem.read(0, pages * 65536))
            fin["mem"] = [pages, {str(mm.start()): mm.group().hex() for mm in re.finditer(rb"[^\x00]+", data)}]
        except BaseException as e:  # noqa
            fin["mem"] = ["exc", type(e).__name__, str(e)[:200]]
    for k, _g in enumerate(desc.get("globals", [])):
        try:
            fin["globals"].append(enc_result(ex[f"g{k}"].read(), 1))
        except BaseException as e:  # noqa
            fin["globals"].append(["exc", type(e).__name__, str(e)[:200]])
    emit({"final": fin})
    out.close()
    os._exit(0)


class Job:
    def __init__(self, key, desc, target, calls, stateless, budget):
        self.key, self.desc, self.target, self.calls, self.stateless, self.budget = key, desc, target, calls, stateless, budget
        self.inst = None
        self.results = {}
        self.final = None
        self.start = 0
        self.crashes = 0


def spawn(job):
    r, w = os.pipe()
    pid = os.fork()
    if pid == 0:
        os.close(r)
        try:
            child(job.desc, job.target, job.calls, job.start, w, job.budget)
        finally:
            os._exit(1)
    os.close(w)
    return pid, r


def absorb(job, buf):
    for line in buf.split(b"\n"):
        if not line.strip():
            continue
        try:
            o = json.loads(line)
        except ValueError:
            continue
        if "inst" in o:
            job.inst = o
        elif "i" in o:
            job.results[o["i"]] = o["r"]
        elif "final" in o:
            job.final = o["final"]


def run_jobs(jobs, workers=4, max_crashes=400):
    """run all jobs, at most `workers` children at a time; fills job.inst / job.results / job.final.
    A child that dies while executing call k gives results[k] = ["crash", signame]; a stateless job is resumed
    after the crashing call in a fresh child, a stateful one stops there."""
    pending = collections.deque(jobs)
    active = {}
    while pending or active:
        while pending and len(active) < workers:
            j = pending.popleft()
            pid, fd = spawn(j)
            active[fd] = [pid, j, b"", time.time()]
        ready, _, _ = select.select(list(active), [], [], 1.0)
        for fd in ready:
            ent = active[fd]
            data = os.read(fd, 1 << 16)
            if data:
                ent[2] += data
                continue
            os.close(fd)
            del active[fd]
            pid, j, buf, _t = ent
            _, status = os.waitpid(pid, 0)
            absorb(j, buf)
            if os.WIFSIGNALED(status):
                sig = os.WTERMSIG(status)
                name = "timeout" if sig == signal.SIGALRM else "crash-" + signal.Signals(sig).name
                if j.inst is None:
                    j.inst = {"inst": name}
                    continue
                done = [k for k in range(len(j.calls)) if k in j.results]
                k = (max(done) + 1) if done else j.start
                if k < len(j.calls):
                    j.results[k] = [name]
                    j.crashes += 1
                    if j.stateless and j.crashes < max_crashes and k + 1 < len(j.calls):
                        j.start = k + 1
                        j.inst = None
                        pending.appendleft(j)
                else:
                    j.final = {"mem": [name], "globals": []}
    return jobs
