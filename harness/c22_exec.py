"""C22: run module descriptions on the REAL ppci (`ppci.wasm.instantiate(...)`, python or native target) in forked
children (isolation: the native target can die with SIGFPE/SIGSEGV, a broken translation can loop forever, and all
python-target instances of one process share a heap).  One child per (module, target); results come back as JSON lines.

Child protocol (one JSON object per line):
    {"inst": "ok"} | {"inst": "exc", "name": ..., "msg": ...}
    {"i": k, "r": R}                     result of call k
    {"final": {"mem": [pages, {addr: hex}] | None | ["exc", name], "globals": [R...]}}
R := ["v", [["i", int] | ["f", f64bits_of_python_float] | ["t", typename], ...]] | ["exc", name, msg]
"""
import json
import os
import re
import select
import signal
import struct
import time
import collections

from . import c22_gen as G

TRAP_NAMES = ("WasmTrapException", "Unreachable")


def enc_result(r, nres):
    if nres == 0:
        return ["v", []] if r is None else ["v", [["t", "unexpected-" + type(r).__name__]]]
    vals = [r] if nres == 1 else (list(r) if isinstance(r, (tuple, list)) else [r])
    out = []
    for v in vals:
        if isinstance(v, bool):
            out.append(["t", "bool"])
        elif isinstance(v, int):
            out.append(["i", v])
        elif isinstance(v, float):
            out.append(["f", struct.unpack("<Q", struct.pack("<d", v))[0]])
        else:
            out.append(["t", type(v).__name__])
    return ["v", out]


def fresh_python_runtime():
    """every python-target instance of a process shares one heap (`get_irpy_rt` singleton + `rt.clone()`), which makes a second
    instance change `memory.size` of the first.  A worker runs many modules one after the other: give each its own runtime."""
    try:
        from ppci.wasm.execution import _python_instance as PI
        if hasattr(PI.get_irpy_rt, "_instance"):
            delattr(PI.get_irpy_rt, "_instance")
    except Exception:  # noqa
        pass


def run_one(job, emit):
    """instantiate job.desc on job.target and perform job.calls[job.start:]; everything observed goes to emit()"""
    desc, target, calls = job.desc, job.target, job.calls
    try:
        from ppci.wasm import instantiate
        if target == "python":
            fresh_python_runtime()
        m = G.to_ppci(desc)
        inst = instantiate(m, target=target)
        if job.twice:
            inst = instantiate(m, target=target)          # the same Module object again
        if job.after is not None:
            instantiate(G.to_ppci(job.after), target=target)  # an unrelated second instance in the same process
    except BaseException as e:  # noqa
        emit({"inst": "exc", "name": type(e).__name__, "msg": str(e)[:300]})
        return
    emit({"inst": "ok"})
    ex = inst.exports
    for k, (fi, args) in enumerate(calls):
        if k < job.start:
            continue
        ft = desc["types"][desc["funcs"][fi]["type"]]
        hargs = [G.to_host(t, b) for t, b in zip(ft[0], args)]
        try:
            r = ex[f"f{fi}"](*hargs)
            emit({"i": k, "r": enc_result(r, len(ft[1]))})
        except BaseException as e:  # noqa
            emit({"i": k, "r": ["exc", type(e).__name__, str(e)[:200]]})
    fin = {"mem": None, "globals": []}
    if desc.get("mem") is not None:
        try:
            mem = ex["mem"]
            pages = mem.size()
            data = bytes(mem.read(0, pages * 65536))
            fin["mem"] = [pages, {str(mm.start()): mm.group().hex() for mm in re.finditer(rb"[^\x00]+", data)}]
        except BaseException as e:  # noqa
            fin["mem"] = ["exc", type(e).__name__, str(e)[:200]]
    for k, _g in enumerate(desc.get("globals", [])):
        try:
            fin["globals"].append(enc_result(ex[f"g{k}"].read(), 1))
        except BaseException as e:  # noqa
            fin["globals"].append(["exc", type(e).__name__, str(e)[:200]])
    emit({"final": fin})


def worker(jobs, rfd, wfd):
    """child: read job indices ("<index> <start>\n") from rfd, run them, write JSON lines to wfd"""
    import gc
    import logging
    gc.disable()
    logging.disable(logging.CRITICAL)
    devnull = os.open(os.devnull, os.O_WRONLY)
    os.dup2(devnull, 2)
    os.dup2(devnull, 1)
    inp = os.fdopen(rfd, "r")
    out = os.fdopen(wfd, "w", buffering=1)

    def emit(o):
        out.write(json.dumps(o) + "\n")
        out.flush()
    n = 0
    for line in inp:
        ws = line.split()
        if not ws:
            continue
        j = jobs[int(ws[0])]
        j.start = int(ws[1])
        run_one(j, emit)
        emit({"done": int(ws[0])})
        n += 1
        if n % 25 == 0:
            gc.collect()
    out.close()
    os._exit(0)


def warm(targets):
    """import everything the children need once, in the parent (children are forked): instantiate a trivial module"""
    import logging
    from ppci.wasm import instantiate
    d = G.new_module(mem=[1, 1])
    G.add_func(d, ["f64"], ["f64"], [], [["local.get", 0], ["f64.sqrt"]])
    lvl = logging.root.manager.disable
    logging.disable(logging.CRITICAL)
    try:
        for t in targets:
            try:
                instantiate(G.to_ppci(d), target=t)
            except Exception:  # noqa
                pass
    finally:
        logging.disable(lvl)


class Job:
    def __init__(self, key, desc, target, calls, stateless, budget, after=None, twice=False):
        self.key, self.desc, self.target, self.calls, self.stateless, self.budget = key, desc, target, calls, stateless, budget
        self.after, self.twice = after, twice
        self.inst = None
        self.results = {}
        self.final = None
        self.start = 0
        self.crashes = 0


class Slot:
    def __init__(self, jobs):
        c2p_r, c2p_w = os.pipe()
        p2c_r, p2c_w = os.pipe()
        pid = os.fork()
        if pid == 0:
            os.close(c2p_r)
            os.close(p2c_w)
            try:
                worker(jobs, p2c_r, c2p_w)
            finally:
                os._exit(1)
        os.close(c2p_w)
        os.close(p2c_r)
        self.pid, self.rfd, self.wfd = pid, c2p_r, p2c_w
        self.buf = b""
        self.job = None
        self.idx = None
        self.t0 = 0.0

    def assign(self, idx, job):
        self.job, self.idx, self.t0 = job, idx, time.time()
        os.write(self.wfd, f"{idx} {job.start}\n".encode())

    def close(self):
        for fd in (self.rfd, self.wfd):
            try:
                os.close(fd)
            except OSError:
                pass


def absorb_line(job, line):
    try:
        o = json.loads(line)
    except ValueError:
        return None
    if "inst" in o:
        job.inst = o
    elif "i" in o:
        job.results[o["i"]] = o["r"]
    elif "final" in o:
        job.final = o["final"]
    elif "done" in o:
        return "done"
    return None


def run_jobs(jobs, workers=4, max_crashes=400):
    """run all jobs on `workers` persistent forked worker processes; fills job.inst / job.results / job.final.
    A worker that dies (or exceeds the job's budget and is killed) while executing call k gives results[k] = ["crash-SIG"] /
    ["timeout"]; a stateless job is resumed after that call, a stateful one stops there.  A fresh worker replaces the dead one."""
    import gc
    gc.collect()
    gc.freeze()
    todo = collections.deque(range(len(jobs)))
    slots = []
    try:
        while todo or any(s.job is not None for s in slots):
            # hand out work
            for s in slots:
                if s.job is None and todo:
                    i = todo.popleft()
                    s.assign(i, jobs[i])
            while todo and len(slots) < workers:
                s = Slot(jobs)
                slots.append(s)
                i = todo.popleft()
                s.assign(i, jobs[i])
            busy = [s for s in slots if s.job is not None]
            if not busy:
                break
            ready, _, _ = select.select([s.rfd for s in busy], [], [], 1.0)
            now = time.time()
            for s in busy:
                dead = None
                if s.rfd in ready:
                    data = os.read(s.rfd, 1 << 16)
                    if data:
                        s.buf += data
                        while b"\n" in s.buf:
                            line, s.buf = s.buf.split(b"\n", 1)
                            if absorb_line(s.job, line) == "done":
                                s.job = None
                                break
                        continue
                    _, status = os.waitpid(s.pid, 0)
                    dead = "crash-" + (signal.Signals(os.WTERMSIG(status)).name if os.WIFSIGNALED(status) else "exit")
                elif now - s.t0 > s.job.budget:
                    os.kill(s.pid, signal.SIGKILL)
                    os.waitpid(s.pid, 0)
                    dead = "timeout"
                if dead:
                    j = s.job
                    s.close()
                    slots.remove(s)
                    if j.inst is None or j.inst.get("inst") != "ok":
                        j.inst = {"inst": dead}
                        continue
                    done = [k for k in range(len(j.calls)) if k in j.results]
                    k = (max(done) + 1) if done else j.start
                    if k < len(j.calls):
                        j.results[k] = [dead]
                        j.crashes += 1
                        if j.stateless and j.crashes < max_crashes and k + 1 < len(j.calls):
                            j.start = k + 1
                            j.inst = None
                            todo.appendleft(jobs.index(j))
                    else:
                        j.final = {"mem": [dead], "globals": []}
    finally:
        for s in slots:
            s.close()
            try:
                os.kill(s.pid, signal.SIGKILL)
                os.waitpid(s.pid, 0)
            except OSError:
                pass
        gc.unfreeze()
    return jobs
