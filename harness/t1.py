"""T1 wiring: run the py2lean translator (translate/py2lean.py) for one Python module of the
checked tree (common.REPO) and (re)write lean/PpciVerif/Gen/Py_<module>.lean when its content changed.

Used by regen(ctx) of the properties whose leaf functions are tied by translation:
C20 (leb128), C39 (bitfun), C38 (constantfolding helpers).  A source the translator cannot
handle raises py2lean.Untranslatable: common.run records it as a broken translation obligation
(the stale Gen file stays, so the Lean build itself is unaffected) and the verdict protocol goes on
to the failing-input search (= the ordinary check, which evaluates the property on the real code).
"""
import sys

from . import common

_T = str(common.VERIF / "translate")
if _T not in sys.path:
    sys.path.insert(0, _T)
import py2lean  # noqa: E402

R = py2lean.Record

MODULES = {
    "leb128": dict(
        relpath="ppci/utils/leb128.py", lean_name="Py_leb128",
        functions=["signed_leb128_encode", "unsigned_leb128_encode", "signed_leb128_decode", "unsigned_leb128_decode"],
    ),
    "bitfun": dict(
        relpath="ppci/utils/bitfun.py", lean_name="Py_bitfun",
        functions=["rotate_right", "rotate_left", "rotl", "reverse_bits", "rotr", "to_signed", "to_unsigned", "correct",
                   "clz", "ctz", "popcnt", "sign_extend", "encode_imm32", "align", "wrap_negative", "inrange"],
    ),
    "constantfolding": dict(
        relpath="ppci/opt/constantfolding.py", lean_name="Py_constantfolding",
        functions=["cast", "correct", "irem"],
        # the `ty` parameter is an object; these are the attributes / isinstance tests the functions read
        records={("correct", "ty"): R(["bits", "signed"]),
                 ("cast", "ty"): R(["is:PointerTyp", "is_integer", "bits", "signed", "is:FloatingPointTyp"])},
    ),
}

TRUSTED = ("translate/py2lean.py (T1 translator, ~900 lines of Python: the reading of the closed Python fragment written down in "
           "translate/SEMANTICS.md) and its runtime Model.PyRt / Model.PyInt")


X = py2lean.External
BITFUN_EXTERNALS = {
    # functions of ppci/utils/bitfun.py that relocation bodies call; translated in Gen.Py_bitfun
    "wrap_negative": X("Gen.Py_bitfun.wrap_negative", "bitfun", ["int", "int"], "int", "PpciVerif.Gen.Py_bitfun"),
    "align": X("Gen.Py_bitfun.align", "bitfun", ["int", "int"], "int", "PpciVerif.Gen.Py_bitfun"),
    "inrange": X("Gen.Py_bitfun.inrange", "bitfun", ["int", "int"], "bool", "PpciVerif.Gen.Py_bitfun"),
}

MODULES["riscv_relocations"] = dict(
    relpath="ppci/arch/riscv/relocations.py", lean_name="Py_riscv_relocations", externals=BITFUN_EXTERNALS,
    functions=["BImm12Relocation.calc", "BImm20Relocation.apply", "Abs32Imm20Relocation.apply", "RelImm20Relocation.apply",
               "Abs32Imm12Relocation.calc", "RelImm12Relocation.calc", "AbsAddr32Relocation.apply"],
)


MODULES["rvc_relocations"] = dict(
    relpath="ppci/arch/riscv/rvc_relocations.py", lean_name="Py_rvc_relocations", externals=BITFUN_EXTERNALS,
    functions=["CBImm11Relocation.apply", "CBlImm11Relocation.apply", "apply_cool_mapping", "BcImm11Relocation.apply",
               "BcImm8Relocation.apply"],
)


MODULES["arm_relocations"] = dict(
    relpath="ppci/arch/arm/arm_relocations.py", lean_name="Py_arm_relocations", externals=BITFUN_EXTERNALS,
    functions=["Rel8Relocation.calc", "Imm24Relocation.calc"],
)
MODULES["thumb_relocations"] = dict(
    relpath="ppci/arch/arm/thumb_relocations.py", lean_name="Py_thumb_relocations", externals=BITFUN_EXTERNALS,
    functions=["Lit8Relocation.apply", "WrapNew11Relocation.apply", "Rel8Relocation.apply", "BlImm11Relocation.apply"],
)
MODULES["x86_64_relocations"] = dict(
    relpath="ppci/arch/x86_64/instructions.py", lean_name="Py_x86_64_relocations", externals=BITFUN_EXTERNALS,
    functions=["Rel32JmpRelocation.calc", "Abs32Relocation.calc", "Jmp8Relocation.calc", "Abs64Relocation.calc"],
    records={("Rel32JmpRelocation.calc", "self"): R(["addend"])},
)


def _ir2py_helper_text():
    """the text that `IrToPythonCompiler.generate_builtins` of the checked tree EMITS for its arithmetic
    helpers (correct / idiv / irem / ishl / ishr), dedented to module level"""
    import textwrap
    from . import c24
    return textwrap.dedent("\n".join(c24.helper_lines())) + "\n"


MODULES["ir2py_helpers"] = dict(
    relpath="ppci/lang/python/ir2py.py:generate_builtins(emitted text)", lean_name="Py_ir2py_helpers",
    functions=["correct", "idiv", "irem", "ishl", "ishr"], text=_ir2py_helper_text,
)


def regen(ctx, key):
    m = MODULES[key]
    if "text" in m:
        path, changed = py2lean.regen_text(m["text"](), m["relpath"], m["functions"], m["lean_name"], m.get("records"))
    else:
        path, changed = py2lean.regen(common.REPO, m["relpath"], m["functions"], m["lean_name"], m.get("records"),
                                      m.get("externals"))
    ctx.extra_cov.setdefault("t1_translated", {})[m["relpath"]] = {
        "functions": m["functions"], "gen": f"PpciVerif/Gen/{m['lean_name']}.lean", "rewritten": bool(changed)}
    return changed


# everything the relocation theorems (Props/C10T1, C11T1) import
RELOC_KEYS = ["bitfun", "riscv_relocations", "rvc_relocations", "arm_relocations", "thumb_relocations", "x86_64_relocations"]


def regen_many(ctx, keys):
    """regenerate several modules; translate ALL of them before reporting the first refusal, so that one
    untranslatable source does not leave the other Gen files stale"""
    first = None
    for k in keys:
        try:
            regen(ctx, k)
        except py2lean.Untranslatable as e:
            first = first or e
    if first is not None:
        raise first
