"""T1 wiring: run the py2lean translator (translate/py2lean.py) for one Python module of the
checked tree (common.REPO) and (re)write lean/PpciVerif/Gen/Py_<module>.lean when its content changed.

Used by regen(ctx) of the properties whose leaf functions are tied by translation:
C20 (leb128), C39 (bitfun), C38 (constantfolding helpers).  A source the translator cannot
handle raises py2lean.Untranslatable: common.run records it as a broken translation obligation
(the stale Gen file stays, so the Lean build itself is unaffected) and the verdict protocol goes on
to the failing-input search (= the ordinary check, which evaluates the property on the real code).
"""
import sys

from . import common

_T = str(common.VERIF / "translate")
if _T not in sys.path:
    sys.path.insert(0, _T)
import py2lean  # noqa: E402

R = py2lean.Record

MODULES = {
    "leb128": dict(
        relpath="ppci/utils/leb128.py", lean_name="Py_leb128",
        functions=["signed_leb128_encode", "unsigned_leb128_encode", "signed_leb128_decode", "unsigned_leb128_decode"],
    ),
    "bitfun": dict(
        relpath="ppci/utils/bitfun.py", lean_name="Py_bitfun",
        functions=["rotate_right", "rotate_left", "rotl", "reverse_bits", "rotr", "to_signed", "to_unsigned", "correct",
                   "clz", "ctz", "popcnt", "sign_extend", "encode_imm32", "align", "wrap_negative", "inrange"],
    ),
    "constantfolding": dict(
        relpath="ppci/opt/constantfolding.py", lean_name="Py_constantfolding",
        functions=["cast", "correct", "irem"],
        # the `ty` parameter is an object; these are the attributes / isinstance tests the functions read
        records={("correct", "ty"): R(["bits", "signed"]),
                 ("cast", "ty"): R(["is:PointerTyp", "is_integer", "bits", "signed", "is:FloatingPointTyp"])},
    ),
}

TRUSTED = ("translate/py2lean.py (T1 translator, ~900 lines of Python: the reading of the closed Python fragment written down in "
           "translate/SEMANTICS.md) and its runtime Model.PyRt / Model.PyInt")


def regen(ctx, key):
    m = MODULES[key]
    path, changed = py2lean.regen(common.REPO, m["relpath"], m["functions"], m["lean_name"], m.get("records"))
    ctx.extra_cov.setdefault("t1_translated", {})[m["relpath"]] = {
        "functions": m["functions"], "gen": f"PpciVerif/Gen/{m['lean_name']}.lean", "rewritten": bool(changed)}
    return changed
