"""Validation of the *specification* Spec.IR (it is trusted only after this):
generated UB-free modules are executed by Spec.IR (Lean, through Drivers/IR.lean) and by
  (i)  ppci's IR->Python backend (ir2py)
  (ii) native x86-64 code from ppci's own code generator (ppci.utils.codepage)
and the observable behaviour (return value, final global bytes, external-call trace) is compared.
A difference is a spec bug or a ppci defect; it is printed with the module text so it can be triaged.

    /venv/bin/python -m harness.irvalidate [--seeds 0-20] [--native] [--floats] [--quiet]
"""
import argparse
import os
import random
import subprocess
import sys
import time
from pathlib import Path

sys.path.insert(0, os.environ.get("PPCI_REPO", "/repo"))
from ppci import ir  # noqa: E402

from . import irgen, irrun, irser  # noqa: E402

LEAN = Path(__file__).resolve().parent.parent / "lean"


def driver(lines, name="IR"):
    data = "".join(l + "\n" for l in lines)
    p = subprocess.run(["lake", "env", "lean", "--run", f"Drivers/{name}.lean"], cwd=LEAN, input=data,
                       capture_output=True, text=True)
    out = p.stdout.splitlines()
    if p.returncode != 0 or len(out) != len(lines):
        raise RuntimeError(f"driver: rc={p.returncode} {len(out)}/{len(lines)}\n{p.stderr[-2000:]}")
    return out


# configurations: what each executor can be asked to run
def cfg_ir2py(floats=False):
    # ir2py has no CopyBlob / rol / ror; function values in phis are a known gap
    return irgen.GenConfig(copyblob=False, floats=floats, indirect_calls=floats)


def cfg_native():
    # ppci's x86-64 selector lacks 8/16-bit mul/div/rem/neg patterns (C29): keep those to 32/64 bit
    # (and MULU16 … when combining results), so arithmetic is 32/64-bit; 8/16-bit values go through memory and casts
    wide = [ir.i32, ir.i64, ir.u32, ir.u64]
    return irgen.GenConfig(int_types=wide, param_types=wide, mem_types=list(irgen.INT_TYPES), floats=False,
                           total_stmts=40)


def main():
    ap = argparse.ArgumentParser()
    ap.add_argument("--seeds", default="0-20")
    ap.add_argument("--native", action="store_true")
    ap.add_argument("--floats", action="store_true")
    ap.add_argument("--cmods", action="store_true")
    ap.add_argument("--nargs", type=int, default=4)
    ap.add_argument("--quiet", action="store_true")
    a = ap.parse_args()
    lo, hi = (a.seeds.split("-") + [a.seeds])[:2]
    gens = []
    t0 = time.time()
    for seed in range(int(lo), int(hi) + 1):
        rng = random.Random(seed)
        cfg = cfg_native() if a.native else cfg_ir2py(a.floats)
        g = irgen.gen_module(rng, cfg, name=f"m{seed}")
        cases = [(e, args) for e in g.entries if e.external_ok for args in irgen.gen_args(rng, e, a.nargs)]
        gens.append((seed, g, cases))
    if a.cmods:
        rng = random.Random(12345)
        for g in irgen.c_modules("x86_64"):
            cases = [(e, args) for e in g.entries for args in irgen.gen_args(rng, e, a.nargs)]
            gens.append((g.module.name, g, cases))
    print(f"generated {len(gens)} modules in {time.time()-t0:.1f}s", flush=True)
    lines, index = [], []
    for seed, g, cases in gens:
        ls = irrun.spec_requests(g, cases, ptr=8 if (a.native or a.cmods) else 4)
        ls.insert(-len(cases) if cases else len(ls), "roundtrip")
        index.append((len(lines), len(ls)))
        lines += ls
    t0 = time.time()
    out = driver(lines)
    print(f"driver: {len(lines)} requests in {time.time()-t0:.1f}s", flush=True)
    stats = {"cases": 0, "agree": 0, "differ": 0, "spec-nonok": 0, "wf-fail": 0, "steps": 0}
    for (seed, g, cases), (start, n) in zip(gens, index):
        rep = out[start:start + n]
        k = 1 if rep[0] == "ok" else 0          # config line
        load, wf, rt = rep[k], rep[k + 1], rep[k + 2]
        runs = rep[k + 3:]
        if not load.startswith("ok") or wf != "ok 1" or rt != "ok 1":
            stats["wf-fail"] += 1
            print(f"seed {seed}: load={load} wf={wf} roundtrip={rt}")
            continue
        if a.native:
            others = irrun.native_results(g, cases)
        else:
            ex = irrun.Ir2Py(g)
            others = [ex.run(e, args) for e, args in cases]
        for (e, args), s, o in zip(cases, runs, others):
            stats["cases"] += 1
            if not s.startswith("ok ret="):
                stats["spec-nonok"] += 1
                if not a.quiet:
                    print(f"seed {seed} {e.name}{args}: spec says {s[:100]}; other {o[:80]}")
                continue
            stats["steps"] += irrun.steps_of(s) or 0
            pg = irrun.pointer_globals(g.module)
            if irrun.same_modulo_undef(irrun.mask_globals(irrun.strip_steps(s)[3:], pg), irrun.mask_globals(o, pg)):
                stats["agree"] += 1
            else:
                stats["differ"] += 1
                print(f"DIFF seed {seed} {e.name}{args}\n  spec : {s}\n  other: {o}")
    print(stats)


if __name__ == "__main__":
    main()
