"""Run every property module's regen() (table translators) against the current /repo."""
import importlib
import sys
from pathlib import Path

VERIF = Path(__file__).resolve().parent.parent
sys.path.insert(0, str(VERIF))
from harness import common  # noqa: E402

only = {a.lower() for a in sys.argv[1:]}
for f in sorted((VERIF / "harness").glob("c[0-9][0-9].py")):
    if only and f.stem not in only:
        continue
    m = importlib.import_module("harness." + f.stem)
    if hasattr(m, "regen"):
        ctx = common.Ctx(m, "quick", 0)
        try:
            m.regen(ctx)
            print("regen", m.PROP, "ok")
        except Exception as e:  # the check itself reports this as a broken translation
            print("regen", m.PROP, "FAILED:", type(e).__name__, e)
