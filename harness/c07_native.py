"""C07, x86_64: NATIVE annotation search (no theorem — a failing-input search on the host CPU, which is x86-64).

For every x86_64 instruction class that is safe to execute in isolation (no control transfer, no
privileged / IO / string / stack instruction, no x87, no label operand, no rsp/rip operand) instances are
built, encoded with the REAL ppci encoder and executed inside a small stub that loads flags, xmm0-15 and all
general registers except rsp from a buffer, runs the instruction, and stores everything back.  All general
registers hold addresses inside a scratch buffer, so memory operands are harmless.  Checked per instance:
  (a) every general / xmm register that CHANGED is covered by defined_registers ∪ clobbers (sub-registers
      count for their full register);                          else  x86_64:<class>:writes-undeclared
  (b) changing a register that is NOT covered by used_registers (nor written-only) leaves every other
      register, the flags and the scratch memory unchanged;   else  x86_64:<class>:reads-undeclared
Flags are implicit state (ppci does not model them).  The work is done in forked children: a SIGSEGV /
SIGILL / SIGFPE of an instance is a counted skip, not a crash."""
import ctypes
import json
import mmap
import os
import platform
import random
import struct
import sys
from pathlib import Path

VERIF = Path(__file__).resolve().parent.parent

UNSAFE_MNEMONICS = {
    "jmp", "call", "ret", "retf", "loop", "syscall", "sysret", "int", "int3", "into", "hlt", "in", "out", "cli", "sti",
    "push", "pop", "pushfq", "popfq", "pushf", "popf", "leave", "enter", "rep", "repe", "repne", "movsb", "movsw",
    "movsd", "movsq", "stosb", "stosw", "stosd", "stosq", "lodsb", "lodsw", "lodsd", "lodsq", "scasb", "cmpsb", "cpuid",
    "rdtsc", "iret", "iretq", "ud2", "lgdt", "lidt", "wrmsr", "rdmsr", "xchg", "db", "dw", "dd", "dq", "dcd", "align",
    "section", "global", "emms", "wait",
}

GPR64 = ["rax", "rcx", "rdx", "rbx", "rsp", "rbp", "rsi", "rdi", "r8", "r9", "r10", "r11", "r12", "r13", "r14", "r15"]
IN_GPR, IN_XMM, IN_FLAGS, OUT_GPR, OUT_XMM, OUT_FLAGS, STATE_SIZE = 0, 128, 384, 512, 640, 896, 1024
SCRATCH = 1 << 16


def _disp32(v):
    return struct.pack("<i", v)


def stub(code):
    """machine code of `void f(state*)` around the instruction bytes `code`"""
    b = bytearray()
    b += bytes.fromhex("53 55 4154 4155 4156 4157 57".replace(" ", ""))      # push rbx rbp r12-r15 ; push rdi
    b += b"\xff\xb7" + _disp32(IN_FLAGS) + b"\x9d"                             # push [rdi+flags] ; popfq
    for i in range(16):
        rex = b"\x44" if i >= 8 else b""
        b += b"\xf3" + rex + b"\x0f\x6f" + bytes([0x80 | ((i & 7) << 3) | 7]) + _disp32(IN_XMM + 16 * i)   # movdqu xmm_i, [rdi+..]
    for i in list(range(16)):
        if i in (4, 7):
            continue
        b += bytes([0x48 | ((i >> 3) << 2)]) + b"\x8b" + bytes([0x80 | ((i & 7) << 3) | 7]) + _disp32(IN_GPR + 8 * i)
    b += b"\x48\x8b\xbf" + _disp32(IN_GPR + 8 * 7)                             # mov rdi, [rdi+56]
    b += bytes(code)
    b += b"\x48\x87\x3c\x24"                                                   # xchg rdi, [rsp]
    for i in range(16):
        if i in (4, 7):
            continue
        b += bytes([0x48 | ((i >> 3) << 2)]) + b"\x89" + bytes([0x80 | ((i & 7) << 3) | 7]) + _disp32(OUT_GPR + 8 * i)
    for i in range(16):
        rex = b"\x44" if i >= 8 else b""
        b += b"\xf3" + rex + b"\x0f\x7f" + bytes([0x80 | ((i & 7) << 3) | 7]) + _disp32(OUT_XMM + 16 * i)
    b += b"\x9c\x8f\x87" + _disp32(OUT_FLAGS)                                  # pushfq ; pop [rdi+flags_out]
    b += b"\x58\x48\x89\x87" + _disp32(OUT_GPR + 8 * 7)                        # pop rax ; mov [rdi+56'], rax
    b += bytes.fromhex("415f415e415d415c5d5bc3")                               # pop r15-r12 rbp rbx ; ret
    return bytes(b)


class Runner:
    def __init__(self):
        self.code = mmap.mmap(-1, 4096, prot=mmap.PROT_READ | mmap.PROT_WRITE | mmap.PROT_EXEC)
        self.code_addr = ctypes.addressof(ctypes.c_char.from_buffer(self.code))
        self.fn = ctypes.CFUNCTYPE(None, ctypes.c_void_p)(self.code_addr)
        self.state = ctypes.create_string_buffer(STATE_SIZE)
        self.state_addr = ctypes.addressof(self.state)
        self.scratch = mmap.mmap(-1, SCRATCH)
        self.scratch_addr = ctypes.addressof(ctypes.c_char.from_buffer(self.scratch))
        rnd = random.Random(12345)
        self.pattern = bytes(rnd.getrandbits(8) for _ in range(SCRATCH))

    def load(self, code):
        s = stub(code)
        self.code.seek(0)
        self.code.write(s)

    def run(self, gpr, xmm):
        """-> (gpr', xmm', flags', scratch bytes)"""
        self.scratch.seek(0)
        self.scratch.write(self.pattern)
        st = bytearray(STATE_SIZE)
        struct.pack_into("<16Q", st, IN_GPR, *gpr)
        for i, v in enumerate(xmm):
            st[IN_XMM + 16 * i: IN_XMM + 16 * i + 16] = v
        struct.pack_into("<Q", st, IN_FLAGS, 0x202)
        ctypes.memmove(self.state_addr, bytes(st), STATE_SIZE)
        self.fn(self.state_addr)
        out = self.state.raw
        g = list(struct.unpack_from("<16Q", out, OUT_GPR))
        g[4] = gpr[4]
        x = [out[OUT_XMM + 16 * i: OUT_XMM + 16 * i + 16] for i in range(16)]
        fl = struct.unpack_from("<Q", out, OUT_FLAGS)[0] & 0x8D5          # CF PF AF ZF SF OF
        self.scratch.seek(0)
        return g, x, fl, self.scratch.read(SCRATCH)


def reg_slot(r):
    """ppci register -> ('g', index) | ('x', index) | None"""
    from ppci.arch.x86_64 import registers as xr
    if type(r).__name__.startswith("Xmm"):
        return ("x", r.num)
    if isinstance(r, xr.Register8):
        # al cl dl bl ah ch dh bh -> rax rcx rdx rbx (with the always-present REX: spl.. — num 4-7 map to rsp..rdi)
        return ("g", r.num if r.num < 8 else r.num)
    if isinstance(r, (xr.Register64, xr.Register32, xr.Register16)):
        return ("g", r.num)
    return None


def mnemonic(cls):
    syn = getattr(cls, "syntax", None)
    if syn is None:
        return ""
    return next((e for e in syn.syntax if isinstance(e, str) and not e.isspace()), "")


def safe_class(cls):
    m = mnemonic(cls)
    if not m or m in UNSAFE_MNEMONICS:
        return False
    if m.startswith("j") or m.startswith("f") or m.startswith("loop") or m.startswith("ret") or m.startswith("set") and False:
        return False
    return True


def leaves_regs(ins):
    try:
        return list(ins.registers)
    except Exception:  # noqa
        return []


def instances(cls, by_cls, rng, thorough):
    """a few instances per operand alternative: registers (not rsp/rbp-class as plain operands are fine, rsp is
    excluded), memory operands with small displacements"""
    from harness import c08_llvm as L
    old = L.DISPS
    L.DISPS = [0, 8, -8, 64]
    L._grid_cache.clear()
    try:
        insts = L.build(cls, by_cls, rng, [0, 1, 2, 5, 31, -1, 100], False)
    finally:
        L.DISPS = old
        L._grid_cache.clear()
    out = []
    for ins in insts:
        try:
            parts = {type(nl).__name__ for nl in ins.non_leaves}
        except Exception:  # noqa
            parts = set()
        if parts & {"RmRip", "RmAbs", "RmAbsLabel", "RmMemDisp2"}:
            continue         # rip-relative would touch the stub itself; absolute / base+index addresses are not mapped
        regs = leaves_regs(ins)
        slots = [reg_slot(r) for r in regs]
        if any(s == ("g", 4) for s in slots):            # rsp / esp / sp / spl (ah with REX)
            continue
        if any(getattr(r, "name", "") in ("rip",) for r in regs):
            continue
        out.append(ins)
    n = 60 if thorough else 12
    if len(out) > n:
        # register-only instances first (they are the ones annotations are about), memory forms after
        def is_mem(i):
            return any(type(nl).__name__.startswith("RmMem") for nl in i.non_leaves)
        regonly = [i for i in out if not is_mem(i)]
        mem = [i for i in out if is_mem(i)]
        k = min(len(regonly), n - min(len(mem), n // 4))
        pick = regonly if len(regonly) <= k else regonly[: k // 2] + rng.sample(regonly[k // 2:], k - k // 2)
        rest = n - len(pick)
        pick += mem if len(mem) <= rest else rng.sample(mem, rest)
        out = pick
    return out


def covered(slot, regs):
    return any(reg_slot(r) == slot for r in regs)


def write_mask(slot, regs):
    """bits of the full register that a declared write of a sub-register can change (8/16 bit registers
    keep the rest; 32 bit writes zero-extend)"""
    m = 0
    for r in regs:
        if reg_slot(r) == slot:
            bits = getattr(r, "bitsize", 64)
            m |= (1 << bits) - 1 if bits in (8, 16) else (1 << 64) - 1
    return m or (1 << 64) - 1


def examine(runner, ins, code, rng, nstates):
    """-> list of (kind, register name, detail)"""
    DIVLIKE = mnemonic(type(ins)) in ("div", "idiv")
    used = list(ins.used_registers)
    defined = list(ins.defined_registers) + list(getattr(ins, "clobbers", []))
    findings = []
    base = runner.scratch_addr + SCRATCH // 2
    for k in range(nstates):
        gpr = [base + 8 * rng.randrange(-256, 256) for _ in range(16)]
        if DIVLIKE:
            gpr[2] = 0                   # rdx:rax / operand must not overflow
        xmm = [bytes(rng.getrandbits(8) for _ in range(16)) for _ in range(16)]
        g1, x1, f1, m1 = runner.run(gpr, xmm)
        for i in range(16):
            if i != 4 and g1[i] != gpr[i] and not covered(("g", i), defined):
                findings.append(("writes-undeclared", GPR64[i], f"{gpr[i]:#x} -> {g1[i]:#x}"))
        for i in range(16):
            if x1[i] != xmm[i] and not covered(("x", i), defined):
                findings.append(("writes-undeclared", f"xmm{i}", ""))
        if findings or k > 0:
            continue
        # dependency: change one register that is not declared read
        for i in range(16):
            if i == 4 or covered(("g", i), used):
                continue
            g2 = list(gpr)
            g2[i] = gpr[i] + 16 if gpr[i] + 16 < runner.scratch_addr + SCRATCH - 4096 else gpr[i] - 16
            gg, xx, ff, mm = runner.run(g2, xmm)
            same = all(gg[j] == g1[j] for j in range(16) if j != i) and xx == x1 and ff == f1 and mm == m1
            mk = write_mask(("g", i), defined)
            if same and covered(("g", i), defined) and (gg[i] & mk) != (g1[i] & mk):
                same = False        # the register itself is rewritten from its own value (read-modify-write)
            if not same:
                findings.append(("reads-undeclared", GPR64[i], ""))
        for i in range(16):
            if covered(("x", i), used):
                continue
            x2 = list(xmm)
            x2[i] = bytes(b ^ 0x5A for b in xmm[i])
            gg, xx, ff, mm = runner.run(gpr, x2)
            same = gg == g1 and all(xx[j] == x1[j] for j in range(16) if j != i) and ff == f1 and mm == m1
            if same and covered(("x", i), defined) and xx[i][:4] != x1[i][:4]:
                same = False        # scalar results live in the low lanes; the preserved upper lanes are no dependency
            if not same:
                findings.append(("reads-undeclared", f"xmm{i}", ""))
    return findings


def child(items, start, wfd, seed, nstates):
    """run items[start:], one JSON line per instance; dies on a fatal signal"""
    rng = random.Random(seed)
    runner = Runner()
    w = os.fdopen(wfd, "w", buffering=1)
    for k in range(start, len(items)):
        ins, code = items[k]
        w.write(json.dumps({"begin": k}) + "\n")
        runner.load(code)
        try:
            fs = examine(runner, ins, code, rng, nstates)
        except Exception as e:  # noqa
            fs = [("harness-error", type(e).__name__, str(e)[:100])]
        w.write(json.dumps({"done": k, "findings": fs}) + "\n")
    w.close()
    os._exit(0)


def check(ctx):
    if platform.machine() not in ("x86_64", "AMD64"):
        ctx.note("native x86_64 annotation search skipped: host is " + platform.machine())
        return
    import time
    t0 = time.time()
    sys.path.insert(0, str(VERIF / "translate"))
    import tables
    from ppci.arch.encoding import Instruction
    tabs = getattr(ctx, "tabs", None) or tables.collect()
    rows = tabs["isas"]["x86_64"]["instrs"]
    by_cls = {r["cls"]: r for r in rows}
    items, names = [], []
    for r in rows:
        cls = r["cls"]
        if not (isinstance(cls, type) and issubclass(cls, Instruction)) or not hasattr(cls, "tokens"):
            continue
        if getattr(cls, "syntax", None) is None or not safe_class(cls):
            ctx.count("native_class_skipped_unsafe")
            continue
        for ins in instances(cls, by_cls, ctx.rng, ctx.thorough):
            try:
                if ins.relocations():
                    continue
                code = bytes(ins.encode())
            except Exception:  # noqa
                continue
            if not code or len(code) > 15:
                continue
            items.append((ins, code))
            names.append((r["name"], str(ins), code.hex()))
    ctx.count("native_instances", len(items))
    start = 0
    results = {}
    crashes = 0
    while start < len(items) and crashes < 400:
        rfd, wfd = os.pipe()
        pid = os.fork()
        if pid == 0:
            os.close(rfd)
            try:
                child(items, start, wfd, ctx.seed, 3 if ctx.thorough else 2)
            finally:
                os._exit(1)
        os.close(wfd)
        last_begin = None
        with os.fdopen(rfd) as rf:
            for line in rf:
                try:
                    d = json.loads(line)
                except ValueError:
                    continue
                if "begin" in d:
                    last_begin = d["begin"]
                else:
                    results[d["done"]] = d["findings"]
        _, status = os.waitpid(pid, 0)
        if os.WIFSIGNALED(status) or (last_begin is not None and last_begin not in results):
            crashes += 1
            bad = last_begin if last_begin is not None else start
            sig = os.WTERMSIG(status) if os.WIFSIGNALED(status) else 0
            ctx.count(f"native_skip_signal_{sig}")
            results[bad] = None
            start = bad + 1
        else:
            start = len(items)
    seen_sig = set()
    for k, (cname, text, hx) in enumerate(names):
        fs = results.get(k)
        if fs is None:
            continue
        ctx.count("eval_native_x86_64")
        for kind, reg, detail in fs:
            if kind == "harness-error":
                ctx.count("native_harness_error")
                continue
            sig = f"x86_64:{cname}:{kind}"
            if (sig, reg) in seen_sig:
                continue
            seen_sig.add((sig, reg))
            ctx.fail(sig, f"x86_64 '{text}' ({hx}) executed on the host: {kind.replace('-', ' ')} {reg} {detail}",
                     {"isa": "x86_64", "cls": cname, "printed": text, "bytes": hx}, register=reg)
    ctx.extra_cov["native_x86_64_seconds"] = round(time.time() - t0, 1)
