"""C22: description of wasm modules (plain data), conversion to the real `ppci.wasm` components and to the
S-expression of Spec.WasmParse, operand vectors, operator matrix, hand-written patterns, random programs.

A module description is JSON-able:

    {"types": [[params, results], ...], "funcs": [{"type": ti, "locals": [...], "body": [I...]}, ...],
     "table": [min, max|None] | None, "mem": [min, max|None] | None, "globals": [[type, mutable, bits], ...],
     "elems": [[offset, [funcidx...]]], "datas": [[offset, hex]], "start": funcidx | None}

    I := [opcode] | ["T.const", bits] | ["local.get|set|tee", n] | ["global.get|set", n] | ["T.loadX|storeX", offset]
       | ["block"|"loop", [param types], [result types], [I...]] | ["if", [pt], [rt], [I...], [I...]]
       | ["br"|"br_if", depth] | ["br_table", [depths], default] | ["call", funcidx] | ["call_indirect", typeidx]

All values are raw bit patterns (unsigned ints), so NaN payloads / signed zeros are exact.
"""
import struct

INTS = ("i32", "i64")
FLTS = ("f32", "f64")
BITS = {"i32": 32, "i64": 64, "f32": 32, "f64": 64}

IUN = ["clz", "ctz", "popcnt"]
IBIN = ["add", "sub", "mul", "div_s", "div_u", "rem_s", "rem_u", "and", "or", "xor", "shl", "shr_s", "shr_u", "rotl", "rotr"]
IREL = ["eq", "ne", "lt_s", "lt_u", "gt_s", "gt_u", "le_s", "le_u", "ge_s", "ge_u"]
FUN = ["abs", "neg", "sqrt", "ceil", "floor", "trunc", "nearest"]
FBIN = ["add", "sub", "mul", "div", "min", "max", "copysign"]
FREL = ["eq", "ne", "lt", "gt", "le", "ge"]


def numeric_ops():
    """every numeric opcode of the subset with its signature: {opcode: (params, results)}"""
    ops = {}
    for t in INTS:
        for o in IUN:
            ops[f"{t}.{o}"] = ([t], [t])
        for o in IBIN:
            ops[f"{t}.{o}"] = ([t, t], [t])
        for o in IREL:
            ops[f"{t}.{o}"] = ([t, t], ["i32"])
        ops[f"{t}.eqz"] = ([t], ["i32"])
        ops[f"{t}.extend8_s"] = ([t], [t])
        ops[f"{t}.extend16_s"] = ([t], [t])
    ops["i64.extend32_s"] = (["i64"], ["i64"])
    for t in FLTS:
        for o in FUN:
            ops[f"{t}.{o}"] = ([t], [t])
        for o in FBIN:
            ops[f"{t}.{o}"] = ([t, t], [t])
        for o in FREL:
            ops[f"{t}.{o}"] = ([t, t], ["i32"])
    ops["i32.wrap_i64"] = (["i64"], ["i32"])
    ops["i64.extend_i32_s"] = (["i32"], ["i64"])
    ops["i64.extend_i32_u"] = (["i32"], ["i64"])
    for d in INTS:
        for s in FLTS:
            for sx in "su":
                ops[f"{d}.trunc_{s}_{sx}"] = ([s], [d])
                ops[f"{d}.trunc_sat_{s}_{sx}"] = ([s], [d])
    for d in FLTS:
        for s in INTS:
            for sx in "su":
                ops[f"{d}.convert_{s}_{sx}"] = ([s], [d])
    ops["f32.demote_f64"] = (["f64"], ["f32"])
    ops["f64.promote_f32"] = (["f32"], ["f64"])
    ops["i32.reinterpret_f32"] = (["f32"], ["i32"])
    ops["i64.reinterpret_f64"] = (["f64"], ["i64"])
    ops["f32.reinterpret_i32"] = (["i32"], ["f32"])
    ops["f64.reinterpret_i64"] = (["i64"], ["f64"])
    return ops


NUMERIC = numeric_ops()

# ---------------------------------------------------------------------------------------------
# bits <-> host values


def f32_bits(x):
    return struct.unpack("<I", struct.pack("<f", x))[0]


def f64_bits(x):
    return struct.unpack("<Q", struct.pack("<d", x))[0]


def bits_f32(b):
    return struct.unpack("<f", struct.pack("<I", b))[0]


def bits_f64(b):
    return struct.unpack("<d", struct.pack("<Q", b))[0]


def to_host(t, bits):
    """the Python value handed to ppci for the wasm value with these bits"""
    if t == "i32":
        return bits - (1 << 32) if bits >> 31 else bits
    if t == "i64":
        return bits - (1 << 64) if bits >> 63 else bits
    if t == "f32":
        return bits_f32(bits)
    return bits_f64(bits)


def is_nan(t, bits):
    if t == "f32":
        return (bits & 0x7FFFFFFF) > 0x7F800000
    if t == "f64":
        return (bits & 0x7FFFFFFFFFFFFFFF) > 0x7FF0000000000000
    return False


def is_inf(t, bits):
    if t == "f32":
        return (bits & 0x7FFFFFFF) == 0x7F800000
    if t == "f64":
        return (bits & 0x7FFFFFFFFFFFFFFF) == 0x7FF0000000000000
    return False


# ---------------------------------------------------------------------------------------------
# boundary operands


def int_boundary(n):
    m = (1 << n) - 1
    xs = [0, 1, 2, 3, m, m - 1, 1 << (n - 1), (1 << (n - 1)) - 1, (1 << (n - 1)) + 1, 7, 8, 0x7F, 0x80, 0xFF, 0x100,
          0x7FFF, 0x8000, 0xFFFF, 0x10000, n - 1, n, n + 1, 2 * n - 1, 2 * n, 0x55555555 & m, 0xAAAAAAAA & m,
          m - 0x7F, m - 0x80, m - 0x7FFF, m - 0x8000, 0x12345678 & m, (0xFEDCBA9876543210 >> (64 - n)) & m]
    if n == 64:
        xs += [0x7FFFFFFF, 0x80000000, 0xFFFFFFFF, 0x100000000, m - 0x7FFFFFFF, m - 0x80000000, 0x5555555555555555,
               1 << 62, 1 << 53, (1 << 53) + 1, (1 << 24) + 1, (1 << 63) + (1 << 10), (1 << 63) - (1 << 9) - 1]
    else:
        xs += [(1 << 24) + 1, 0x7FFFFF80, 0x7FFFFFBF, 0x7FFFFFC0, 0xFFFFFF80, 0xFFFFFF7F]
    return list(dict.fromkeys(x & m for x in xs))


def f64_boundary():
    vals = [0.0, -0.0, 1.0, -1.0, 0.5, -0.5, 1.5, -1.5, 2.5, -2.5, 3.5, 0.49999999999999994, -0.49999999999999994, 0.1, -0.9, 0.9999999999999999,
            float("inf"), float("-inf"), 5e-324, -5e-324, 2.2250738585072014e-308, 1.7976931348623157e308, -1.7976931348623157e308,
            2147483647.0, 2147483648.0, 2147483647.5, 2147483647.9999998, -2147483648.0, -2147483649.0, -2147483648.5, -2147483648.9999995,
            4294967295.0, 4294967296.0, 4294967295.5, 4294967295.9999995, -0.9999999999999999, -1.0000000000000002,
            9223372036854775807.0, 9223372036854774784.0, -9223372036854775808.0, -9223372036854777856.0,
            18446744073709551615.0, 18446744073709549568.0, 4503599627370496.0, 4503599627370495.5, 4503599627370497.0, 9007199254740993.0,
            16777216.0, 16777217.0, 1e300, 1e-300, 3.4028234663852886e38, 3.4028235677973366e38, 3.402823669209385e38, 1.401298464324817e-45, 7e-46,
            123456.789, -7.25, 6.5, 1e10, -1e19, 1e19, 2e19]
    out = [f64_bits(v) for v in vals]
    out += [0x7FF8000000000000, 0xFFF8000000000000, 0x7FF0000000000001, 0x7FF8000000001234]     # NaNs (quiet, negative, signalling, payload)
    return list(dict.fromkeys(out))


def f32_boundary():
    vals = [0.0, -0.0, 1.0, -1.0, 0.5, -0.5, 1.5, -1.5, 2.5, -2.5, 3.5, 0.1, -0.9, float("inf"), float("-inf"),
            2147483648.0, 2147483520.0, -2147483648.0, -2147483904.0, 4294967296.0, 4294967040.0, 9223372036854775808.0,
            9223371487098961920.0, -9223372036854775808.0, -9223373136366403584.0, 18446744073709551616.0, 18446742974197923840.0,
            16777216.0, 16777215.0, 8388608.0, 8388607.5, 3.4028234663852886e38, -3.4028234663852886e38, 1.401298464324817e-45,
            -1.401298464324817e-45, 1.1754943508222875e-38, 0.49999997, -0.49999997, 0.99999994, -0.99999994, 123456.79, -7.25, 6.5, 1e10, 1e19]
    out = [f32_bits(v) for v in vals]
    out += [0x7FC00000, 0xFFC00000, 0x7F800001, 0x7FC01234]
    return list(dict.fromkeys(out))


def boundary(t):
    return {"i32": lambda: int_boundary(32), "i64": lambda: int_boundary(64), "f32": f32_boundary, "f64": f64_boundary}[t]()


def rand_value(rng, t):
    """boundary-biased random value (bits)"""
    r = rng.random()
    if r < 0.45:
        return rng.choice(boundary(t))
    n = BITS[t]
    if t in INTS:
        if r < 0.7:
            return rng.getrandbits(n)
        k = rng.randrange(1, n)
        v = rng.getrandbits(k)
        return (v if rng.random() < 0.5 else -v) & ((1 << n) - 1)
    if r < 0.6:
        return rng.getrandbits(n)            # arbitrary pattern (huge/tiny exponents, sometimes NaN)
    x = rng.choice([rng.uniform(-4, 4), rng.uniform(-1e5, 1e5), float(rng.randrange(-1000, 1000)), rng.randrange(-2000, 2000) / 2,
                    rng.uniform(-1, 1) * 2.0 ** rng.randrange(20, 70)])
    return f32_bits(x) if t == "f32" else f64_bits(x)


# ---------------------------------------------------------------------------------------------
# description -> S-expression (Spec.WasmParse)


def sx_instr(i):
    op = i[0]
    if op in ("block", "loop"):
        return f"({op} {len(i[1])} {len(i[2])} {sx_body(i[3])})" if i[3] else f"({op} {len(i[1])} {len(i[2])})"
    if op == "if":
        return f"(if {len(i[1])} {len(i[2])} ({sx_body(i[3])}) ({sx_body(i[4])}))"
    if op == "br_table":
        return "(br_table " + " ".join(str(x) for x in list(i[1]) + [i[2]]) + ")"
    if len(i) == 1:
        return op
    return f"({op} {i[1]})"


def sx_body(body):
    return " ".join(sx_instr(i) for i in body)


def to_sexp(d):
    types = " ".join(f"(ft ({' '.join(p)}) ({' '.join(r)}))" for p, r in d["types"])
    funcs = " ".join(f"(func {f['type']} ({' '.join(f['locals'])}) {sx_body(f['body'])})" for f in d["funcs"])

    def lim(x, tag, notag):
        return f"({notag})" if x is None else f"({tag} {x[0]} {'-' if x[1] is None else x[1]})"
    globs = " ".join(f"({t} {'mut' if m else 'const'} {b})" for t, m, b in d.get("globals", []))
    elems = " ".join(f"({o} {' '.join(str(f) for f in fs)})" for o, fs in d.get("elems", []))
    datas = " ".join(f"({o} {h or '-'})" for o, h in d.get("datas", []))
    st = d.get("start")
    return (f"(module (types {types}) (funcs {funcs}) {lim(d.get('table'), 'table', 'notable')} {lim(d.get('mem'), 'mem', 'nomem')} "
            f"(globals {globs}) (elems {elems}) (datas {datas}) (start {'-' if st is None else st}))")


def request(d, calls, fuel):
    cs = " ".join("(" + " ".join(str(x) for x in [fi] + list(args)) + ")" for fi, args in calls)
    return f"(run {fuel} {to_sexp(d)} (calls {cs}))"


# ---------------------------------------------------------------------------------------------
# description -> real ppci.wasm components


def type_index(d, params, results):
    key = [list(params), list(results)]
    for i, t in enumerate(d["types"]):
        if [list(t[0]), list(t[1])] == key:
            return i
    d["types"].append(key)
    return len(d["types"]) - 1


def prepare(d):
    """make sure every multi-value block type has an entry in the type section (before serialising)"""
    def walk(body):
        for i in body:
            if i[0] in ("block", "loop"):
                if i[1] or len(i[2]) > 1:
                    type_index(d, i[1], i[2])
                walk(i[3])
            elif i[0] == "if":
                if i[1] or len(i[2]) > 1:
                    type_index(d, i[1], i[2])
                walk(i[3])
                walk(i[4])
    for f in d["funcs"]:
        walk(f["body"])
    return d


def to_ppci(d):
    from ppci.wasm import components as C

    def blocktype(params, results):
        if not params and not results:
            return "emptyblock"
        if not params and len(results) == 1:
            return results[0]
        return C.Ref("type", index=type_index(d, params, results))

    def flat(body, out):
        for i in body:
            op = i[0]
            if op in ("block", "loop"):
                out.append(C.BlockInstruction(op, blocktype(i[1], i[2])))
                flat(i[3], out)
                out.append(C.Instruction("end"))
            elif op == "if":
                out.append(C.BlockInstruction("if", blocktype(i[1], i[2])))
                flat(i[3], out)
                if i[4] or list(i[1]) != list(i[2]):
                    out.append(C.Instruction("else"))
                    flat(i[4], out)
                out.append(C.Instruction("end"))
            elif op in ("br", "br_if"):
                out.append(C.Instruction(op, C.Ref("label", index=i[1])))
            elif op == "br_table":
                out.append(C.Instruction(op, [C.Ref("label", index=x) for x in list(i[1]) + [i[2]]]))
            elif op == "call":
                out.append(C.Instruction(op, C.Ref("func", index=i[1])))
            elif op == "call_indirect":
                out.append(C.Instruction(op, C.Ref("type", index=i[1]), C.Ref("table", index=0)))
            elif op.startswith("local."):
                out.append(C.Instruction(op, C.Ref("local", index=i[1])))
            elif op.startswith("global."):
                out.append(C.Instruction(op, C.Ref("global", index=i[1])))
            elif op.endswith(".const"):
                out.append(C.Instruction(op, to_host(op[:3], i[1])))
            elif ".load" in op or ".store" in op:
                t, name = op.split(".")
                width = BITS[t] // 8
                for w in ("8", "16", "32"):
                    if name.startswith("load" + w) or name.startswith("store" + w):
                        width = int(w) // 8
                out.append(C.Instruction(op, width.bit_length() - 1, i[1]))
            elif op in ("memory.size", "memory.grow"):
                out.append(C.Instruction(op, 0))
            elif op == "select":
                out.append(C.Instruction(op, []))
            else:
                out.append(C.Instruction(op))
        return out

    funcs = []
    for k, f in enumerate(d["funcs"]):
        funcs.append(C.Func(k, C.Ref("type", index=f["type"]), [(None, t) for t in f["locals"]], flat(f["body"], [])))
    defs = [C.Type(k, [(j, t) for j, t in enumerate(p)], list(r)) for k, (p, r) in enumerate(d["types"])]
    if d.get("table") is not None:
        defs.append(C.Table(0, "funcref", d["table"][0], d["table"][1]))
    if d.get("mem") is not None:
        defs.append(C.Memory(0, d["mem"][0], d["mem"][1]))
    for k, (t, m, b) in enumerate(d.get("globals", [])):
        defs.append(C.Global(k, t, m, [C.Instruction(f"{t}.const", to_host(t, b))]))
    for k in range(len(d["funcs"])):
        defs.append(C.Export(f"f{k}", "func", C.Ref("func", index=k)))
    if d.get("mem") is not None:
        defs.append(C.Export("mem", "memory", C.Ref("memory", index=0)))
    for k in range(len(d.get("globals", []))):
        defs.append(C.Export(f"g{k}", "global", C.Ref("global", index=k)))
    if d.get("start") is not None:
        defs.append(C.Start(C.Ref("func", index=d["start"])))
    for k, (off, fs) in enumerate(d.get("elems", [])):
        defs.append(C.Elem(k, (C.Ref("table", index=0), [C.Instruction("i32.const", off)]), [C.Ref("func", index=x) for x in fs]))
    defs.extend(funcs)
    for k, (off, h) in enumerate(d.get("datas", [])):
        defs.append(C.Data(k, (C.Ref("memory", index=0), [C.Instruction("i32.const", off)]), bytes.fromhex(h)))
    m = C.Module()
    m.definitions = defs
    return m


def to_wat(d):
    """text form (for replay files / humans); best effort"""
    try:
        return to_ppci(d).to_string()
    except Exception as e:  # noqa
        return f"<to_string failed: {type(e).__name__}: {e}>"


# ---------------------------------------------------------------------------------------------
# layer A: operator matrix


def new_module(mem=None, table=None):
    return {"types": [], "funcs": [], "table": table, "mem": mem, "globals": [], "elems": [], "datas": [], "start": None}


def add_func(d, params, results, locals_, body):
    d["funcs"].append({"type": type_index(d, params, results), "locals": list(locals_), "body": body})
    return len(d["funcs"]) - 1


def operand_vectors(rng, params, nrand, full):
    """fixed boundary vectors (independent of the seed) + random ones"""
    if len(params) == 1:
        vs = [(b,) for b in boundary(params[0])]
    else:
        a, b = boundary(params[0]), boundary(params[1])
        core_a = a[:9] if not full else a
        vs = [(x, y) for x in core_a for y in (b[:9] if not full else b[:14])]
        # every boundary value once on each side, against a rotating partner
        vs += [(x, b[(3 * k) % len(b)]) for k, x in enumerate(a)] + [(a[(5 * k + 1) % len(a)], y) for k, y in enumerate(b)]
        vs += special_pairs(params[0])
    vs += [tuple(rand_value(rng, t) for t in params) for _ in range(nrand)]
    return list(dict.fromkeys(vs))


def special_pairs(t):
    if t in INTS:
        n = BITS[t]
        m = (1 << n) - 1
        mn = 1 << (n - 1)
        return [(mn, m), (mn, 1), (mn, 0), (m, m), (0, 0), (mn, mn), (7, 0), (m - 6, 2), (m - 6, m - 1), (7, m - 1), (1, n), (1, n + 1), (m, n - 1),
                (mn, n), (mn, 2 * n + 1), (1, m), (mn + 1, m), (0x80000000 & m, 33)]
    bits = f32_bits if t == "f32" else f64_bits
    nan = 0x7FC00000 if t == "f32" else 0x7FF8000000000000
    vals = [0.0, -0.0, 1.0, -1.0, float("inf"), float("-inf")]
    ps = [(bits(x), bits(y)) for x in vals for y in vals]
    ps += [(nan, bits(x)) for x in vals] + [(bits(x), nan) for x in vals] + [(nan, nan)]
    ps += [(bits(0.1), bits(0.2)), (bits(1.0), bits(3.0)), (bits(1e30), bits(1e30)), (bits(16777216.0), bits(1.0)), (bits(1.0), bits(2.0 ** -30)),
           (bits(3.0), bits(7.0)), (bits(2.0), bits(0.5)), (bits(-2.0), bits(3.0))]
    return ps


def ops_task(rng, thorough):
    """one stateless module with a function per numeric opcode"""
    d = new_module()
    calls = []
    nrand = 60 if thorough else 6
    for op, (params, results) in NUMERIC.items():
        body = [["local.get", k] for k in range(len(params))] + [[op]]
        fi = add_func(d, params, results, [], body)
        vecs = operand_vectors(rng, params, nrand, thorough)
        if len(params) == 2 and results == ["i32"]:
            vecs = list(dict.fromkeys(vecs + cmp_vectors(params[0])))   # the comparison patterns use these: attribution
        for vec in vecs:
            calls.append((fi, vec, op))
    return {"id": "ops", "kind": "ops", "desc": d, "calls": calls, "stateless": True}


# ---------------------------------------------------------------------------------------------
# layer B: hand-written patterns (fixed; independent of the seed)


def L(n):
    return ["local.get", n]


def C(t, v):
    """constant from a host value (int for iN, float for fN) or from raw bits when given as ("bits", b)"""
    if isinstance(v, tuple):
        return [f"{t}.const", v[1]]
    if t in INTS:
        return [f"{t}.const", v & ((1 << BITS[t]) - 1)]
    return [f"{t}.const", f32_bits(v) if t == "f32" else f64_bits(v)]


def I(v):
    return C("i32", v)


def task(id_, desc, calls, stateless=False, kind="pattern", **kw):
    return dict({"id": id_, "kind": kind, "desc": desc, "calls": calls, "stateless": stateless}, **kw)


def cmp_vectors(t):
    b = boundary(t)
    vs = special_pairs(t) + [(b[(7 * k) % len(b)], b[(11 * k + 3) % len(b)]) for k in range(10)]
    return list(dict.fromkeys(vs))


def cmp_tasks(thorough=True):
    """comparison followed by i32.eqz / if / br_if / select, and comparison consumed directly"""
    tasks = []
    for t in INTS + FLTS:
        d = new_module()
        calls = []
        vecs = cmp_vectors(t)
        if not thorough:       # quick tier: every pair with a NaN, a few others
            vecs = [v for v in vecs if is_nan(t, v[0]) or is_nan(t, v[1])] + vecs[:7] + vecs[-3:]
            vecs = list(dict.fromkeys(vecs))
        rels = (IREL if t in INTS else FREL)
        for r in rels:
            op = f"{t}.{r}"
            cmp = [L(0), L(1), [op]]
            variants = [
                (f"{op};i32.eqz", cmp + [["i32.eqz"]]),
                (f"{op};i32.eqz;i32.eqz", cmp + [["i32.eqz"], ["i32.eqz"]]),
                (f"{op};i32.eqz;if", cmp + [["i32.eqz"], ["if", [], ["i32"], [I(10)], [I(20)]]]),
                (f"{op};i32.eqz;br_if", [["block", [], ["i32"], [I(10)] + cmp + [["i32.eqz"], ["br_if", 0], ["drop"], I(20)]]]),
                (f"{op};i32.eqz;select", [I(7), I(9)] + cmp + [["i32.eqz"], ["select"]]),
                (f"{op};if", cmp + [["if", [], ["i32"], [I(10)], [I(20)]]]),
                (f"{op};br_if", [["block", [], ["i32"], [I(10)] + cmp + [["br_if", 0], ["drop"], I(20)]]]),
                (f"{op};select", [I(7), I(9)] + cmp + [["select"]]),
                (f"{op};local.set", cmp + [["local.set", 2], L(2), L(2), ["i32.add"]]),
            ]
            for label, body in variants:
                fi = add_func(d, [t, t], ["i32"], ["i32"], body)
                for v in vecs:
                    calls.append((fi, v, label))
        if t in INTS:
            for label, body in [(f"{t}.eqz;i32.eqz", [L(0), [f"{t}.eqz"], ["i32.eqz"]]),
                                (f"{t}.eqz;if", [L(0), [f"{t}.eqz"], ["if", [], ["i32"], [I(10)], [I(20)]]]),
                                (f"{t}.eqz;i32.eqz;if", [L(0), [f"{t}.eqz"], ["i32.eqz"], ["if", [], ["i32"], [I(10)], [I(20)]]])]:
                fi = add_func(d, [t], ["i32"], [], body)
                for v in boundary(t)[:12]:
                    calls.append((fi, (v,), label))
        tasks.append(task(f"cmp-{t}", d, calls, stateless=True))
    return tasks


def const_task():
    d = new_module()
    calls = []
    for t in INTS + FLTS:
        for b in boundary(t):
            fi = add_func(d, [], [t], [], [[f"{t}.const", b]])
            cls = "nan" if is_nan(t, b) else "inf" if is_inf(t, b) else "finite"
            calls.append((fi, (), f"{t}.const" + ("" if t in INTS else f"[{cls}]")))
    return task("const", d, calls, stateless=True)


def locals_task():
    d = new_module()
    calls = []
    for t in INTS + FLTS:
        z = add_func(d, [], [t], [t], [L(0)])
        calls.append((z, (), f"local.get[zero-init {t}]"))
        tee = add_func(d, [t], [t], [t], [L(0), ["local.tee", 1], ["drop"], L(1)])
        st = add_func(d, [t, t], [t], [t], [L(1), ["local.set", 2], L(0), ["local.set", 1], L(2), ["local.set", 0], L(0)])
        sel = add_func(d, [t, t, "i32"], [t], [], [L(0), L(1), L(2), ["select"]])
        drp = add_func(d, [t, t], [t], [], [L(0), L(1), ["drop"]])
        for k, b in enumerate(boundary(t)):
            calls.append((tee, (b,), f"local.tee[{t}]"))
            b2 = boundary(t)[(k * 5 + 1) % len(boundary(t))]
            calls.append((st, (b, b2), f"local.set[{t}]"))
            calls.append((sel, (b, b2, k % 3), f"select[{t}]"))
            calls.append((drp, (b, b2), f"drop[{t}]"))
    return task("locals", d, calls, stateless=True)


def globals_task():
    d = new_module()
    calls = []
    inits = {"i32": 0x80000000, "i64": 0xFFFFFFFF00000001, "f32": f32_bits(-1.5), "f64": f64_bits(2.5e-300)}
    for k, t in enumerate(INTS + FLTS):
        d["globals"].append([t, True, inits[t]])
    for k, t in enumerate(INTS + FLTS):
        d["globals"].append([t, False, boundary(t)[5]])
    for k, t in enumerate(INTS + FLTS):
        g = add_func(d, [], [t], [], [["global.get", k]])
        gc = add_func(d, [], [t], [], [["global.get", k + 4]])
        s = add_func(d, [t], [], [], [L(0), ["global.set", k]])
        sw = add_func(d, [t], [t], [], [["global.get", k], L(0), ["global.set", k]])
        calls.append((g, (), f"global.get[{t} initial]"))
        calls.append((gc, (), f"global.get[{t} const]"))
        for b in boundary(t)[:10] + boundary(t)[-4:]:
            calls.append((s, (b,), f"global.set[{t}]"))
            calls.append((g, (), f"global.get[{t}]"))
            calls.append((sw, (b ^ 1,), f"global.set[{t}]"))
    return task("globals", d, calls, name="globals")


LOADS = {"i32": ["load", "load8_s", "load8_u", "load16_s", "load16_u"],
         "i64": ["load", "load8_s", "load8_u", "load16_s", "load16_u", "load32_s", "load32_u"], "f32": ["load"], "f64": ["load"]}
STORES = {"i32": ["store", "store8", "store16"], "i64": ["store", "store8", "store16", "store32"], "f32": ["store"], "f64": ["store"]}


def acc_width(t, name):
    for w in ("8", "16", "32"):
        if name.startswith("load" + w) or name.startswith("store" + w):
            return int(w) // 8
    return BITS[t] // 8


def memory_tasks():
    """in-bounds loads/stores of every width (stateful, final memory compared) and out-of-bounds accesses (must trap)"""
    d = new_module(mem=[1, 2])
    d["datas"] = [[0, "0180ff7f00807fff8000000000000080"], [16, "f0e1d2c3b4a59687"], [65528, "1122334455667788"]]
    calls = []
    ld, stf = {}, {}
    for t in INTS + FLTS:
        for name in LOADS[t]:
            for off in (0, 3, 65528):
                ld[t, name, off] = add_func(d, ["i32"], [t], [], [L(0), [f"{t}.{name}", off]])
        for name in STORES[t]:
            for off in (0, 5):
                stf[t, name, off] = add_func(d, ["i32", t], [], [], [L(0), L(1), [f"{t}.{name}", off]])
    # loads of the data segments, aligned and unaligned
    for (t, name, off), fi in ld.items():
        w = acc_width(t, name)
        addrs = [0, 1, 2, 3, 5, 7, 8, 9, 13, 16, 17, 20] if off < 65528 else sorted({0, min(1, 8 - w), 8 - w})
        for a in addrs:
            calls.append((fi, (a,), f"{t}.{name}"))
    # stores then loads
    vals = {t: boundary(t) for t in INTS + FLTS}
    k = 0
    for (t, name, off), fi in stf.items():
        w = acc_width(t, name)
        for a in (32, 41, 100 + 3 * k, 65536 - off - w, 1000 + k):
            v = vals[t][(k * 7 + 3) % len(vals[t])]
            k += 1
            calls.append((fi, (a, v), f"{t}.{name}"))
            for lname in LOADS[t][:3]:
                calls.append((ld[t, lname, 0], ((a + off) & ~7 if lname == "load" and a + off + 8 > 65536 else a + off,), f"{t}.{lname}"))
    tasks = [task("mem", d, calls, name="memory")]
    # out of bounds: every access must trap and leave memory alone
    d2 = new_module(mem=[1, 2])
    d2["datas"] = [[65528, "1122334455667788"]]
    c_ld, c_st = [], []
    for t in INTS + FLTS:
        for name in LOADS[t]:
            w = acc_width(t, name)
            f0 = add_func(d2, ["i32"], [t], [], [L(0), [f"{t}.{name}", 0]])
            f1 = add_func(d2, ["i32"], [t], [], [L(0), [f"{t}.{name}", 65535]])
            f2 = add_func(d2, ["i32"], [t], [], [L(0), [f"{t}.{name}", 0xFFFFFFFF]])
            for a in ([65536 - w + 1] if w > 1 else []) + [65536, 65537, 131072, 0x7FFFFFFF, 0x80000000, 0xFFFFFFFF, 0xFFFFFFFF - w + 1, 0xFFFF0000]:
                c_ld.append((f0, (a,), ("load" if "load" in name else "store") + "[out of bounds]"))
            for a in (1, 2, 65535, 0xFFFFFFFF, 0xFFFF0001):
                c_ld.append((f1, (a,), ("load" if "load" in name else "store") + "[out of bounds]"))
            for a in (1, 2, 65536, 0xFFFFFFFF):
                c_ld.append((f2, (a,), ("load" if "load" in name else "store") + "[out of bounds]"))
            c_ld.append((f0, (65536 - w,), f"{t}.{name}"))
    tasks.append(task("mem-oob-load", d2, c_ld, stateless=True, nofinal=True, native_stride=9))
    d3 = new_module(mem=[1, 2])
    for t in INTS + FLTS:
        for name in STORES[t]:
            w = acc_width(t, name)
            f0 = add_func(d3, ["i32", t], [], [], [L(0), L(1), [f"{t}.{name}", 0]])
            f1 = add_func(d3, ["i32", t], [], [], [L(0), L(1), [f"{t}.{name}", 65535]])
            v = boundary(t)[9]
            for a in ([65536 - w + 1] if w > 1 else []) + [65536, 0x80000000, 0xFFFFFFFF, 0xFFFFFFFF - w + 1]:
                c_st.append((f0, (a, v), ("load" if "load" in name else "store") + "[out of bounds]"))
            for a in (1, 0xFFFFFFFF):
                c_st.append((f1, (a, v), ("load" if "load" in name else "store") + "[out of bounds]"))
    tasks.append(task("mem-oob-store", d3, c_st, stateless=True, nofinal=True, native_stride=5))
    return tasks


def memgrow_tasks():
    tasks = []
    for mx in (3, None):
        d = new_module(mem=[1, mx])
        size = add_func(d, [], ["i32"], [], [["memory.size"]])
        grow = add_func(d, ["i32"], ["i32"], [], [L(0), ["memory.grow"]])
        st = add_func(d, ["i32", "i32"], [], [], [L(0), L(1), ["i32.store", 0]])
        ld = add_func(d, ["i32"], ["i32"], [], [L(0), ["i32.load", 0]])
        calls = [(size, (), "memory.size"), (ld, (65536,), "load[out of bounds]"), (grow, (0,), "memory.grow"), (grow, (1,), "memory.grow"),
                 (size, (), "memory.size"), (st, (65536 + 8, 0xDEADBEEF), "i32.store"), (ld, (65536 + 8,), "i32.load"),
                 (grow, (5,) if mx else (2,), "memory.grow"), (grow, (1,), "memory.grow"), (size, (), "memory.size"),
                 (grow, (1,), "memory.grow"), (grow, (0xFFFFFFFF,), "memory.grow"), (grow, (0x10000,), "memory.grow"), (size, (), "memory.size"),
                 (st, (3 * 65536 - 4, 0x01020304), "i32.store"), (ld, (3 * 65536 - 4,), "i32.load"), (ld, (3 * 65536 - 3,) if mx else (6 * 65536,), "load[out of bounds]")]
        tasks.append(task(f"memgrow-{mx}", d, calls, name="memory.grow"))
    return tasks


def control_tasks():
    d = new_module()
    calls = []
    # br_table out of three nested blocks; default is the function level
    bt = add_func(d, ["i32"], ["i32"], [],
                  [["block", [], [], [["block", [], [], [["block", [], [], [["block", [], [], [L(0), ["br_table", [0, 1, 2], 3]]], I(100), ["return"]]], I(101), ["return"]]],
                                      I(102), ["return"]]], I(103)])
    # br_table default in the middle, repeated labels, value carried
    bt2 = add_func(d, ["i32"], ["i32"], [],
                   [["block", [], ["i32"], [["block", [], ["i32"], [I(7), L(0), ["br_table", [1, 0, 1, 1], 0]]], I(1000), ["i32.add"]]]])
    # br_table with a single (default) label
    bt3 = add_func(d, ["i32"], ["i32"], [], [["block", [], [], [L(0), ["br_table", [], 0]]], I(55)])
    # br_table inside a loop: label 0 = continue
    bt4 = add_func(d, ["i32"], ["i32"], ["i32"],
                   [["block", [], [], [["loop", [], [], [L(1), I(1), ["i32.add"], ["local.set", 1], L(0), L(1), ["i32.sub"], ["br_table", [1, 0, 0, 0], 1]]]]], L(1)])
    for v in [0, 1, 2, 3, 4, 5, 100, 0x7FFFFFFF, 0x80000000, 0xFFFFFFFF, 0xFFFFFFFE]:
        calls += [(bt, (v,), "br_table"), (bt2, (v,), "br_table[value]"), (bt3, (v,), "br_table[default only]")]
    for v in [0, 1, 2, 3, 4, 7]:
        calls.append((bt4, (v,), "br_table[loop]"))
    # loops
    sumn = add_func(d, ["i32"], ["i32"], ["i32"],
                    [["block", [], [], [["loop", [], [], [L(0), ["i32.eqz"], ["br_if", 1], L(1), L(0), ["i32.add"], ["local.set", 1],
                                                         L(0), I(1), ["i32.sub"], ["local.set", 0], ["br", 0]]]]], L(1)])
    nest = add_func(d, ["i32", "i32"], ["i64"], ["i32", "i64"],
                    [["loop", [], [], [L(1), ["local.set", 2],
                                       ["loop", [], [], [L(3), C("i64", 3), ["i64.add"], ["local.set", 3], L(2), I(1), ["i32.sub"], ["local.tee", 2], I(0), ["i32.gt_s"], ["br_if", 0]]],
                                       L(0), I(1), ["i32.sub"], ["local.tee", 0], ["br_if", 0]]], L(3)])
    for v in [0, 1, 2, 10, 100]:
        calls.append((sumn, (v,), "loop[sum]"))
    for a, b in [(1, 1), (2, 3), (5, 4), (7, 1)]:
        calls.append((nest, (a, b), "loop[nested]"))
    # loop result via fallthrough, br to loop start carrying nothing
    # block results, unwinding of extra operands
    unw = add_func(d, ["i32"], ["i32"], [],
                   [["block", [], ["i32"], [I(1), I(2), I(3), L(0), ["br_if", 0], ["drop"], ["drop"], ["drop"], I(4), I(5), ["br", 0]]]])
    unw2 = add_func(d, ["i32"], ["i32"], [],
                    [I(11), ["block", [], ["i32"], [I(1), ["block", [], [], [I(2), I(3), L(0), ["br_if", 1], ["drop"], ["drop"]]], I(40), ["i32.add"]]], ["i32.add"]])
    ret = add_func(d, ["i32"], ["i32"], [], [I(1), I(2), ["block", [], [], [L(0), ["if", [], [], [I(9), ["return"]], []]]], ["i32.add"]])
    ifr = add_func(d, ["i32", "f64", "f64"], ["f64"], [], [L(0), ["if", [], ["f64"], [L(1)], [L(2)]]])
    ifn = add_func(d, ["i32"], ["i32"], ["i32"], [L(0), ["if", [], [], [I(5), ["local.set", 1]], []], L(1)])
    ifnest = add_func(d, ["i32", "i32"], ["i32"], [],
                      [L(0), ["if", [], ["i32"], [L(1), ["if", [], ["i32"], [I(11)], [I(10)]]], [L(1), ["if", [], ["i32"], [I(1)], [I(0)]]]]])
    dead = add_func(d, ["i32"], ["i32"], [],
                    [["block", [], ["i32"], [L(0), ["br", 0], ["i32.add"], ["drop"], I(5)]], I(1), ["i32.add"]])
    dead2 = add_func(d, ["i32"], ["i32"], [], [L(0), ["return"], ["unreachable"]])
    unr = add_func(d, ["i32"], ["i32"], [], [L(0), ["if", [], [], [["unreachable"]], []], I(3)])
    unr2 = add_func(d, ["i32"], [], [], [L(0), ["if", [], [], [["unreachable"]], []]])
    brv = add_func(d, ["i64"], ["i64"], [], [["block", [], ["i64"], [L(0), ["block", [], [], [L(0), ["i64.eqz"], ["br_if", 0], C("i64", 9), ["br", 1]]], C("i64", 1), ["i64.add"]]]])
    nop = add_func(d, ["i32"], ["i32"], [], [["nop"], L(0), ["nop"], ["nop"]])
    for v in [0, 1, 2, 0xFFFFFFFF]:
        calls += [(unw, (v,), "br_if[unwind]"), (unw2, (v,), "br_if[unwind nested]"), (ret, (v,), "return[unwind]"),
                  (ifn, (v,), "if[no else]"), (dead, (v,), "br[dead code]"), (dead2, (v,), "return[dead code]"),
                  (unr, (v,), "unreachable"), (unr2, (v,), "unreachable[procedure]"), (nop, (v,), "nop")]
        calls.append((ifr, (v, f64_bits(1.5), f64_bits(-0.0)), "if[result f64]"))
        calls.append((brv, (v,), "br[value i64]"))
        for w in [0, 1]:
            calls.append((ifnest, (v, w), "if[nested]"))
    tasks = [task("control", d, calls, stateless=True)]
    # multi-value: block / loop / if with parameters (spec 2.0)
    d = new_module()
    calls = []
    bp = add_func(d, ["i32", "i32"], ["i32"], [], [L(0), L(1), ["block", ["i32", "i32"], ["i32"], [["i32.sub"]]]])
    lp = add_func(d, ["i32"], ["i32"], [], [I(0), L(0), ["loop", ["i32", "i32"], ["i32"],
                                                           [["local.set", 0], L(0), ["i32.add"], L(0), I(1), ["i32.sub"], ["local.tee", 0], L(0), ["br_if", 0], ["drop"]]]])
    ip = add_func(d, ["i32", "i32"], ["i32"], [], [L(0), L(1), ["if", ["i32"], ["i32"], [I(1), ["i32.add"]], [I(2), ["i32.mul"]]]])
    for a, b in [(5, 3), (0, 0), (7, 1), (3, 0)]:
        calls += [(bp, (a, b), "block[params]"), (ip, (a, b), "if[params]")]
    for v in [1, 2, 5]:
        calls.append((lp, (v,), "loop[params]"))
    tasks.append(task("multivalue", d, calls, stateless=True))
    return tasks


def call_tasks():
    d = new_module(table=[5, 5])
    calls = []
    mix = add_func(d, ["i32", "i64", "f32", "f64"], ["f64"], [],
                   [L(0), ["f64.convert_i32_s"], L(1), ["f64.convert_i64_s"], ["f64.add"], L(2), ["f64.promote_f32"], ["f64.add"], L(3), ["f64.sub"]])
    callmix = add_func(d, ["i32", "f64"], ["f64"], [], [L(0), C("i64", -5), C("f32", 0.5), L(1), ["call", mix], L(1), ["f64.mul"]])
    fact = add_func(d, ["i64"], ["i64"], [], None)
    d["funcs"][fact]["body"] = [L(0), ["i64.eqz"], ["if", [], ["i64"], [C("i64", 1)], [L(0), L(0), C("i64", 1), ["i64.sub"], ["call", fact], ["i64.mul"]]]]
    fib = add_func(d, ["i32"], ["i32"], [], None)
    d["funcs"][fib]["body"] = [L(0), I(2), ["i32.lt_u"], ["if", [], ["i32"], [L(0)], [L(0), I(1), ["i32.sub"], ["call", fib], L(0), I(2), ["i32.sub"], ["call", fib], ["i32.add"]]]]
    even = add_func(d, ["i32"], ["i32"], [], None)
    odd = add_func(d, ["i32"], ["i32"], [], None)
    d["funcs"][even]["body"] = [L(0), ["i32.eqz"], ["if", [], ["i32"], [I(1)], [L(0), I(1), ["i32.sub"], ["call", odd]]]]
    d["funcs"][odd]["body"] = [L(0), ["i32.eqz"], ["if", [], ["i32"], [I(0)], [L(0), I(1), ["i32.sub"], ["call", even]]]]
    d["globals"].append(["i32", True, 0])
    bump = add_func(d, [], [], [], [["global.get", 0], I(1), ["i32.add"], ["global.set", 0]])
    callp = add_func(d, ["i32"], ["i32"], [], [["call", bump], ["call", bump], L(0), ["if", [], [], [["call", bump]], []], ["global.get", 0]])
    inc = add_func(d, ["i32"], ["i32"], [], [L(0), I(1), ["i32.add"]])
    dbl = add_func(d, ["i32"], ["i32"], [], [L(0), I(2), ["i32.mul"]])
    neg64 = add_func(d, ["i64"], ["i64"], [], [C("i64", 0), L(0), ["i64.sub"]])
    t_i32 = type_index(d, ["i32"], ["i32"])
    ind = add_func(d, ["i32", "i32"], ["i32"], [], [L(1), L(0), ["call_indirect", t_i32]])
    d["elems"] = [[0, [inc, dbl]], [3, [neg64, fib]]]
    for a in [(0, 0, 0, 0), (0xFFFFFFFF, 1 << 63, f32_bits(1.5), f64_bits(0.25)), (7, 0xFFFFFFFFFFFFFFFF, f32_bits(-2.0), f64_bits(1e10))]:
        calls.append((mix, a, "call[mixed params]"))
    calls.append((callmix, (3, f64_bits(2.0)), "call[mixed params]"))
    for v in [0, 1, 5, 20, 21, 25]:
        calls.append((fact, (v,), "call[recursion]"))
    for v in [0, 1, 2, 10, 15]:
        calls.append((fib, (v,), "call[recursion]"))
    for v in [0, 1, 10, 11]:
        calls.append((even, (v,), "call[mutual recursion]"))
    for v in [0, 1, 0]:
        calls.append((callp, (v,), "call[procedure]"))
    for idx, v in [(0, 41), (1, 21), (4, 10), (0, 0xFFFFFFFF)]:
        calls.append((ind, (idx, v), "call_indirect"))
    t1 = task("calls", d, calls, name="calls")
    # traps of call_indirect, one call per job on the native target (a wild jump can take the process down)
    oob = [(ind, (5, 1), "call_indirect[index out of bounds]"), (ind, (0xFFFFFFFF, 1), "call_indirect[index out of bounds]"),
           (ind, (2, 1), "call_indirect[null entry]"), (ind, (3, 1), "call_indirect[signature mismatch]")]
    import copy
    t2 = task("calls-trap", copy.deepcopy(d), oob, stateless=True, nofinal=True)
    return [t1, t2]


def start_task():
    d = new_module(mem=[1, 1], table=[2, None])
    d["globals"] = [["i32", True, 5], ["i64", False, 0xFFFFFFFFFFFFFFFF]]
    d["datas"] = [[8, "0102030405060708"], [10, "ffee"], [65534, "abcd"]]
    st = add_func(d, [], [], [], [["global.get", 0], I(10), ["i32.mul"], ["global.set", 0], I(0), ["global.get", 1], ["i64.store", 0], I(12), I(0x7A), ["i32.store8", 0]])
    rd = add_func(d, ["i32"], ["i64"], [], [L(0), ["i64.load", 0]])
    g = add_func(d, [], ["i32"], [], [["global.get", 0]])
    d["start"] = st
    d["elems"] = [[1, [g]]]
    ci = add_func(d, ["i32"], ["i32"], [], [L(0), ["call_indirect", type_index(d, [], ["i32"])]])
    calls = [(g, (), "start[global]"), (rd, (0,), "start[memory]"), (rd, (8,), "data segment"), (rd, (65528,), "data segment"), (ci, (1,), "elem segment")]
    return task("start", d, calls, name="start")


def trapping_start_task():
    d = new_module(mem=[1, 1])
    st = add_func(d, [], [], [], [I(0), I(0), ["i32.div_u"], ["drop"]])
    d["start"] = st
    return task("start-trap", d, [], name="start[trap]", nofinal=True)


def host_tasks():
    """host-level situations: a second, unrelated instance in the same process; the same Module object instantiated twice"""
    d = new_module(mem=[1, 2])
    size = add_func(d, [], ["i32"], [], [["memory.size"]])
    ld = add_func(d, ["i32"], ["i32"], [], [L(0), ["i32.load", 0]])
    st = add_func(d, ["i32", "i32"], [], [], [L(0), L(1), ["i32.store", 0]])
    calls = [(size, (), "memory.size[second instance exists]"), (st, (16, 77), "i32.store"), (ld, (16,), "i32.load")]
    import copy
    t1 = task("two-instances", d, calls, name="two-instances", after=copy.deepcopy(d))
    d2 = new_module()
    bt = add_func(d2, ["i32"], ["i32"], [],
                  [["block", [], [], [["block", [], [], [["block", [], [], [L(0), ["br_table", [0, 1], 2]]], I(10), ["return"]]], I(11), ["return"]]], I(12)])
    t2 = task("same-module-twice", d2, [(bt, (v,), "br_table[module instantiated twice]") for v in (0, 1, 2, 3)], stateless=True, twice=True)
    return [t1, t2]


def effect_tasks():
    """callee effects on shared state observed by the caller right after the call, inside one straight-line block:
    effect kind (i32 / i64 / f64 global, memory, global written by a transitive callee) x call kind (direct call,
    call_indirect with a constant index, call_indirect with an index computed at run time, several entries of one
    signature in the table); caller writes seen by the callee; locals live across calls; bounded recursion on shared state"""
    d = new_module(mem=[1, 1], table=[16, 16])
    d["globals"] = [["i32", True, 600], ["i64", True, (1 << 40) + 5], ["f64", True, f64_bits(2.5)], ["i32", True, 7]]
    A = 64          # the memory cell the callees write
    # --- callees () -> ()
    inc0 = add_func(d, [], [], [], [["global.get", 0], I(1), ["i32.add"], ["global.set", 0]])
    nopp = add_func(d, [], [], [], [["nop"]])
    inc1 = add_func(d, [], [], [], [["global.get", 1], C("i64", 1 << 33), ["i64.add"], ["global.set", 1]])
    set2 = add_func(d, [], [], [], [["global.get", 2], C("f64", 0.25), ["f64.add"], ["global.set", 2]])
    stm = add_func(d, [], [], [], [I(A), I(A), ["i32.load", 0], I(5), ["i32.add"], ["i32.store", 0]])
    trd = add_func(d, [], [], [], [["call", inc0], ["call", stm]])
    t_vv = type_index(d, [], [])
    tri = add_func(d, [], [], [], None)     # body below (needs the table slots)
    inc3 = add_func(d, [], [], [], [["global.get", 3], I(3), ["i32.mul"], ["global.set", 3]])
    # --- callees (i32) -> (i32)
    addg = add_func(d, ["i32"], ["i32"], [], [["global.get", 0], L(0), ["i32.add"], ["global.set", 0], ["global.get", 0]])
    rdg = add_func(d, ["i32"], ["i32"], [], [["global.get", 0], L(0), ["i32.add"]])
    stld = add_func(d, ["i32"], ["i32"], [], [I(A), ["i32.load", 0], I(A), L(0), ["i32.store", 0]])
    idf = add_func(d, ["i32"], ["i32"], [], [L(0)])
    t_ii = type_index(d, ["i32"], ["i32"])
    # table: slots 0..7 type ()->(), 8..11 type (i32)->(i32)
    vv = [inc0, nopp, inc1, set2, stm, trd, tri, inc3]
    ii = [addg, rdg, stld, idf]
    d["elems"] = [[0, vv], [8, ii]]
    SLOT = {f: k for k, f in enumerate(vv)}
    SLOT.update({f: 8 + k for k, f in enumerate(ii)})
    d["funcs"][tri]["body"] = [I(SLOT[inc0]), ["call_indirect", t_vv], I(SLOT[stm]), ["call_indirect", t_vv]]
    calls = []
    OBS = {"global[i32]": ("i32", [["global.get", 0]]), "global[i64]": ("i64", [["global.get", 1]]), "global[f64]": ("f64", [["global.get", 2]]),
           "memory": ("i32", [I(A), ["i32.load", 0]]), "global[i32 other]": ("i32", [["global.get", 3]])}
    WRITER = {"global[i32]": inc0, "global[i64]": inc1, "global[f64]": set2, "memory": stm, "global[i32 other]": inc3}

    def combine(t):          # before, after on the stack -> one value that shows both
        if t == "f64":
            return [C("f64", 1024.0), ["f64.mul"], ["f64.add"]]
        return [C(t, 1000), [f"{t}.mul"], [f"{t}.add"]]
    for kind, (t, obs) in OBS.items():
        w = WRITER[kind]
        variants = [("call", [["call", w]], []),
                    ("call_indirect", [I(SLOT[w]), ["call_indirect", t_vv]], []),
                    ("call_indirect[run-time index]", [L(0), ["call_indirect", t_vv]], ["i32"]),
                    ("call_indirect[computed index]", [L(0), I(1), ["i32.and"], I(SLOT[w] - SLOT[nopp]), ["i32.mul"], I(SLOT[nopp]), ["i32.add"], ["call_indirect", t_vv]], ["i32"])]
        for cname, callcode, params in variants:
            # read; call; read
            f1 = add_func(d, params, [t], [], obs + callcode + obs + combine(t))
            # read; call; read; call; read
            f2 = add_func(d, params, [t], [], obs + callcode + obs + combine(t) + callcode + obs + combine(t))
            # call; read (no earlier read)
            f3 = add_func(d, params, [t], [], callcode + obs)
            for f, shape in ((f1, "R;{};R"), (f2, "R;{};R;{};R"), (f3, "{};R")):
                label = shape.replace("R", kind).replace("{}", cname)
                if not params:
                    calls += [(f, (), label)] * 2
                elif "computed" in cname:
                    calls += [(f, (v,), label) for v in (0, 1, 3, 2)]
                else:
                    calls += [(f, (v,), label) for v in (SLOT[w], SLOT[nopp], SLOT[trd], SLOT[tri], SLOT[w])]
    # transitive writers
    for cname, callcode in (("call[transitive]", [["call", trd]]), ("call_indirect[transitive]", [I(SLOT[tri]), ["call_indirect", t_vv]]),
                            ("call_indirect[transitive direct]", [I(SLOT[trd]), ["call_indirect", t_vv]]), ("call[transitive indirect]", [["call", tri]])):
        for kind in ("global[i32]", "memory"):
            t, obs = OBS[kind]
            f = add_func(d, [], [t], [], obs + callcode + obs + combine(t))
            calls += [(f, (), f"{kind};{cname};{kind}")] * 2
    # callee with a result; the result and both reads are used
    for cname, callcode in (("call", [["call", addg]]), ("call_indirect", [I(SLOT[addg]), ["call_indirect", t_ii]]),
                            ("call_indirect[run-time index]", [L(1), ["call_indirect", t_ii]])):
        params = ["i32", "i32"]
        f = add_func(d, params, ["i32"], [], [["global.get", 0], L(0)] + callcode + [["i32.add"], ["global.get", 0], I(100000), ["i32.mul"], ["i32.add"]])
        for v, sl in ((1, SLOT[addg]), (5, SLOT[rdg]), (9, SLOT[idf]), (2, SLOT[addg])):
            calls.append((f, (v, sl), f"global[i32];{cname}[result used];global[i32]"))
        g = add_func(d, params, ["i32"], [], [I(A), ["i32.load", 0], L(0)] + callcode.copy() + [["i32.add"], I(A), ["i32.load", 0], I(100000), ["i32.mul"], ["i32.add"]])
        for v, sl in ((11, SLOT[stld]), (12, SLOT[idf]), (13, SLOT[stld])):
            if cname == "call":
                break
            calls.append((g, (v, sl), f"memory;{cname}[result used];memory"))
    # the caller writes, the callee reads
    for cname, callcode in (("call", [["call", rdg]]), ("call_indirect", [I(SLOT[rdg]), ["call_indirect", t_ii]])):
        f = add_func(d, ["i32"], ["i32"], [], [["global.get", 0], ["drop"], L(0), ["global.set", 0], I(5)] + callcode + [["global.get", 0], ["i32.add"]])
        calls += [(f, (v,), f"global.set;{cname}[callee reads];global.get") for v in (40, 41)]
    for cname, callcode in (("call", [["call", stld]]), ("call_indirect", [I(SLOT[stld]), ["call_indirect", t_ii]])):
        f = add_func(d, ["i32"], ["i32"], [], [I(A), ["i32.load", 0], ["drop"], I(A), L(0), ["i32.store", 0], I(77)] + callcode + [I(A), ["i32.load", 0], I(1000), ["i32.mul"], ["i32.add"]])
        calls += [(f, (v,), f"store;{cname}[callee reads and writes];load") for v in (3, 4)]
    # locals live across calls
    for cname, callcode in (("call", [["call", addg]]), ("call_indirect", [I(SLOT[addg]), ["call_indirect", t_ii]])):
        f = add_func(d, ["i32", "i64", "f64"], ["f64"], ["i32", "f64"],
                     [L(0), I(3), ["i32.mul"], ["local.set", 3], L(2), C("f64", 0.5), ["f64.mul"], ["local.set", 4], L(0)] + callcode +
                     [["f64.convert_i32_s"], L(3), ["f64.convert_i32_s"], ["f64.add"], L(4), ["f64.add"], L(1), ["f64.convert_i64_s"], ["f64.add"], L(2), ["f64.add"]])
        calls += [(f, (v, 1 << 35, f64_bits(1.25)), f"locals live across {cname}") for v in (2, 3)]
    # bounded recursion on shared state, direct and through the table
    rec = add_func(d, ["i32"], ["i32"], [], None)
    d["funcs"][rec]["body"] = [L(0), ["i32.eqz"], ["if", [], ["i32"], [["global.get", 0]],
                               [["global.get", 0], L(0), ["i32.add"], ["global.set", 0], ["global.get", 0], L(0), I(1), ["i32.sub"], ["call", rec],
                                ["global.get", 0], ["i32.add"], ["i32.add"]]]]
    reci = add_func(d, ["i32"], ["i32"], [], None)
    d["elems"].append([12, [reci]])
    d["funcs"][reci]["body"] = [L(0), ["i32.eqz"], ["if", [], ["i32"], [["global.get", 0]],
                                [["global.get", 0], L(0), ["i32.add"], ["global.set", 0], ["global.get", 0], L(0), I(1), ["i32.sub"], I(12), ["call_indirect", t_ii],
                                 ["global.get", 0], ["i32.add"], ["i32.add"]]]]
    for v in (0, 1, 4, 9):
        calls += [(rec, (v,), "recursion[call, shared global]"), (reci, (v,), "recursion[call_indirect, shared global]")]
    return [task("effects", d, calls, name="effects")]


def pattern_tasks(rng=None, thorough=False):
    ts = cmp_tasks(thorough) + [const_task(), locals_task(), globals_task()] + memory_tasks() + memgrow_tasks() + control_tasks() + call_tasks()
    ts += [start_task(), trapping_start_task()] + host_tasks() + effect_tasks()
    return ts


# ---------------------------------------------------------------------------------------------
# layer C: random typed programs (valid by construction; loops bounded by counters; calls form a DAG)

TYPES = INTS + FLTS


class FuncGen:
    def __init__(self, rng, mod, index, params, result, sigs, gtypes, has_mem, table_sigs):
        self.rng, self.mod, self.index = rng, mod, index
        self.params, self.result = params, result
        self.locals = list(params)
        for _ in range(rng.randrange(1, 5)):
            self.locals.append(rng.choice(TYPES))
        self.sigs = sigs                # signatures of the functions that may be called (index < self.index)
        self.gtypes = gtypes            # [(type, mutable)]
        self.has_mem = has_mem
        self.table_sigs = table_sigs    # [(table slot, funcidx)]
        self.reserved = set()
        self.recursive = False
        self.self_slot = None
        self.labels = []                # innermost first: arity type or None (loops: None = branch carries nothing)
        self.budget = rng.randrange(25, 90)

    def new_local(self, t):
        """a local reserved for a loop counter: never read or written by generated statements"""
        self.locals.append(t)
        self.reserved.add(len(self.locals) - 1)
        return len(self.locals) - 1

    def locals_of(self, t):
        return [k for k, lt in enumerate(self.locals) if lt == t and k not in self.reserved]

    # ---- expressions --------------------------------------------------------------------
    def const(self, t):
        """one constant; NaN / infinity are made by reinterpreting an integer constant (ppci's python target cannot
        emit such literals - open finding python:fNN.const[nan|inf] - and programs must stay clear of known findings)"""
        b = rand_value(self.rng, t)
        if t in FLTS and (is_nan(t, b) or is_inf(t, b)):
            it = "i32" if t == "f32" else "i64"
            return [f"{it}.const", b], [f"{t}.reinterpret_{it}"]
        return ([f"{t}.const", b],)

    def small_i32(self, lo=0, hi=16):
        return I(self.rng.randrange(lo, hi))

    def expr(self, t, depth):
        rng = self.rng
        self.budget -= 1
        if depth <= 0 or self.budget <= 0:
            ls = self.locals_of(t)
            if ls and rng.random() < 0.6:
                return [L(rng.choice(ls))]
            return list(self.const(t))
        r = rng.random()
        d = depth - 1
        if r < 0.10:
            return list(self.const(t))
        if r < 0.22:
            ls = self.locals_of(t)
            if ls:
                return [L(rng.choice(ls))]
        if r < 0.27:
            gs = [k for k, (gt, _m) in enumerate(self.gtypes) if gt == t]
            if gs:
                return [["global.get", rng.choice(gs)]]
        if r < 0.50:
            return self.arith(t, d)
        if r < 0.58:
            return self.convert(t, d)
        if r < 0.64 and self.has_mem:
            return self.load(t, d)
        if r < 0.70:
            return self.expr(t, d) + self.expr(t, d) + self.cond(d) + [["select"]]
        if r < 0.77:
            return self.cond(d) + [["if", [], [t], self.in_label(t, lambda: self.expr(t, d)), self.in_label(t, lambda: self.expr(t, d))]]
        if r < 0.83:
            # block with result, left early by br_if carrying a value
            def body():
                return self.expr(t, d) + self.cond(d) + [["br_if", 0], ["drop"]] + self.expr(t, d)
            return [["block", [], [t], self.in_label(t, body)]]
        if r < 0.88:
            cands = [k for k, (ps, rs) in enumerate(self.sigs) if rs == [t]]
            if cands:
                return self.call_code(rng.choice(cands), min(d, 1))
        if r < 0.93 and self.sigs:
            sw = self.sandwich(t)
            if sw:
                return sw
        if r < 0.96:
            ls = self.locals_of(t)
            if ls:
                return self.expr(t, d) + [["local.tee", rng.choice(ls)]]
        return self.arith(t, d)

    def call_code(self, k, argdepth, straight=False):
        """call function k (arguments first): directly, through the table with a constant index, or with an index computed at
        run time that selects between two table entries of the same signature.  `straight`: no control flow in the code"""
        rng = self.rng
        code = []
        for pt in self.sigs[k][0]:
            code += self.expr(pt, 0 if straight else argdepth)
        slots = [s for s, f in self.table_sigs if f == k]
        r = rng.random()
        if slots and r < 0.6:
            ti = type_index(self.mod, *self.sigs[k])
            s1 = rng.choice(slots)
            others = [s for s, f in self.table_sigs if self.sigs[f] == self.sigs[k] and s != s1]
            ls = self.locals_of("i32")
            if others and ls and r < 0.35:
                s2 = rng.choice(others)
                return code + [L(rng.choice(ls)), I(1), ["i32.and"], I((s2 - s1) & 0xFFFFFFFF), ["i32.mul"], I(s1), ["i32.add"], ["call_indirect", ti]]
            return code + [I(s1), ["call_indirect", ti]]
        return code + [["call", k]]

    def sandwich(self, t):
        """observe shared state, call, observe it again - all in one straight-line block - and combine both observations"""
        rng = self.rng
        obs = None
        gs = [k for k, (gt, m) in enumerate(self.gtypes) if gt == t and m]
        if gs and (not self.has_mem or rng.random() < 0.6):
            obs = [["global.get", rng.choice(gs)]]
        elif self.has_mem:
            obs = [I(rng.randrange(0, 256) * 8), [f"{t}.load", rng.randrange(0, 8)]]
        if obs is None:
            return None
        k = rng.randrange(len(self.sigs))
        call = self.call_code(k, 0, straight=True) + ([["drop"]] if self.sigs[k][1] else [])
        comb = {"i32": [["i32.xor"]], "i64": [["i64.add"]], "f32": [["f32.max"]], "f64": [["f64.add"]]}[t]
        code = obs + call + obs + comb
        if rng.random() < 0.3:
            code = code + call + obs + comb
        return code

    def cond(self, depth):
        """an i32 used as a condition: often a (not materialised) comparison, sometimes negated"""
        rng = self.rng
        r = rng.random()
        if r < 0.75:
            t = rng.choice(TYPES)
            rel = rng.choice(IREL if t in INTS else FREL)
            code = self.expr(t, depth) + self.expr(t, depth) + [[f"{t}.{rel}"]]
            if rng.random() < 0.3:
                code.append(["i32.eqz"])
            return code
        if r < 0.85:
            t = rng.choice(INTS)
            return self.expr(t, depth) + [[f"{t}.eqz"]]
        return self.expr("i32", depth)

    def arith(self, t, d):
        rng = self.rng
        if t in INTS:
            r = rng.random()
            if t == "i32" and r < 0.25:
                return self.cond(d)
            if r < 0.40:
                op = rng.choice(IUN + ["extend8_s", "extend16_s"] + (["extend32_s"] if t == "i64" else []))
                return self.expr(t, d) + [[f"{t}.{op}"]]
            op = rng.choice(IBIN)
            a, b = self.expr(t, d), self.expr(t, d)
            if op in ("div_s", "div_u", "rem_s", "rem_u") and rng.random() < 0.93:
                b = b + [C(t, 1), [f"{t}.or"]]
            return a + b + [[f"{t}.{op}"]]
        r = rng.random()
        if t == "f32" and rng.random() < 0.8:
            # operations whose result is exact (f32 arithmetic on the python target is an open finding: hazard 2)
            if r < 0.5:
                return self.expr(t, d) + [[f"{t}.{rng.choice(['abs', 'neg', 'ceil', 'floor', 'trunc', 'nearest'])}"]]
            return self.expr(t, d) + self.expr(t, d) + [[f"{t}.{rng.choice(['min', 'max', 'copysign'])}"]]
        if r < 0.35:
            return self.expr(t, d) + [[f"{t}.{rng.choice(FUN)}"]]
        op = rng.choice(FBIN)
        a = self.expr(t, d)
        if op == "div" and rng.random() < 0.9:
            b = [C(t, rng.choice([1.0, -2.0, 0.5, 3.0, 7.0, -0.25, 1e10]))]
        else:
            b = self.expr(t, d)
        return a + b + [[f"{t}.{op}"]]

    def convert(self, t, d):
        rng = self.rng
        if t == "i32":
            c = rng.choice(["wrap", "reinterpret", "sat32", "sat64", "trunc"])
            if c == "wrap":
                return self.expr("i64", d) + [["i32.wrap_i64"]]
            if c == "reinterpret":
                return self.expr("f32", d) + [["i32.reinterpret_f32"]]
            if c == "trunc":
                return self.expr("i32", d) + [I(0xFFFFF), ["i32.and"], ["f64.convert_i32_s"], C("f64", rng.choice([0.5, 1.0, -1.5, 1024.0])), ["f64.mul"],
                                              [f"i32.trunc_f64_{rng.choice('su') if False else 's'}"]]
            s = "f32" if c == "sat32" else "f64"
            return self.expr(s, d) + [[f"i32.trunc_sat_{s}_{rng.choice('su')}"]]
        if t == "i64":
            c = rng.choice(["ext_s", "ext_u", "reinterpret", "sat32", "sat64"])
            if c.startswith("ext"):
                return self.expr("i32", d) + [[f"i64.extend_i32_{c[-1]}"]]
            if c == "reinterpret":
                return self.expr("f64", d) + [["i64.reinterpret_f64"]]
            s = "f32" if c == "sat32" else "f64"
            return self.expr(s, d) + [[f"i64.trunc_sat_{s}_{rng.choice('su')}"]]
        c = rng.choice(["conv32", "conv64", "other", "reinterpret"])
        if t == "f32" and c == "other" and rng.random() < 0.7:
            c = "reinterpret"
        if c.startswith("conv"):
            s = "i32" if c == "conv32" else "i64"
            if t == "f32" and rng.random() < 0.8:
                return self.expr(s, d) + [C(s, 0xFFFFFF), [f"{s}.and"], [f"{t}.convert_{s}_{rng.choice('su')}"]]
            return self.expr(s, d) + [[f"{t}.convert_{s}_{rng.choice('su')}"]]
        if c == "reinterpret":
            s = "i32" if t == "f32" else "i64"
            return self.expr(s, d) + [[f"{t}.reinterpret_{s}"]]
        if t == "f32":
            return self.expr("f64", d) + [["f32.demote_f64"]]
        return self.expr("f32", d) + [["f64.promote_f32"]]

    def address(self, d):
        code = self.expr("i32", d)
        if self.rng.random() < 0.985:
            code = code + [I(0xFFF0), ["i32.and"]]
        return code, self.rng.randrange(0, 8)

    def load(self, t, d):
        code, off = self.address(d)
        return code + [[f"{t}.{self.rng.choice(LOADS[t])}", off]]

    # ---- statements ---------------------------------------------------------------------
    def in_label(self, arity, fn):
        self.labels.insert(0, arity)
        try:
            return fn()
        finally:
            self.labels.pop(0)

    def stmts(self, depth, n=None):
        out = []
        for _ in range(n if n is not None else self.rng.randrange(1, 4)):
            s = self.stmt(depth)
            out += s
            if s and s[-1][0] in ("br", "br_table", "return", "unreachable"):
                if self.rng.random() < 0.3:       # some (valid) dead code
                    out += [I(1), ["drop"]]
                break
        return out

    def stmt(self, depth):
        rng = self.rng
        self.budget -= 1
        d = max(depth - 1, 0)
        r = rng.random()
        if depth <= 0 or self.budget <= 0 or r < 0.30:
            k = rng.choice([k for k in range(len(self.locals)) if k not in self.reserved])
            return self.expr(self.locals[k], min(depth, 2)) + [["local.set", k]]
        if r < 0.38:
            gs = [k for k, (_t, m) in enumerate(self.gtypes) if m]
            if gs:
                k = rng.choice(gs)
                return self.expr(self.gtypes[k][0], d) + [["global.set", k]]
        if r < 0.50 and self.has_mem:
            t = rng.choice(TYPES)
            code, off = self.address(d)
            return code + self.expr(t, d) + [[f"{t}.{rng.choice(STORES[t])}", off]]
        if r < 0.62:
            return self.cond(d) + [["if", [], [], self.in_label(None, lambda: self.stmts(d)),
                                    self.in_label(None, lambda: self.stmts(d)) if rng.random() < 0.6 else []]]
        if r < 0.70:
            return [["block", [], [], self.in_label(None, lambda: self.stmts(d) + self.cond(d) + [["br_if", 0]] + self.stmts(d))]]
        if r < 0.80:
            c = self.new_local("i32")
            n = rng.randrange(1, 6)

            def body():
                return self.stmts(d) + [L(c), I(1), ["i32.sub"], ["local.tee", c], ["br_if", 0]]
            return [I(n), ["local.set", c], ["loop", [], [], self.in_label("loop", body)]]
        if r < 0.86:
            # br_table dispatch over nested blocks
            n = rng.randrange(2, 5)
            arms = [self.stmts(min(d, 1), 1) for _ in range(n)]
            targets = [rng.randrange(n) for _ in range(rng.randrange(1, 6))]
            dflt = rng.randrange(n)
            inner = self.expr("i32", d) + ([I(7), ["i32.and"]] if rng.random() < 0.7 else []) + [["br_table", targets, dflt]]
            code = [["block", [], [], inner]]
            for k in range(n - 1):
                code = [["block", [], [], code + arms[k] + [["br", n - 1 - k - 1]]]] if False else [["block", [], [], code + arms[k]]]
            return [["block", [], [], code + arms[n - 1]]] if n > 1 else code
        if r < 0.89:
            t = rng.choice(TYPES)
            return self.expr(t, d) + [["drop"]]
        if r < 0.92:
            # leave an enclosing statement block / loop early
            cands = [k for k, a in enumerate(self.labels) if a is None]
            if cands:
                return self.cond(d) + [["br_if", rng.choice(cands)]]
        if r < 0.99 and self.sigs:
            k = rng.randrange(len(self.sigs))
            return self.call_code(k, min(d, 1)) + ([["drop"]] if self.sigs[k][1] else [])
        return [["nop"]]

    def effects(self):
        """a few unconditional updates of shared state, so that (nearly) every function is a writer"""
        rng = self.rng
        code = []
        for k, (gt, m) in enumerate(self.gtypes):
            if m and rng.random() < 0.45:
                if gt in INTS:
                    code += [["global.get", k], C(gt, rng.randrange(1, 9)), [f"{gt}.{rng.choice(['add', 'xor', 'sub'])}"], ["global.set", k]]
                else:
                    code += [["global.get", k], [f"{gt}.neg"], ["global.set", k]]
        if self.has_mem and rng.random() < 0.6:
            a = rng.randrange(0, 256) * 8
            code += [I(a), I(a), ["i64.load", 0], C("i64", rng.randrange(1, 1 << 20)), ["i64.add"], ["i64.store", 0]]
        return code

    def recursion(self):
        """self call with a depth bound: depth = param0 & 7 (taken before anything can change it), the callee gets depth - 1"""
        rng = self.rng
        dl = self.new_local("i32")
        pre = [L(0), I(7), ["i32.and"], ["local.set", dl]]
        args = [L(dl), I(1), ["i32.sub"]]
        for pt in self.params[1:]:
            args += self.expr(pt, 0)
        if self.self_slot is not None and rng.random() < 0.5:
            call = args + [I(self.self_slot), ["call_indirect", type_index(self.mod, self.params, self.result)]]
        else:
            call = args + [["call", self.index]]
        if self.result:
            ls = self.locals_of(self.result[0])
            call += [["local.set", rng.choice(ls)]] if ls else [["drop"]]
        return pre, [L(dl), ["if", [], [], self.effects() + call, []]]

    def body(self):
        pre, rec = ([], [])
        if self.recursive:
            pre, rec = self.recursion()
        code = pre + self.effects() + self.stmts(3, self.rng.randrange(1, 4)) + rec + self.stmts(3, self.rng.randrange(1, 3))
        if code and code[-1][0] in ("br", "br_table", "return", "unreachable"):
            code = code[:-1]
        if self.result:
            code += self.expr(self.result[0], 3)
            if self.rng.random() < 0.15:
                code += [["return"]]
        return code


def random_program(rng, ident):
    has_mem = rng.random() < 0.8
    d = new_module(mem=[1, rng.choice([1, 2, None])] if has_mem else None, table=[6, rng.choice([6, None])])
    gtypes = []
    for t in TYPES:
        for _ in range(rng.randrange(0, 2) + (1 if t == "i32" else 0)):
            m = rng.random() < 0.8
            gtypes.append((t, m))
            b = rand_value(rng, t)
            while is_nan(t, b) or is_inf(t, b):
                b = rand_value(rng, t)
            d["globals"].append([t, m, b])
    if has_mem:
        d["datas"] = [[rng.randrange(0, 200), bytes(rng.getrandbits(8) for _ in range(rng.randrange(1, 40))).hex()],
                      [65536 - 16, bytes(rng.getrandbits(8) for _ in range(16)).hex()]]
    nf = rng.randrange(3, 7)
    # a small pool of signatures, so that several functions (and table entries) share one
    pool = []
    for _ in range(rng.randrange(2, 4)):
        ps = [rng.choice(TYPES) for _ in range(rng.randrange(0, 3))]
        pool.append((ps, [rng.choice(TYPES)] if rng.random() < 0.75 else []))
    sigs = []
    table_sigs = []
    for k in range(nf):
        params, result = rng.choice(pool)
        params, result = list(params), list(result)
        if k == nf - 1 and not result:
            result = [rng.choice(TYPES)]
        recursive = rng.random() < 0.25
        if recursive:
            params = ["i32"] + params[:2]
        d["funcs"].append({"type": type_index(d, params, result), "locals": [], "body": []})
        g = FuncGen(rng, d, k, params, result, list(sigs), gtypes, has_mem, list(table_sigs))
        g.recursive = recursive
        in_table = rng.random() < 0.75 and len(table_sigs) < 6
        if in_table and recursive:
            g.self_slot = len(table_sigs)
        body = g.body()
        d["funcs"][k]["locals"] = g.locals[len(params):]
        d["funcs"][k]["body"] = body
        sigs.append((params, result))
        if in_table:
            table_sigs.append((len(table_sigs), k))
    if table_sigs:
        d["elems"] = [[0, [f for _s, f in table_sigs]]]
    calls = []
    for k in range(nf):
        for _ in range(rng.randrange(2, 6)):
            calls.append((k, tuple(rand_value(rng, t) for t in sigs[k][0]), "program"))
    rng.shuffle(calls)
    return task(f"prog-{ident}", d, calls, kind="program", name="program")


def program_tasks(rng, n):
    return [random_program(rng, k) for k in range(n)]
