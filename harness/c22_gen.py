"""C22: description of wasm modules (plain data), conversion to the real `ppci.wasm` components and to the
S-expression of Spec.WasmParse, operand vectors, operator matrix, hand-written patterns, random programs.

A module description is JSON-able:

    {"types": [[params, results], ...], "funcs": [{"type": ti, "locals": [...], "body": [I...]}, ...],
     "table": [min, max|None] | None, "mem": [min, max|None] | None, "globals": [[type, mutable, bits], ...],
     "elems": [[offset, [funcidx...]]], "datas": [[offset, hex]], "start": funcidx | None}

    I := [opcode] | ["T.const", bits] | ["local.get|set|tee", n] | ["global.get|set", n] | ["T.loadX|storeX", offset]
       | ["block"|"loop", [param types], [result types], [I...]] | ["if", [pt], [rt], [I...], [I...]]
       | ["br"|"br_if", depth] | ["br_table", [depths], default] | ["call", funcidx] | ["call_indirect", typeidx]

All values are raw bit patterns (unsigned ints), so NaN payloads / signed zeros are exact.
"""
import struct

INTS = ("i32", "i64")
FLTS = ("f32", "f64")
BITS = {"i32": 32, "i64": 64, "f32": 32, "f64": 64}

IUN = ["clz", "ctz", "popcnt"]
IBIN = ["add", "sub", "mul", "div_s", "div_u", "rem_s", "rem_u", "and", "or", "xor", "shl", "shr_s", "shr_u", "rotl", "rotr"]
IREL = ["eq", "ne", "lt_s", "lt_u", "gt_s", "gt_u", "le_s", "le_u", "ge_s", "ge_u"]
FUN = ["abs", "neg", "sqrt", "ceil", "floor", "trunc", "nearest"]
FBIN = ["add", "sub", "mul", "div", "min", "max", "copysign"]
FREL = ["eq", "ne", "lt", "gt", "le", "ge"]


def numeric_ops():
    """every numeric opcode of the subset with its signature: {opcode: (params, results)}"""
    ops = {}
    for t in INTS:
        for o in IUN:
            ops[f"{t}.{o}"] = ([t], [t])
        for o in IBIN:
            ops[f"{t}.{o}"] = ([t, t], [t])
        for o in IREL:
            ops[f"{t}.{o}"] = ([t, t], ["i32"])
        ops[f"{t}.eqz"] = ([t], ["i32"])
        ops[f"{t}.extend8_s"] = ([t], [t])
        ops[f"{t}.extend16_s"] = ([t], [t])
    ops["i64.extend32_s"] = (["i64"], ["i64"])
    for t in FLTS:
        for o in FUN:
            ops[f"{t}.{o}"] = ([t], [t])
        for o in FBIN:
            ops[f"{t}.{o}"] = ([t, t], [t])
        for o in FREL:
            ops[f"{t}.{o}"] = ([t, t], ["i32"])
    ops["i32.wrap_i64"] = (["i64"], ["i32"])
    ops["i64.extend_i32_s"] = (["i32"], ["i64"])
    ops["i64.extend_i32_u"] = (["i32"], ["i64"])
    for d in INTS:
        for s in FLTS:
            for sx in "su":
                ops[f"{d}.trunc_{s}_{sx}"] = ([s], [d])
                ops[f"{d}.trunc_sat_{s}_{sx}"] = ([s], [d])
    for d in FLTS:
        for s in INTS:
            for sx in "su":
                ops[f"{d}.convert_{s}_{sx}"] = ([s], [d])
    ops["f32.demote_f64"] = (["f64"], ["f32"])
    ops["f64.promote_f32"] = (["f32"], ["f64"])
    ops["i32.reinterpret_f32"] = (["f32"], ["i32"])
    ops["i64.reinterpret_f64"] = (["f64"], ["i64"])
    ops["f32.reinterpret_i32"] = (["i32"], ["f32"])
    ops["f64.reinterpret_i64"] = (["i64"], ["f64"])
    return ops


NUMERIC = numeric_ops()

# ---------------------------------------------------------------------------------------------
# bits <-> host values


def f32_bits(x):
    return struct.unpack("<I", struct.pack("<f", x))[0]


def f64_bits(x):
    return struct.unpack("<Q", struct.pack("<d", x))[0]


def bits_f32(b):
    return struct.unpack("<f", struct.pack("<I", b))[0]


def bits_f64(b):
    return struct.unpack("<d", struct.pack("<Q", b))[0]


def to_host(t, bits):
    """the Python value handed to ppci for the wasm value with these bits"""
    if t == "i32":
        return bits - (1 << 32) if bits >> 31 else bits
    if t == "i64":
        return bits - (1 << 64) if bits >> 63 else bits
    if t == "f32":
        return bits_f32(bits)
    return bits_f64(bits)


def is_nan(t, bits):
    if t == "f32":
        return (bits & 0x7FFFFFFF) > 0x7F800000
    if t == "f64":
        return (bits & 0x7FFFFFFFFFFFFFFF) > 0x7FF0000000000000
    return False


def is_inf(t, bits):
    if t == "f32":
        return (bits & 0x7FFFFFFF) == 0x7F800000
    if t == "f64":
        return (bits & 0x7FFFFFFFFFFFFFFF) == 0x7FF0000000000000
    return False


# ---------------------------------------------------------------------------------------------
# boundary operands


def int_boundary(n):
    m = (1 << n) - 1
    xs = [0, 1, 2, 3, m, m - 1, 1 << (n - 1), (1 << (n - 1)) - 1, (1 << (n - 1)) + 1, 7, 8, 0x7F, 0x80, 0xFF, 0x100,
          0x7FFF, 0x8000, 0xFFFF, 0x10000, n - 1, n, n + 1, 2 * n - 1, 2 * n, 0x55555555 & m, 0xAAAAAAAA & m,
          m - 0x7F, m - 0x80, m - 0x7FFF, m - 0x8000, 0x12345678 & m, (0xFEDCBA9876543210 >> (64 - n)) & m]
    if n == 64:
        xs += [0x7FFFFFFF, 0x80000000, 0xFFFFFFFF, 0x100000000, m - 0x7FFFFFFF, m - 0x80000000, 0x5555555555555555,
               1 << 62, 1 << 53, (1 << 53) + 1, (1 << 24) + 1, (1 << 63) + (1 << 10), (1 << 63) - (1 << 9) - 1]
    else:
        xs += [(1 << 24) + 1, 0x7FFFFF80, 0x7FFFFFBF, 0x7FFFFFC0, 0xFFFFFF80, 0xFFFFFF7F]
    return list(dict.fromkeys(x & m for x in xs))


def f64_boundary():
    vals = [0.0, -0.0, 1.0, -1.0, 0.5, -0.5, 1.5, -1.5, 2.5, -2.5, 3.5, 0.49999999999999994, -0.49999999999999994, 0.1, -0.9, 0.9999999999999999,
            float("inf"), float("-inf"), 5e-324, -5e-324, 2.2250738585072014e-308, 1.7976931348623157e308, -1.7976931348623157e308,
            2147483647.0, 2147483648.0, 2147483647.5, 2147483647.9999998, -2147483648.0, -2147483649.0, -2147483648.5, -2147483648.9999995,
            4294967295.0, 4294967296.0, 4294967295.5, 4294967295.9999995, -0.9999999999999999, -1.0000000000000002,
            9223372036854775807.0, 9223372036854774784.0, -9223372036854775808.0, -9223372036854777856.0,
            18446744073709551615.0, 18446744073709549568.0, 4503599627370496.0, 4503599627370495.5, 4503599627370497.0, 9007199254740993.0,
            16777216.0, 16777217.0, 1e300, 1e-300, 3.4028234663852886e38, 3.4028235677973366e38, 3.402823669209385e38, 1.401298464324817e-45, 7e-46,
            123456.789, -7.25, 6.5, 1e10, -1e19, 1e19, 2e19]
    out = [f64_bits(v) for v in vals]
    out += [0x7FF8000000000000, 0xFFF8000000000000, 0x7FF0000000000001, 0x7FF8000000001234]     # NaNs (quiet, negative, signalling, payload)
    return list(dict.fromkeys(out))


def f32_boundary():
    vals = [0.0, -0.0, 1.0, -1.0, 0.5, -0.5, 1.5, -1.5, 2.5, -2.5, 3.5, 0.1, -0.9, float("inf"), float("-inf"),
            2147483648.0, 2147483520.0, -2147483648.0, -2147483904.0, 4294967296.0, 4294967040.0, 9223372036854775808.0,
            9223371487098961920.0, -9223372036854775808.0, -9223373136366403584.0, 18446744073709551616.0, 18446742974197923840.0,
            16777216.0, 16777215.0, 8388608.0, 8388607.5, 3.4028234663852886e38, -3.4028234663852886e38, 1.401298464324817e-45,
            -1.401298464324817e-45, 1.1754943508222875e-38, 0.49999997, -0.49999997, 0.99999994, -0.99999994, 123456.79, -7.25, 6.5, 1e10, 1e19]
    out = [f32_bits(v) for v in vals]
    out += [0x7FC00000, 0xFFC00000, 0x7F800001, 0x7FC01234]
    return list(dict.fromkeys(out))


def boundary(t):
    return {"i32": lambda: int_boundary(32), "i64": lambda: int_boundary(64), "f32": f32_boundary, "f64": f64_boundary}[t]()


def rand_value(rng, t):
    """boundary-biased random value (bits)"""
    r = rng.random()
    if r < 0.45:
        return rng.choice(boundary(t))
    n = BITS[t]
    if t in INTS:
        if r < 0.7:
            return rng.getrandbits(n)
        k = rng.randrange(1, n)
        v = rng.getrandbits(k)
        return (v if rng.random() < 0.5 else -v) & ((1 << n) - 1)
    if r < 0.6:
        return rng.getrandbits(n)            # arbitrary pattern (huge/tiny exponents, sometimes NaN)
    x = rng.choice([rng.uniform(-4, 4), rng.uniform(-1e5, 1e5), float(rng.randrange(-1000, 1000)), rng.randrange(-2000, 2000) / 2,
                    rng.uniform(-1, 1) * 2.0 ** rng.randrange(20, 70)])
    return f32_bits(x) if t == "f32" else f64_bits(x)


# ---------------------------------------------------------------------------------------------
# description -> S-expression (Spec.WasmParse)


def sx_instr(i):
    op = i[0]
    if op in ("block", "loop"):
        return f"({op} {len(i[1])} {len(i[2])} {sx_body(i[3])})" if i[3] else f"({op} {len(i[1])} {len(i[2])})"
    if op == "if":
        return f"(if {len(i[1])} {len(i[2])} ({sx_body(i[3])}) ({sx_body(i[4])}))"
    if op == "br_table":
        return "(br_table " + " ".join(str(x) for x in list(i[1]) + [i[2]]) + ")"
    if len(i) == 1:
        return op
    return f"({op} {i[1]})"


def sx_body(body):
    return " ".join(sx_instr(i) for i in body)


def to_sexp(d):
    types = " ".join(f"(ft ({' '.join(p)}) ({' '.join(r)}))" for p, r in d["types"])
    funcs = " ".join(f"(func {f['type']} ({' '.join(f['locals'])}) {sx_body(f['body'])})" for f in d["funcs"])

    def lim(x, tag, notag):
        return f"({notag})" if x is None else f"({tag} {x[0]} {'-' if x[1] is None else x[1]})"
    globs = " ".join(f"({t} {'mut' if m else 'const'} {b})" for t, m, b in d.get("globals", []))
    elems = " ".join(f"({o} {' '.join(str(f) for f in fs)})" for o, fs in d.get("elems", []))
    datas = " ".join(f"({o} {h or '-'})" for o, h in d.get("datas", []))
    st = d.get("start")
    return (f"(module (types {types}) (funcs {funcs}) {lim(d.get('table'), 'table', 'notable')} {lim(d.get('mem'), 'mem', 'nomem')} "
            f"(globals {globs}) (elems {elems}) (datas {datas}) (start {'-' if st is None else st}))")


def request(d, calls, fuel):
    cs = " ".join("(" + " ".join(str(x) for x in [fi] + list(args)) + ")" for fi, args in calls)
    return f"(run {fuel} {to_sexp(d)} (calls {cs}))"


# ---------------------------------------------------------------------------------------------
# description -> real ppci.wasm components


def type_index(d, params, results):
    key = [list(params), list(results)]
    for i, t in enumerate(d["types"]):
        if [list(t[0]), list(t[1])] == key:
            return i
    d["types"].append(key)
    return len(d["types"]) - 1


def prepare(d):
    """make sure every multi-value block type has an entry in the type section (before serialising)"""
    def walk(body):
        for i in body:
            if i[0] in ("block", "loop"):
                if i[1] or len(i[2]) > 1:
                    type_index(d, i[1], i[2])
                walk(i[3])
            elif i[0] == "if":
                if i[1] or len(i[2]) > 1:
                    type_index(d, i[1], i[2])
                walk(i[3])
                walk(i[4])
    for f in d["funcs"]:
        walk(f["body"])
    return d


def to_ppci(d):
    from ppci.wasm import components as C

    def blocktype(params, results):
        if not params and not results:
            return "emptyblock"
        if not params and len(results) == 1:
            return results[0]
        return C.Ref("type", index=type_index(d, params, results))

    def flat(body, out):
        for i in body:
            op = i[0]
            if op in ("block", "loop"):
                out.append(C.BlockInstruction(op, blocktype(i[1], i[2])))
                flat(i[3], out)
                out.append(C.Instruction("end"))
            elif op == "if":
                out.append(C.BlockInstruction("if", blocktype(i[1], i[2])))
                flat(i[3], out)
                if i[4] or list(i[1]) != list(i[2]):
                    out.append(C.Instruction("else"))
                    flat(i[4], out)
                out.append(C.Instruction("end"))
            elif op in ("br", "br_if"):
                out.append(C.Instruction(op, C.Ref("label", index=i[1])))
            elif op == "br_table":
                out.append(C.Instruction(op, [C.Ref("label", index=x) for x in list(i[1]) + [i[2]]]))
            elif op == "call":
                out.append(C.Instruction(op, C.Ref("func", index=i[1])))
            elif op == "call_indirect":
                out.append(C.Instruction(op, C.Ref("type", index=i[1]), C.Ref("table", index=0)))
            elif op.startswith("local."):
                out.append(C.Instruction(op, C.Ref("local", index=i[1])))
            elif op.startswith("global."):
                out.append(C.Instruction(op, C.Ref("global", index=i[1])))
            elif op.endswith(".const"):
                out.append(C.Instruction(op, to_host(op[:3], i[1])))
            elif ".load" in op or ".store" in op:
                t, name = op.split(".")
                width = BITS[t] // 8
                for w in ("8", "16", "32"):
                    if name.startswith("load" + w) or name.startswith("store" + w):
                        width = int(w) // 8
                out.append(C.Instruction(op, width.bit_length() - 1, i[1]))
            elif op in ("memory.size", "memory.grow"):
                out.append(C.Instruction(op, 0))
            elif op == "select":
                out.append(C.Instruction(op, []))
            else:
                out.append(C.Instruction(op))
        return out

    funcs = []
    for k, f in enumerate(d["funcs"]):
        funcs.append(C.Func(k, C.Ref("type", index=f["type"]), [(None, t) for t in f["locals"]], flat(f["body"], [])))
    defs = [C.Type(k, [(j, t) for j, t in enumerate(p)], list(r)) for k, (p, r) in enumerate(d["types"])]
    if d.get("table") is not None:
        defs.append(C.Table(0, "funcref", d["table"][0], d["table"][1]))
    if d.get("mem") is not None:
        defs.append(C.Memory(0, d["mem"][0], d["mem"][1]))
    for k, (t, m, b) in enumerate(d.get("globals", [])):
        defs.append(C.Global(k, t, m, [C.Instruction(f"{t}.const", to_host(t, b))]))
    for k in range(len(d["funcs"])):
        defs.append(C.Export(f"f{k}", "func", C.Ref("func", index=k)))
    if d.get("mem") is not None:
        defs.append(C.Export("mem", "memory", C.Ref("memory", index=0)))
    for k in range(len(d.get("globals", []))):
        defs.append(C.Export(f"g{k}", "global", C.Ref("global", index=k)))
    if d.get("start") is not None:
        defs.append(C.Start(C.Ref("func", index=d["start"])))
    for k, (off, fs) in enumerate(d.get("elems", [])):
        defs.append(C.Elem(k, (C.Ref("table", index=0), [C.Instruction("i32.const", off)]), [C.Ref("func", index=x) for x in fs]))
    defs.extend(funcs)
    for k, (off, h) in enumerate(d.get("datas", [])):
        defs.append(C.Data(k, (C.Ref("memory", index=0), [C.Instruction("i32.const", off)]), bytes.fromhex(h)))
    m = C.Module()
    m.definitions = defs
    return m


def to_wat(d):
    """text form (for replay files / humans); best effort"""
    try:
        return to_ppci(d).to_string()
    except Exception as e:  # noqa
        return f"<to_string failed: {type(e).__name__}: {e}>"


# ---------------------------------------------------------------------------------------------
# layer A: operator matrix


def new_module(mem=None, table=None):
    return {"types": [], "funcs": [], "table": table, "mem": mem, "globals": [], "elems": [], "datas": [], "start": None}


def add_func(d, params, results, locals_, body):
    d["funcs"].append({"type": type_index(d, params, results), "locals": list(locals_), "body": body})
    return len(d["funcs"]) - 1


def operand_vectors(rng, params, nrand, full):
    """fixed boundary vectors (independent of the seed) + random ones"""
    if len(params) == 1:
        vs = [(b,) for b in boundary(params[0])]
    else:
        a, b = boundary(params[0]), boundary(params[1])
        core_a = a[:14] if not full else a
        vs = [(x, y) for x in core_a for y in b[:14]]
        # every boundary value once on each side, against a rotating partner
        vs += [(x, b[(3 * k) % len(b)]) for k, x in enumerate(a)] + [(a[(5 * k + 1) % len(a)], y) for k, y in enumerate(b)]
        vs += special_pairs(params[0])
    vs += [tuple(rand_value(rng, t) for t in params) for _ in range(nrand)]
    return list(dict.fromkeys(vs))


def special_pairs(t):
    if t in INTS:
        n = BITS[t]
        m = (1 << n) - 1
        mn = 1 << (n - 1)
        return [(mn, m), (mn, 1), (mn, 0), (m, m), (0, 0), (mn, mn), (7, 0), (m - 6, 2), (m - 6, m - 1), (7, m - 1), (1, n), (1, n + 1), (m, n - 1),
                (mn, n), (mn, 2 * n + 1), (1, m), (mn + 1, m), (0x80000000 & m, 33)]
    bits = f32_bits if t == "f32" else f64_bits
    nan = 0x7FC00000 if t == "f32" else 0x7FF8000000000000
    vals = [0.0, -0.0, 1.0, -1.0, float("inf"), float("-inf")]
    ps = [(bits(x), bits(y)) for x in vals for y in vals]
    ps += [(nan, bits(x)) for x in vals] + [(bits(x), nan) for x in vals] + [(nan, nan)]
    ps += [(bits(0.1), bits(0.2)), (bits(1.0), bits(3.0)), (bits(1e30), bits(1e30)), (bits(16777216.0), bits(1.0)), (bits(1.0), bits(2.0 ** -30)),
           (bits(3.0), bits(7.0)), (bits(2.0), bits(0.5)), (bits(-2.0), bits(3.0))]
    return ps


def ops_task(rng, thorough):
    """one stateless module with a function per numeric opcode"""
    d = new_module()
    calls = []
    nrand = 60 if thorough else 12
    for op, (params, results) in NUMERIC.items():
        body = [["local.get", k] for k in range(len(params))] + [[op]]
        fi = add_func(d, params, results, [], body)
        for vec in operand_vectors(rng, params, nrand, thorough):
            calls.append((fi, vec, op))
    return {"id": "ops", "kind": "ops", "desc": d, "calls": calls, "stateless": True}
