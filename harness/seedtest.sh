#!/bin/sh
# Evaluate a seeded breaking change:  harness/seedtest.sh <Cxx> <dir with patch.diff demo.py meta.json> [tier]
# 1. fresh scratch worktree of /repo HEAD; demo must pass          (property holds on the scenario)
# 2. apply patch; pinned suite must still pass; demo must fail     (realistic, test-suite-invisible breakage)
# 3. run ./vcheck <Cxx> against the patched tree (PPCI_REPO)       (expected: VIOLATION, rc=1)
# The worktree is removed afterwards. Nothing is ever committed to /repo.
set -u
P="$1"; D="$(cd "$2" && pwd)"; TIER="${3:-quick}"
WT="/tmp/seedeval-$P-$$"
git -C /repo worktree add -q --detach "$WT" HEAD || exit 3
cleanup() { git -C /repo worktree remove --force "$WT" >/dev/null 2>&1; }
trap cleanup EXIT
cd "$WT"
/venv/bin/python "$D/demo.py" >/tmp/seedeval-$P-demo0.log 2>&1; d0=$?
git apply "$D/patch.diff" || { echo "RESULT $P patch does not apply to HEAD"; exit 3; }
tests=$(/venv/bin/python -m pytest -q -p no:cacheprovider --timeout=900 test 2>&1 | tail -1)
/venv/bin/python "$D/demo.py" >/tmp/seedeval-$P-demo1.log 2>&1; d1=$?
cd /verif
out=$(PPCI_REPO="$WT" ./vcheck "$P" --tier "$TIER" 2>&1); rc=$?
echo "$out" | tail -4
# Gen/* tables were regenerated from the patched tree: regenerate them from /repo again
/venv/bin/python harness/regen_all.py "$P" >/dev/null 2>&1
echo "RESULT $P demo_without=$d0 demo_with=$d1 tests='$tests' vcheck_rc=$rc"
