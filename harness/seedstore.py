"""Store a confirmed seeded change:  seedstore.py <Cxx> <outdir> <demo_without> <demo_with> <tests> <vcheck_rc> <caught-note>"""
import json, shutil, sys
from pathlib import Path
pid, out, d0, d1, tests, rc, note = sys.argv[1:8]
name = sys.argv[8] if len(sys.argv) > 8 else pid
dst = Path('/verif/seeded') / name
dst.mkdir(parents=True, exist_ok=True)
for f in ('patch.diff', 'demo.py'):
    shutil.copy(Path(out) / f, dst / f)
m = json.loads((Path(out) / 'meta.json').read_text())
m['confirmed_by_coordinator'] = {
    'ran': f'harness/seedtest.sh {pid} <dir> : scratch worktree of /repo HEAD; demo before; git apply patch.diff; pinned suite; demo after; PPCI_REPO=<worktree> ./vcheck {pid} --tier quick',
    'demo_without': int(d0), 'demo_with': int(d1), 'tests': tests, 'vcheck_rc': int(rc), 'caught': int(rc) == 1, 'note': note}
(dst / 'meta.json').write_text(json.dumps(m, indent=1))
print('stored', dst)
