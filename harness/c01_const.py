"""C01 search: integer CONSTANT EXPRESSIONS with operands in the 64-bit range, in every place the front-end folds them
and the result reaches an observable: global initialisers (global memory image), static locals (returned), case labels
(which case is taken), array sizes (size of the global), enumerators (returned).  The theorem about the constant
evaluator lives in C27; here the effect on the program's behaviour is searched.

Each expression is built over literals of ONE 64-bit type (long `L`, long long `LL`, unsigned long `UL`, unsigned long
long `ULL`; LP64: all 64 bits) with values 2^53±k, 2^63-1, 2^64-1, 10^18+7, 2^32±k, random 60..64-bit and small ones,
operators + - * / % & | ^ ~ unary-minus << >> (literal counts) < == ?: .  The reference is `ev`: exact integer
arithmetic (Python ints), truncating / and %, modulo 2^64 for the unsigned types; signed expressions whose exact value
leaves [-2^63, 2^63-1] at any node (undefined in C) are discarded at generation time.  thorough: gcc must agree.
"""
import os
import subprocess
import tempfile

M64 = (1 << 64) - 1
TYPES = {"l": ("long", "L", True), "ll": ("long long", "LL", True), "ul": ("unsigned long", "UL", False),
         "ull": ("unsigned long long", "ULL", False)}
BIG = [(1 << 53) - 1, 1 << 53, (1 << 53) + 1, (1 << 53) + 3, (1 << 63) - 1, (1 << 63) - 2, (1 << 64) - 1, (1 << 64) - 2, 10 ** 18 + 7,
       (1 << 32) - 1, 1 << 32, (1 << 32) + 1, (1 << 62) + 12345, 9007199254740993, 4611686018427387905, 1 << 63]
SMALL = [1, 2, 3, 7, 10, 1000, 65537, 1000003, 999999937]


class Overflow(Exception):
    pass


def tdiv(x, y):
    q = abs(x) // abs(y)
    return q if (x < 0) == (y < 0) else -q


def ev(e, signed):
    """exact value of the expression in the 64-bit type (signed: Overflow when C leaves it undefined)"""
    k = e[0]

    def fit(v):
        if signed:
            if not -(1 << 63) <= v < (1 << 63):
                raise Overflow()
            return v
        return v & M64
    if k == "lit":
        return fit(e[1])
    if k == "neg":
        return fit(-ev(e[1], signed))
    if k == "not":
        return fit(~ev(e[1], signed))
    if k == "sh":
        x = ev(e[2], signed)
        if e[1] == ">>":
            return x >> e[3]
        if signed and x < 0:
            raise Overflow()
        return fit(x << e[3])
    if k == "cmp":
        x, y = ev(e[2], signed), ev(e[3], signed)
        return int(x < y) if e[1] == "<" else int(x == y)
    if k == "cond":
        return ev(e[2], signed) if ev(e[1], signed) else ev(e[3], signed)
    x, y = ev(e[2], signed), ev(e[3], signed)
    op = e[1]
    if op == "+":
        return fit(x + y)
    if op == "-":
        return fit(x - y)
    if op == "*":
        return fit(x * y)
    if op in ("/", "%"):
        if y == 0:
            raise Overflow()
        q = tdiv(x, y)
        fit(q)
        return fit(q) if op == "/" else fit(x - y * q)
    if op == "&":
        return fit(x & y)
    if op == "|":
        return fit(x | y)
    return fit(x ^ y)


def text(e, suf):
    k = e[0]
    if k == "lit":
        return f"{e[1]}{suf}"
    if k == "neg":
        return f"(-{text(e[1], suf)})"
    if k == "not":
        return f"(~{text(e[1], suf)})"
    if k == "sh":
        return f"({text(e[2], suf)} {e[1]} {e[3]})"
    if k == "cmp":
        return f"({text(e[2], suf)} {e[1]} {text(e[3], suf)})"
    if k == "cond":
        return f"({text(e[1], suf)} ? {text(e[2], suf)} : {text(e[3], suf)})"
    return f"({text(e[2], suf)} {e[1]} {text(e[3], suf)})"


def root(e):
    return e[1] if e[0] in ("bin", "sh", "cmp") else e[0]


def gen_expr(rng, depth, signed, want_op=None):
    r = rng.random()
    if depth <= 0 or (want_op is None and r < 0.25):
        x = rng.random()
        if x < 0.55:
            v = rng.choice(BIG) + rng.choice([0, 0, 1, -1, 2, -3])
        elif x < 0.8:
            v = rng.getrandbits(rng.choice([60, 61, 62, 63, 64])) | (1 << 59)
        else:
            v = rng.choice(SMALL)
        v = max(0, min(v, (1 << 63) - 1 if signed else M64))
        return ("lit", v)
    op = want_op or rng.choice(["+", "-", "*", "/", "/", "%", "%", "&", "|", "^", "neg", "not", "<<", ">>", "<", "==", "?"])
    if op == "neg":
        return ("neg", gen_expr(rng, depth - 1, signed))
    if op == "not":
        return ("not", gen_expr(rng, depth - 1, signed))
    if op in ("<<", ">>"):
        return ("sh", op, gen_expr(rng, depth - 1, signed), rng.choice([1, 3, 8, 31, 32, 33, 52, 53, 62]))
    if op in ("<", "=="):
        return ("cmp", op, gen_expr(rng, depth - 1, signed), gen_expr(rng, depth - 1, signed))
    if op == "?":
        return ("cond", gen_expr(rng, 1, signed), gen_expr(rng, depth - 1, signed), gen_expr(rng, depth - 1, signed))
    a = gen_expr(rng, depth - 1, signed)
    b = gen_expr(rng, depth - 1, signed)
    if op in ("/", "%") and rng.random() < 0.5:
        b = ("lit", rng.choice(SMALL))
    return ("bin", op, a, b)


def defined_expr(rng, depth, tkey, want_op=None):
    signed = TYPES[tkey][2]
    for _ in range(200):
        e = gen_expr(rng, depth, signed, want_op)
        try:
            return e, ev(e, signed)
        except Overflow:
            continue
    return ("lit", 7), 7


CORPUS = [
    ("ll", ("bin", "/", ("lit", (1 << 63) - 1), ("lit", 3))),
    ("ull", ("bin", "%", ("lit", M64), ("lit", 10))),
    ("ull", ("bin", "/", ("lit", M64), ("lit", 3))),
    ("l", ("bin", "%", ("lit", (1 << 63) - 1), ("lit", 1000003))),
    ("ll", ("bin", "/", ("neg", ("lit", (1 << 63) - 1)), ("lit", 7))),
    ("ll", ("bin", "%", ("neg", ("lit", (1 << 53) + 1)), ("lit", 10))),
    ("ul", ("bin", "/", ("lit", (1 << 53) + 1), ("lit", 1))),
    ("ll", ("bin", "/", ("lit", 10 ** 18 + 7), ("lit", 999999937))),
    ("ull", ("bin", "*", ("lit", (1 << 32) + 1), ("lit", (1 << 32) - 1))),
    ("ll", ("bin", "-", ("lit", (1 << 53) + 1), ("lit", 1 << 53))),
    ("ull", ("sh", ">>", ("lit", M64), 11)),
    ("ul", ("bin", "+", ("lit", M64), ("lit", 2))),
]


def build(rng, n_random, arrays=False):
    """arrays=False: globals, static locals, enumerators, case labels; arrays=True: only array sizes (a wrong, e.g. negative,
    size makes the whole unit unexecutable, so they live in a unit of their own).
    -> (C source, checks) ; checks: [("global", name, type key, value, expr text, op) | ("amount", name, n, …)
    | ("call", fname, [args], expected return, …)]"""
    lines, checks = [], []
    exprs = [(t, e, ev(e, TYPES[t][2])) for t, e in CORPUS]
    ops = ["+", "-", "*", "/", "%", "&", "|", "^", "neg", "not", "<<", ">>", "<", "==", "?"]
    for i in range(n_random):
        t = rng.choice(list(TYPES))
        e, v = defined_expr(rng, rng.choice([1, 2, 2, 3]), t, ops[i % len(ops)] if i < 2 * len(ops) else None)
        exprs.append((t, e, v))
    if arrays:
        for i, (t, e, v) in enumerate(exprs):
            cn, suf, signed = TYPES[t]
            tx = text(e, suf)
            n = (v if v >= 0 else -v) % 13 + 1
            sz = f"(({tx}) < 0{suf} ? -(({tx}) % 13{suf}) : ({tx}) % 13{suf}) + 1{suf}"
            lines.append(f"char a{i}[{sz}];")
            checks.append(("amount", f"a{i}", n, f"char a[{sz}]", root(e)))
        return "\n".join(lines) + "\n", checks
    # global initialisers
    for i, (t, e, v) in enumerate(exprs):
        cn, suf, signed = TYPES[t]
        tx = text(e, suf)
        lines.append(f"{cn} g{i} = {tx};")
        checks.append(("global", f"g{i}", t, v, tx, root(e)))
    # static locals, enumerators, array sizes: a rotating subset
    for i, (t, e, v) in enumerate(exprs[: max(12, len(exprs) // 2)]):
        cn, suf, signed = TYPES[t]
        tx = text(e, suf)
        lines.append(f"{cn} s{i}(void) {{ static {cn} v = {tx}; return v; }}")
        checks.append(("call", f"s{i}", [], v, f"static {cn} v = {tx}", root(e), t))
        small = tdiv(v, 1) % 1000 if v >= 0 else -((-v) % 1000)          # C: v % 1000
        lines.append(f"enum {{ E{i} = ({tx}) % 1000{suf} }};")
        lines.append(f"int e{i}(void) {{ return E{i}; }}")
        checks.append(("call", f"e{i}", [], small, f"enum {{ E = ({tx}) % 1000{suf} }}", root(e), "int"))
    # case labels: groups of 4 expressions of one type with distinct values
    by_t = {}
    for t, e, v in exprs:
        by_t.setdefault(t, []).append((e, v))
    k = 0
    for t, items in by_t.items():
        cn, suf, signed = TYPES[t]
        for j in range(0, len(items), 4):
            group, seen = [], set()
            for e, v in items[j:j + 4]:
                if v not in seen:
                    seen.add(v)
                    group.append((e, v))
            body = " ".join(f"case {text(e, suf)}: return {m + 1};" for m, (e, v) in enumerate(group))
            lines.append(f"int c{k}({cn} x) {{ switch (x) {{ {body} default: return 0; }} }}")
            lo, hi = (-(1 << 63), (1 << 63) - 1) if signed else (0, M64)
            for m, (e, v) in enumerate(group):
                for d in (0, 1, -1):
                    x = v + d
                    if lo <= x <= hi:
                        want = next((mm + 1 for mm, (_, vv) in enumerate(group) if vv == x), 0)
                        checks.append(("call", f"c{k}", [x], want, f"case {text(e, suf)}: (switch on {cn})", root(e), "int"))
            k += 1
    return "\n".join(lines) + "\n", checks


def run_ppci(job):
    """worker: the REAL front-end; globals' initial bytes, amounts, and ir_to_python calls"""
    from . import c01_lib as L, irgen, irrun
    from ppci import ir
    try:
        module, cap = L.compile_capture(job["src"])
    except Exception as e:  # noqa
        return {"error": f"{type(e).__name__}: {str(getattr(e, 'msg', e))[:300]}"}
    module.debug_db = None
    out = {"globals": {}, "amounts": {}, "calls": {}}
    for v in module.variables:
        out["amounts"][v.name] = v.amount
        if v.value is not None and all(isinstance(p, (bytes, bytearray)) for p in v.value):
            out["globals"][v.name] = b"".join(bytes(p) for p in v.value).hex()
    fs = {f.name: f for f in module.functions}
    entries = {n: irgen.Entry(n, [a.ty for a in f.arguments], f.return_ty, True) for n, f in fs.items() if isinstance(f, ir.Function)}
    gen = irgen.Generated(module, list(entries.values()), [])
    try:
        runner = irrun.Ir2Py(gen)
    except Exception as e:  # noqa  (e.g. a global of negative size): the globals are still reported
        runner = None
        out["ir2py_error"] = f"{type(e).__name__}: {e}"[:200]
    for name, args in job["calls"]:
        if runner is None:
            out["calls"][(name, tuple(args))] = "not run (" + out["ir2py_error"] + ")"
        else:
            out["calls"][(name, tuple(args))] = L.parse_ret(runner.run(entries[name], list(args))) if name in entries else "no such function"
    out["calls"] = [[n, list(a), r] for (n, a), r in out["calls"].items()]
    return out


def run_gcc(src, checks, workdir="/tmp"):
    """values of the same program from gcc: {("global", name): int, ("amount", name): n, ("call", name, args): int}"""
    lines = ["#include <stdio.h>", src, "int main(void) {"]
    for c in checks:
        if c[0] == "global":
            fmt = "%lld" if TYPES[c[2]][2] else "%llu"
            lines.append(f'  printf("global {c[1]} {fmt}\\n", ({"long long" if TYPES[c[2]][2] else "unsigned long long"}){c[1]});')
        elif c[0] == "amount":
            lines.append(f'  printf("amount {c[1]} %lu\\n", (unsigned long)sizeof {c[1]});')
        else:
            t = c[6]
            a = ", ".join((f"{x}ULL" if x > (1 << 63) - 1 else (f"({x}LL)" if x != -(1 << 63) else "(-9223372036854775807LL - 1)")) for x in c[2])
            if t == "int" or TYPES.get(t, ("", "", True))[2]:
                lines.append(f'  printf("call {c[1]} {" ".join(str(x) for x in c[2]) or "-"} %lld\\n", (long long){c[1]}({a}));')
            else:
                lines.append(f'  printf("call {c[1]} {" ".join(str(x) for x in c[2]) or "-"} %llu\\n", (unsigned long long){c[1]}({a}));')
    lines.append("  return 0; }")
    d = tempfile.mkdtemp(prefix="c01const", dir=workdir)
    try:
        p = os.path.join(d, "t.c")
        with open(p, "w") as fh:
            fh.write("\n".join(lines) + "\n")
        r = subprocess.run(["gcc", "-std=gnu11", "-w", "-O0", "-o", os.path.join(d, "t"), p], capture_output=True, text=True)
        if r.returncode != 0:
            return None, r.stderr[-1500:]
        q = subprocess.run([os.path.join(d, "t")], capture_output=True, text=True, timeout=120)
        out = {}
        for line in q.stdout.splitlines():
            w = line.split()
            if w[0] == "call":
                out[("call", w[1], tuple(int(x) for x in w[2:-1] if x != "-"))] = int(w[-1])
            else:
                out[(w[0], w[1])] = int(w[2])
        return out, ""
    finally:
        for fn in os.listdir(d):
            os.unlink(os.path.join(d, fn))
        os.rmdir(d)
