"""C08, ISAs other than riscv that llvm 14 can disassemble (arm, thumb, x86_64, msp430, avr, m68k, mips):
FAILING-INPUT SEARCH ONLY (nothing is proved about their architectural meaning).

For every instruction class of the ISA (live classes via translate/tables.collect) instances are built
over all register operands (one operand varied at a time around a base tuple) and boundary/random
immediates, encoded with the REAL ppci encoder and disassembled with llvm-mc; mnemonic and operands are
compared with what ppci prints after a CONSERVATIVE normalisation (case, register spelling, immediate
radix, condition-code spellings, size suffixes).  A difference is reported only when both sides show the
same mnemonic and the same number of operands and a REGISTER operand (or, for non-scaled fields, an
immediate) differs, or when the class is in the explicit per-ISA list of checked facts.  Everything else
(aliases we do not know, forms llvm 14 cannot decode, label operands, scaled immediates) is counted as
`unknown_*` in the evidence and never reported."""
import re
import subprocess
import sys
from pathlib import Path

VERIF = Path(__file__).resolve().parent.parent

ISAS = {
    "arm": dict(use_objdump=True, triple="armv7", mattr="", mc=[], nop=bytes.fromhex("00f020e3"), sentinel=bytes.fromhex("a5c0a0e3")),
    "thumb": dict(use_objdump=True, inst_n=True, triple="thumbv7em", mattr="", mc=[], nop=bytes.fromhex("c046"), sentinel=bytes.fromhex("5abe")),
    "x86_64": dict(use_objdump=True, objdump=["--x86-asm-syntax=intel"], triple="x86_64", mattr="", mc=["--output-asm-variant=1"], nop=b"\x90", sentinel=bytes.fromhex("b85a5a5a5a")),
    "msp430": dict(triple="msp430", mattr="", mc=[], nop=bytes.fromhex("0343"), sentinel=bytes.fromhex("3f405a5a")),
    "avr": dict(triple="avr", mattr="+avr6", mc=[], nop=b"\x00\x00", sentinel=bytes.fromhex("f5ea")),
    "m68k": dict(use_objdump=True, triple="m68k", mattr="", mc=[], nop=bytes.fromhex("4e71"), sentinel=bytes.fromhex("2e3c5a5a5a5a")),
    "mips": dict(use_objdump=True, triple="mipsel", mattr="", mc=[], nop=b"\x00\x00\x00\x00", sentinel=bytes.fromhex("5a5a3937")),
}

INTS = [0, 1, 2, 3, 4, 5, 7, 8, 12, 15, 16, 31, 32, 63, 64, 100, 127, 128, 255, 256, 1000, 4095, 4096, 32767, 65535,
        -1, -2, -4, -8, -128, -129, -32768]


def regen(ctx):
    sys.path.insert(0, str(VERIF / "translate"))
    import tables
    tabs, changed = tables.regen()
    ctx.tabs = tabs
    if changed:
        ctx.note("regenerated " + ", ".join(changed))


def get_tabs(ctx):
    if getattr(ctx, "tabs", None) is None:
        sys.path.insert(0, str(VERIF / "translate"))
        import tables
        ctx.tabs = tables.collect()
    return ctx.tabs


def registers_of(cls):
    try:
        regs = list(cls.all_registers())
    except Exception:  # noqa
        regs = []
    return [r for r in regs if getattr(r, "_num", None) is not None]


# displacements / nested immediates: the mod/disp8/disp32 and sign boundaries
DISPS = [0, 1, -1, 127, 128, -128, -129, 2 ** 31 - 1, -2 ** 31]
# mnemonics whose classes get the EXHAUSTIVE register x addressing-mode grid in every tier
CORE = {"mov", "lea", "add", "sub", "cmp", "push", "pop", "movzx", "movsx", "and", "or", "orr", "xor", "test",
        "ldr", "str", "ldrb", "strb", "ldrh", "strh", "lw", "sw", "lb", "sb", "movl", "movw", "movb"}


def ror32(v, n):
    n %= 32
    v &= 0xFFFFFFFF
    return ((v >> n) | (v << (32 - n))) & 0xFFFFFFFF


# every value an ARM "modified immediate" can denote: imm8 rotated right by 2*rot (4096 pairs, 3073 values)
ARM_MODIMM = sorted({ror32(i8, 2 * r) for r in range(16) for i8 in range(256)})
ARM_MODIMM_EDGE = [255, 256, 257, 260, 1020, 1024, 0xFF000000, 0x80000001, 0x3FC, 0xFF0, 0xF000000F, 0xC0000034, 0x104]
ARM_DP = {"mov", "mvn", "cmp", "cmn", "tst", "teq", "add", "sub", "and", "orr", "eor", "bic", "rsb", "adc", "sbc", "rsc"}


ARM_MODIMM_SET = frozenset(ARM_MODIMM)


def special_regs(regs):
    """first, last and the registers whose low three number bits are 4 or 5 (ModRM/SIB special cases)"""
    out = [r for k, r in enumerate(regs) if k in (0, len(regs) - 1) or (getattr(r, "num", 0) % 8) in (4, 5)]
    return out or regs


_grid_cache = {}


def grid(cls, by_cls, rng, cap, depth):
    """instances of a CONSTRUCTOR class (part of an operand): the full cartesian grid of all its registers
    and DISPS; when that exceeds `cap`, immediates are cut to {0, 1, -128, 128}, then the second and later
    register operands to `special_regs`, then sampled."""
    import itertools
    from ppci.arch.registers import Register
    key = (cls, cap)
    if key in _grid_cache:
        return _grid_cache[key]
    syn = getattr(cls, "syntax", None)
    if syn is None or depth > 3:
        return []
    pools, kinds = [], []
    for a in syn.formal_arguments:
        c = a._cls
        if a._value_map is not None:
            c = tuple(a._value_map.keys())
        if isinstance(c, tuple):
            outs = []
            for o in c:
                outs += grid(o, by_cls, rng, max(8, cap // 8), depth + 1)
            pools.append(outs); kinds.append("c")
        elif isinstance(c, type) and issubclass(c, Register):
            pools.append(registers_of(c)); kinds.append("r")
        elif c is int:
            pools.append(list(DISPS)); kinds.append("i")
        elif c is str:
            pools.append(["lbl"]); kinds.append("l")
        elif isinstance(c, type) and c in by_cls:
            pools.append(grid(c, by_cls, rng, max(8, cap // 8), depth + 1)); kinds.append("c")
        else:
            pools.append([]); kinds.append("?")
    if any(not p for p in pools):
        _grid_cache[key] = []
        return []

    def size(ps):
        n = 1
        for p in ps:
            n *= len(p)
        return n
    if size(pools) > cap:
        pools = [([0, 1, -128, 128] if k == "i" else p) for p, k in zip(pools, kinds)]
    if size(pools) > cap:
        seen_reg = False
        np_ = []
        for p, k in zip(pools, kinds):
            if k == "r" and seen_reg:
                p = special_regs(p)
            if k == "r":
                seen_reg = True
            np_.append(p)
        pools = np_
    combos = itertools.product(*pools) if pools else [()]
    combos = list(combos)
    if len(combos) > cap:
        combos = rng.sample(combos, cap)
    out = []
    for args in combos:
        try:
            out.append(cls(*args))
        except Exception:  # noqa
            pass
    _grid_cache[key] = out
    return out


def build(cls, by_cls, rng, ints, thorough, depth=0):
    """instances of the INSTRUCTION class `cls`: every value of each operand pool around two base tuples; a
    constructor operand's pool is the concatenation of the grids of ALL its alternatives (every base
    register, index register, displacement class)"""
    from ppci.arch.registers import Register
    syn = getattr(cls, "syntax", None)
    if syn is None:
        return []
    cap = 4000 if thorough else 700
    pools = []
    for a in syn.formal_arguments:
        c = a._cls
        if a._value_map is not None:
            c = tuple(a._value_map.keys())
        if isinstance(c, tuple):
            outs = []
            for o in c:
                outs += grid(o, by_cls, rng, cap, 1)
            pools.append(outs)
        elif isinstance(c, type) and issubclass(c, Register):
            pools.append(registers_of(c))
        elif c is int:
            pools.append(list(ints))
        elif c is str:
            pools.append(["lbl"])
        elif isinstance(c, type) and c in by_cls:
            pools.append(grid(c, by_cls, rng, cap, 1))
        else:
            pools.append([])
    if any(not p for p in pools):
        return []
    out, seen = [], set()

    def add(args):
        key = tuple(a if isinstance(a, (int, str)) else id(a) for a in args)
        if key in seen:
            return
        seen.add(key)
        try:
            out.append(cls(*args))
        except Exception:  # noqa
            pass
    bases = [[p[min(1, len(p) - 1)] for p in pools], [p[len(p) // 2] for p in pools]]
    for base in bases:
        add(base)
        for i, p in enumerate(pools):
            for x in p:
                a = list(base)
                a[i] = x
                add(a)
    # classes with at most two register operands: ALL register tuples (16 x 16 is tiny), incl. the high
    # registers and sp/lr/pc where the class accepts them; other operands at the base values
    import itertools
    ridx = [i for i, a in enumerate(syn.formal_arguments)
            if isinstance(a._cls, type) and issubclass(a._cls, Register) and a._value_map is None]
    if 1 <= len(ridx) <= 2:
        for combo in itertools.product(*[pools[i] for i in ridx]):
            a = list(bases[0])
            for i, x in zip(ridx, combo):
                a[i] = x
            add(a)
    if thorough:
        for _ in range(40):
            add([rng.choice(p) for p in pools])
    if not syn.formal_arguments:
        add([])
    return out


def is_core(cls):
    syn = getattr(cls, "syntax", None)
    if syn is None:
        return False
    first = next((e for e in syn.syntax if isinstance(e, str) and not e.isspace()), "")
    return first in CORE


PAD = 12


# classes on whose encodings llvm-mc 14 is known to crash (found by the bisection below; listed to save time)
LLVM_CRASHES = {"msp430": {"Push"}, "avr": {"Ldd_y", "Ldd_z", "Std_y", "Std_z"}}


class LlvmCrash(Exception):
    pass


def disassemble_once(isa, cfg, byte_strings):
    """one text (or None) per byte string, with ONE llvm-mc process for the whole list: the stream is
    instance · nop padding · sentinel · instance · …; the padding lets the decoder resynchronise after an
    undecodable or mis-sized instance, the sentinel lines split the output into one group per instance;
    the instance's text is the first line of its group if its encoding has exactly the instance's length."""
    nop, sent = cfg["nop"], cfg["sentinel"]
    lines = []
    for bs in byte_strings:
        blob = bs + nop * (PAD // len(nop)) + sent
        lines.append(" ".join("0x%02x" % x for x in blob))
    mattr = ["-mattr=" + cfg["mattr"]] if cfg["mattr"] else []
    p = subprocess.run(["llvm-mc", "--disassemble", "--show-encoding", "--triple=" + cfg["triple"], *mattr, *cfg["mc"]],
                       input="\n".join(lines) + "\n", capture_output=True, text=True)
    if p.returncode != 0:
        raise LlvmCrash(p.stderr[-200:])
    out = []
    for l in p.stdout.splitlines():
        l = l.strip().replace("\t", " ")
        if not l or l.startswith("."):
            continue
        m = re.match(r"(.*?)\s*[;#@|]+\s*encoding: \[(.*)\]", l)
        if m:
            enc = bytes(int(x, 16) for x in m.group(2).split(","))
            out.append((m.group(1).strip(), len(enc), enc))
        else:
            out.append((l, -1, b""))
    if not out:
        raise RuntimeError(f"llvm-mc {isa}: no output; {p.stderr[-300:]}")
    stext = out[-1][0]
    groups, cur = [], []
    for t, n, enc in out:
        if t == stext and n == len(sent):
            groups.append(cur); cur = []
        else:
            cur.append((t, n, enc))
    if len(groups) != len(byte_strings):
        raise RuntimeError(f"llvm-mc {isa}: {len(groups)} groups for {len(byte_strings)} instances")
    res = []
    for bs, g in zip(byte_strings, groups):
        if g and g[0][2] == bs:          # the first decoded instruction consumed exactly the instance's bytes
            res.append(g[0][0])
        else:
            res.append(None)
    return res


def disassemble_objdump(isa, cfg, byte_strings, workdir):
    """one text (or None) per byte string, two llvm processes for the whole list: every instance gets its
    own SYMBOL in a `.byte` blob (llvm-objdump restarts decoding at every symbol, so an undecodable
    instance cannot desynchronise its successors), followed by nop padding; the instance's text is the
    first instruction of its symbol if it has exactly the instance's length."""
    nop = cfg["nop"]
    lines = [".text"] + ([".thumb"] if cfg.get("inst_n") else [])
    for k, bs in enumerate(byte_strings):
        blob = bs + nop * (PAD // len(nop))
        lines.append(f"I{k}:")
        if cfg.get("inst_n") and len(blob) % 2 == 0:
            # thumb: `.byte` would be marked as data ($d) and not disassembled
            lines.append(".inst.n " + ",".join("0x%04x" % (blob[j] | blob[j + 1] << 8) for j in range(0, len(blob), 2)))
        else:
            lines.append(".byte " + ",".join(str(x) for x in blob))
    src, obj = workdir / f"{isa}.s", workdir / f"{isa}.o"
    src.write_text("\n".join(lines) + "\n")
    mattr = ["-mattr=" + cfg["mattr"]] if cfg["mattr"] else []
    p = subprocess.run(["llvm-mc", "--triple=" + cfg["triple"], *mattr, "--filetype=obj", "-o", str(obj), str(src)],
                       capture_output=True, text=True)
    if p.returncode != 0:
        raise RuntimeError(f"llvm-mc {isa}: {p.stderr[-300:]}")
    p = subprocess.run(["llvm-objdump", "-d", "-z", "--no-show-raw-insn", *cfg.get("objdump", []),
                        *(["--mattr=" + cfg["mattr"]] if cfg["mattr"] else []), str(obj)], capture_output=True, text=True)
    if p.returncode != 0:
        raise LlvmCrash(p.stderr[-200:])
    res = [None] * len(byte_strings)
    cur, first = None, None
    for l in p.stdout.splitlines():
        m = re.match(r"[0-9a-f]+ <I(\d+)>:", l)
        if m:
            cur, first = int(m.group(1)), None
            continue
        m = re.match(r"\s*([0-9a-f]+):\s+(.*)$", l)
        if m and cur is not None:
            addr, text = int(m.group(1), 16), m.group(2).strip().replace("\t", " ")
            if first is None:
                first = (addr, text)
            elif first is not True:
                if addr - first[0] == len(byte_strings[cur]) and not first[1].startswith("<unknown>"):
                    res[cur] = first[1]
                first = True
    return res


def disassemble(isa, cfg, items, ctx):
    """items: (class name, text, bytes, rel).  llvm 14 crashes on a few encodings (e.g. msp430 `push @r1`):
    the crashing instance is located by bisection and every instance of ITS CLASS is dropped
    (counted as unknown_llvm_crash), then the rest is disassembled again."""
    res = {}
    todo = list(range(len(items)))
    skip = LLVM_CRASHES.get(isa, set())
    for i in todo:
        if items[i][0] in skip:
            res[i] = "<crash>"
    align = len(cfg["nop"])
    todo = [i for i in todo if items[i][0] not in skip and len(items[i][2]) % align == 0]
    for _round in range(4):
        try:
            if cfg.get("use_objdump"):
                texts = disassemble_objdump(isa, cfg, [items[i][2] for i in todo], ctx.workdir)
            else:
                texts = disassemble_once(isa, cfg, [items[i][2] for i in todo])
            for i, t in zip(todo, texts):
                res[i] = t
            break
        except LlvmCrash:
            lo, hi = 0, len(todo)
            while hi - lo > 1:
                mid = (lo + hi) // 2
                try:
                    if cfg.get("use_objdump"):
                        disassemble_objdump(isa, cfg, [items[i][2] for i in todo[lo:mid]], ctx.workdir)
                    else:
                        disassemble_once(isa, cfg, [items[i][2] for i in todo[lo:mid]])
                    lo = mid
                except LlvmCrash:
                    hi = mid
            bad_cls = items[todo[lo]][0]
            ctx.note(f"llvm-mc {isa} crashes on '{items[todo[lo]][1]}' ({items[todo[lo]][2].hex()}): class {bad_cls} skipped")
            for i in todo:
                if items[i][0] == bad_cls:
                    res[i] = "<crash>"
            todo = [i for i in todo if items[i][0] != bad_cls]
    return [res.get(i) for i in range(len(items))]


# ---------------------------------------------------------------------------------------------
# normalisation

COND_ALIAS = {"hs": "cs", "lo": "cc"}

REG_ALIAS = {
    "arm": {"r13": "sp", "r14": "lr", "r15": "pc", "r11": "r11", "fp": "r11", "r12": "r12", "ip": "r12",
            "apsr_nzcv": "pc"},      # mrc with Rt = 15 transfers to the flags
    "thumb": {"r13": "sp", "r14": "lr", "r15": "pc"},
    "avr": {"x": "r26", "y": "r28", "z": "r30", "w": "r24"},
    "msp430": {"pc": "r0", "sp": "r1", "sr": "r2", "cg": "r3"},
    "m68k": {},
    "x86_64": {},
    "mips": {},
}
MIPS_NAMES = ["zero", "at", "v0", "v1", "a0", "a1", "a2", "a3", "t0", "t1", "t2", "t3", "t4", "t5", "t6", "t7",
              "s0", "s1", "s2", "s3", "s4", "s5", "s6", "s7", "t8", "t9", "k0", "k1", "gp", "sp", "fp", "ra"]
for k, n in enumerate(MIPS_NAMES):
    REG_ALIAS["mips"][n] = str(k)
REG_ALIAS["mips"]["s8"] = "30"

MNEMONIC_ALIAS = {
    "msp430": {"jhs": "jc", "jlo": "jnc", "jeq": "jz", "jne": "jnz"},
    "arm": {}, "thumb": {}, "avr": {}, "m68k": {}, "mips": {}, "x86_64": {},
}

# llvm spellings of instruction forms that are aliases of what ppci prints (both operands equal etc.)
FORM_ALIAS = {
    "avr": {"lsl": "add", "rol": "adc", "tst": "and", "clr": "eor"},
    "msp430": {"pop": "mov", "nop": "mov", "ret": "mov", "br": "mov", "clr": "mov", "inc": "add", "incd": "add",
               "dec": "sub", "decd": "sub", "tst": "cmp", "rla": "add", "rlc": "addc", "inv": "xor", "clrc": "bic",
               "setc": "bis", "clrz": "bic", "setz": "bis", "clrn": "bic", "setn": "bis", "dint": "bic", "eint": "bis",
               "adc": "addc", "sbc": "subc", "dadc": "dadd"},
    "mips": {"move": "addu", "nop": "sll", "b": "beq", "beqz": "beq", "bnez": "bne", "li": "addiu", "not": "nor", "negu": "subu"},
    "arm": {"lsl": "mov", "lsr": "mov", "asr": "mov", "ror": "mov", "rrx": "mov", "push": "stmdb", "pop": "ldm", "nop": "mov"},
    "thumb": {"movs": "lsls", "nop": "mov"},
    "x86_64": {}, "m68k": {"movel": "moveal", "movew": "moveaw"},
}

X86_NUM = {}
for _k, _names in enumerate([("al", "ax", "eax", "rax"), ("cl", "cx", "ecx", "rcx"), ("dl", "dx", "edx", "rdx"), ("bl", "bx", "ebx", "rbx"),
                             ("spl", "sp", "esp", "rsp"), ("bpl", "bp", "ebp", "rbp"), ("sil", "si", "esi", "rsi"), ("dil", "di", "edi", "rdi")]):
    for _n in _names:
        X86_NUM[_n] = _k
for _k in range(8, 16):
    for _n in (f"r{_k}b", f"r{_k}w", f"r{_k}d", f"r{_k}"):
        X86_NUM[_n] = _k

TOK = re.compile(r"[A-Za-z_.][\w.:]*|[-+]?0x[0-9a-fA-F]+|[-+]?\d+")


def norm_token(isa, t):
    t = t.lower()
    if re.fullmatch(r"[-+]?0x[0-9a-f]+", t):
        return ("i", int(t, 16))
    if re.fullmatch(r"[-+]?\d+", t):
        return ("i", int(t))
    t = t.lstrip("%$")
    if isa == "avr" and re.fullmatch(r"r\d+:r\d+", t):
        t = t.split(":")[1]
    t = REG_ALIAS[isa].get(t, t)
    if isa == "mips" and re.fullmatch(r"\d+", t):
        return ("r", t)
    return ("r", t)


def split(isa, text, has_label):
    """-> (mnemonic, [operand tokens])"""
    text = text.strip()
    m = re.match(r"\s*([A-Za-z_.][\w.]*)\s*(.*)", text)
    if not m:
        return None, []
    mn, rest = m.group(1).lower(), m.group(2)
    if isa == "mips":
        rest = re.sub(r"\$(\d+)", r"gpr\1", rest)           # $5 -> register 5
    if isa == "arm":
        # llvm prints a non-canonical modified immediate as `#imm8, #rot`: the value is imm8 ror rot
        rest = re.sub(r"#(\d+),\s*#(\d+)\s*$", lambda mm: "#" + str(ror32(int(mm.group(1)), int(mm.group(2)))), rest)
    if isa == "x86_64":
        rest = re.sub(r"\s+#\s.*$", "", rest)              # objdump's address comment of a rip-relative operand
        rest = re.sub(r"<[^>]*>", " ", rest)
        rest = re.sub(r"\b(byte|word|dword|qword|xmmword|tbyte|ptr)\b", " ", rest)
        rest = rest.replace(" - ", " -").replace(" + ", " ")
    rest = rest.replace("#", " ").replace("$", " ")
    toks = []
    for t in TOK.findall(rest):
        if isa == "mips" and re.fullmatch(r"gpr\d+", t):
            toks.append(("r", t[3:]))
            continue
        toks.append(norm_token(isa, t))
    if has_label:
        toks = [t for t in toks if t[0] == "r" and t[1] != "lbl"]
    return mn, toks


def norm_mnemonic(isa, mn):
    mn = mn.lower()
    if isa == "msp430":
        if mn.endswith(".w"):
            mn = mn[:-2]
    if isa in ("arm", "thumb"):
        for a, b in COND_ALIAS.items():
            if mn.endswith(a) and len(mn) > len(a) + 1:
                mn = mn[: -len(a)] + b
    if isa == "m68k":
        mn = mn.replace(".", "")
    return MNEMONIC_ALIAS[isa].get(mn, mn)


def compare(isa, ptext, ltext, has_label, vocab=frozenset()):
    """-> (verdict, detail)  verdict in agree | unknown_<why> | mismatch_<kind>"""
    if ltext is None:
        return "unknown_llvm_cannot_decode", ""
    if ltext == "<crash>":
        return "unknown_llvm_crash", ""
    pm, pt = split(isa, ptext, has_label)
    lm, lt = split(isa, ltext, has_label)
    if pm is None or lm is None:
        return "unknown_unparsed", ""
    pmn, lmn = norm_mnemonic(isa, pm), norm_mnemonic(isa, lm)
    if isa == "msp430" and any(t in (("r", "r2"), ("r", "r3")) for t in pt + lt):
        # r2/r3 as a SOURCE are the constant generators (@r2 = #4, @r2+ = #8, r3 = #0 …); llvm prints the
        # constant for two-operand forms and the register for one-operand forms
        return "unknown_constant_generator", ""
    if pmn != lmn:
        if FORM_ALIAS[isa].get(lmn) == pmn or FORM_ALIAS[isa].get(pmn) == lmn:
            return "unknown_alias_form", ""
        # llvm may print a size/condition suffix variant: same stem
        if pmn.startswith(lmn) or lmn.startswith(pmn):
            return "unknown_mnemonic_variant", f"{pm} / {lm}"
        # the bytes decode to an instruction that ppci itself prints under ANOTHER mnemonic (and no alias
        # relation is known): a different operation.  llvm's `nop` is excluded (several llvm 14 decoders
        # print it for encodings they do not understand).
        if lmn in vocab and lmn != "nop" and not has_label:
            return "mismatch_mnemonic", f"{pm} / {lm}"
        return "unknown_mnemonic", f"{pm} / {lm}"
    if pt == lt:
        return "agree", ""
    if isa == "x86_64" and len(pt) != len(lt):
        # a zero displacement is printed by ppci ('[rbp, 0]') and omitted by llvm ('[rbp]')
        pt = [t for t in pt if t != ("i", 0)]
        lt = [t for t in lt if t != ("i", 0)]
        if pt == lt:
            return "agree", ""
    pr = [t for t in pt if t[0] == "r"]
    lr = [t for t in lt if t[0] == "r"]
    pi = [t[1] for t in pt if t[0] == "i"]
    li = [t[1] for t in lt if t[0] == "i"]
    if len(pt) != len(lt):
        if pr == lr or sorted(pr) == sorted(lr):
            return "unknown_operand_count", ""
        if len(pr) == len(lr):
            return "mismatch_register", f"{pr} vs {lr}"
        return "unknown_operand_count", ""
    if pr != lr:
        if isa == "x86_64":
            hi = {"ah": "spl", "ch": "bpl", "dh": "sil", "bh": "dil"}
            if len(pr) == len(lr) and all(a == b or hi.get(a[1]) == b[1] for a, b in zip(pr, lr)):
                return "mismatch_high_byte_register_with_rex", f"{pr} vs {lr}"
            if len(pr) == len(lr) and all(a == b or X86_NUM.get(a[1]) == X86_NUM.get(b[1], -1) for a, b in zip(pr, lr)):
                return "unknown_register_width", f"{pr} vs {lr}"      # operand class too permissive: C10
        if sorted(pr) == sorted(lr):
            return "mismatch_register_order", f"{pr} vs {lr}"
        return "mismatch_register", f"{pr} vs {lr}"
    # registers agree, an immediate differs
    for a, b in zip(pi, li):
        if a == b:
            continue
        if isa == "arm" and re.sub(r"(s|eq|ne|cs|cc|mi|pl|vs|vc|hi|ls|ge|lt|gt|le|al)*$", "", pmn) in ARM_DP | {"mov", "add"} \
                and 0 <= a < 2 ** 32 and a in ARM_MODIMM_SET and not re.search(r"\b(lsl|lsr|asr|ror|rrx)\b", ltext.split(None, 1)[-1]):
            if a == b % 2 ** 32:
                continue            # llvm prints values >= 2^31 as negative numbers
            # a data-processing immediate that HAS an exact modified-immediate encoding: no truncation excuse
            return "mismatch_immediate", f"{a} vs {b}"
        if any(b == a - a % k for k in (2, 4, 8)):
            return "unknown_immediate_alignment", f"{a} vs {b}"     # low bits of a scaled offset dropped: C10's subject
        if a != 0 and b != 0 and (a % b == 0 or b % a == 0):
            return "unknown_immediate_scaled", f"{a} vs {b}"
        if (a - b) % 8 == 0:
            return "unknown_immediate_wrapped", f"{a} vs {b}"     # truncation / sign view: C10's subject
        return "mismatch_immediate", f"{a} vs {b}"
    return "unknown_other", ""


def check(ctx, only=None):
    import tempfile
    import time
    from ppci.arch.encoding import Instruction
    tabs = get_tabs(ctx)
    workdir = Path(tempfile.mkdtemp(prefix="c08llvm"))
    ctx.workdir = workdir
    try:
        for isa, cfg in ISAS.items():
            if only and isa not in only:
                continue
            t0 = time.time()
            rows = tabs["isas"][isa]["instrs"]
            by_cls = {r["cls"]: r for r in rows}
            ints = INTS if ctx.thorough else INTS[:20] + [-1, -4, -128]
            items = []
            for r in rows:
                cls = r["cls"]
                if not (isinstance(cls, type) and issubclass(cls, Instruction)):
                    continue
                if not hasattr(cls, "tokens") or getattr(cls, "syntax", None) is None:
                    continue
                cints = ints
                if isa == "arm":
                    # modified-immediate operands: drawn from the set of REPRESENTABLE values (all of them for the
                    # core classes, a sample + the edges for the rest)
                    extra = ARM_MODIMM if is_core(cls) else ctx.rng.sample(ARM_MODIMM, 300 if ctx.thorough else 40)
                    cints = list(dict.fromkeys(list(ints) + ARM_MODIMM_EDGE + list(extra)))
                insts = build(cls, by_cls, ctx.rng, cints, ctx.thorough)
                limit = None if is_core(cls) else (400 if ctx.thorough else 40)
                if isa in ("arm", "thumb") and limit is not None:
                    limit = max(limit, 600)       # keeps the full register-pair grids of arm / thumb classes
                if limit is not None and len(insts) > limit:
                    # non-core classes are sampled: the head (base tuples, first pool) plus a random rest
                    insts = insts[: limit // 2] + ctx.rng.sample(insts[limit // 2:], limit - limit // 2)
                if is_core(cls):
                    ctx.count(f"{isa}_core_class_exhaustive_grid")
                for ins in insts:
                    try:
                        text = str(ins)
                        bs = bytes(ins.encode())
                        rel = bool(ins.relocations())
                    except Exception:  # noqa
                        ctx.count(f"{isa}_encode_raises")
                        continue
                    if bs:
                        items.append((r["name"], text, bs, rel))
            if not items:
                continue
            dis = disassemble(isa, cfg, items, ctx)
            if isa == "mips":
                from ppci.arch.mips import registers as mr
                for r_ in registers_of(mr.MipsRegister):
                    REG_ALIAS["mips"][r_.name.lower()] = str(r_.num)
            vocab = frozenset(norm_mnemonic(isa, split(isa, it[1], False)[0] or "") for it in items)
            for (cname, text, bs, rel), lt in zip(items, dis):
                verdict, detail = compare(isa, text, lt, rel or "lbl" in text, vocab)
                ctx.count("eval_llvm_" + isa)
                ctx.count(f"{isa}_{verdict}")
                if verdict.startswith("mismatch"):
                    kind = verdict[len("mismatch_"):]
                    if kind == "high_byte_register_with_rex":
                        cname = "*"
                    ctx.fail(f"{isa}:{cname}:{kind}", f"{isa} '{text}' encodes {bs.hex()}, which llvm reads as '{lt}' ({detail})",
                             {"isa": isa, "cls": cname, "printed": text, "bytes": bs.hex()}, llvm=lt)
                elif verdict.startswith("unknown"):
                    ctx.extra_cov.setdefault("llvm_unknown_examples", {}).setdefault(f"{isa}_{verdict}", [])
                    ex = ctx.extra_cov["llvm_unknown_examples"][f"{isa}_{verdict}"]
                    if len(ex) < 3:
                        ex.append({"class": cname, "printed": text, "bytes": bs.hex(), "llvm": lt})
            ctx.extra_cov.setdefault("llvm_search_seconds", {})[isa] = round(time.time() - t0, 1)
    finally:
        import shutil
        shutil.rmtree(workdir, ignore_errors=True)
    ctx.extra_cov["isas_without_reference_disassembler"] = ["or1k", "xtensa", "microblaze", "mcs6500", "stm8"]
