"""placeholder (filled in below)"""


def regen(ctx):
    pass


def check(ctx):
    pass
