"""C31 regular-expression automata: correspondence of Model.Regex / Model.RegexParse with
ppci/lang/tools/regex/{parser,regex,compiler,scanner}.py and evaluation of the property on the
real code (oracles: the Lean specification Spec.Lang through the driver, and Python's re.fullmatch)."""
import contextlib
import io
import itertools
import re as pyre
import signal
import sys

PROP = "C31"
LEAN_PROPS = "PpciVerif/Props/C31.lean"
LEAN_TARGETS = ["PpciVerif.Props.C31", "Drivers.C31"]
LEVEL = "proof"
LEVEL_TEXT = (
    "Lean theorems for ALL expressions and ALL strings over ppci's alphabet (code points 0..255): nullable r <-> [] in L(r); "
    "s in L(derivative r c) <-> c::s in L(r) through every smart constructor (concatenate, logical_or incl. the SymbolSet-union "
    "shortcut, logical_and); derivative classes are pairwise disjoint, cover the alphabet, and two symbols of one class have the "
    "same derivative; hence WHENEVER compile returns (fuel suffices) running its tables with pick_transition (bisect) accepts s "
    "iff s in L(r), the error state exists (no KeyError) and is a dead state; scan emits exactly the maximal-munch tokenisation "
    "(longest non-empty prefix in L(r), repeatedly; ValueError iff stuck), also for ExpressionVector scanners with first-name "
    "priority. Parser: parse(pretty t) = meaning t for every well-formed syntax tree t, where pretty uses the minimal parentheses "
    "of the standard precedence postfix > concatenation > alternation, and L(meaning t) is the standard language of t. "
    "Termination of compile is NOT proved (and is false without ACI-normalisation: open finding). The hand model is tied to the "
    "source by a differential run on every check (all syntax trees up to size 4/5 over {a,b}, all strings up to length 5/6).")
LEVEL_NOTE = (
    "trusted: Lean kernel; axioms propext/Classical.choice/Quot.sound; the hand model <-> source correspondence is sampled "
    "(exhaustive small trees, parser fuzz, API-built expressions incl. '&'), not proved; Model.IntSet (C33) as model of IntegerSet; "
    "CPython's bisect, list.sort, tuple comparison, dict lookup by __eq__/__hash__ are modelled; Spec.Lang is validated against "
    "re.fullmatch on the same enumeration; compile's termination is not proved")
TECHNIQUE = ("Lean 4 proofs (structural induction on expressions, worklist invariant for compile, sortedness/disjointness for "
             "bisect, induction on the input for maximal munch, fuel-indexed induction for the recursive-descent parser) over a "
             "hand model + differential correspondence with the Python code + spec validation against re.fullmatch")
RULE = ("syntax trees: all trees with <= 4 (quick) / 5 (thorough) nodes over leaves a,b and operators * + ? concat |; plus trees "
        "with leaves '.', [ab], [a-c], escaped metacharacters and random larger trees; strings: all strings over {a,b} up to "
        "length 5/6 (corpus and random trees: over {a,b,c} up to 4). distinct = distinct (operation, expression text[, string]); "
        "non-trivial = expression with >= 2 operators, or an error/exception outcome, or a non-returning compile")
TRUSTED = [
    "hand models Model.Regex / Model.RegexParse of ppci/lang/tools/regex/*.py, tied by differential run on every check",
    "Model.IntSet + Proofs.IntSet (property C33) as the model of ppci.utils.integer_set.IntegerSet",
    "Spec.Lang (inductive matching relation; executable matchB proved equivalent) validated against Python re.fullmatch",
    "CPython bisect.bisect, list.sort on tuples, dict/hash lookup by structural __eq__: modelled, not verified",
]
ASSUMPTIONS = [
    "strings are over code points 0..255 (SIGMA in regex.py: 'ASCII for now'); other code points raise RuntimeError in pick_transition",
    "Regex objects are built through the public API (+ | & Kleene SymbolSet Symbol parse), not by calling Concatenation/LogicalOr/LogicalAnd directly",
    "compile is only claimed correct when it returns; a compile that does not return within the harness budget is reported (open finding)",
]

A, B, C = 97, 98, 99
FUEL = 48               # model: states expanded by compile before giving up
FAST, SLOW = 0.4, 20.0  # seconds the real compile may take (expected-to-diverge / expected-to-return)


# --------------------------------------------------------------------------- syntax trees
def trees(n, leaves):
    memo = {}

    def T(k):
        if k in memo:
            return memo[k]
        if k == 1:
            out = list(leaves)
        else:
            out = [(u, x) for u in "kpq" for x in T(k - 1)]
            for i in range(1, k - 1):
                for l in T(i):
                    for r in T(k - 1 - i):
                        out.append(("t", l, r))
                        out.append(("a", l, r))
        memo[k] = out
        return out

    return [t for k in range(1, n + 1) for t in T(k)]


def rand_tree(rng, size, leaves):
    if size <= 1:
        return rng.choice(leaves)
    if size == 2 or rng.random() < 0.3:
        return (rng.choice("kpq"), rand_tree(rng, size - 1, leaves))
    i = rng.randint(1, size - 2)
    return (rng.choice("ta"), rand_tree(rng, i, leaves), rand_tree(rng, size - 1 - i, leaves))


META = "()[].*+?|\\"
CLSMETA = "]-\\^"


def pp(k, t):
    """mirror of Model.RegexParse.pp (cross-checked against the driver on every run)"""
    tag = t[0]
    if tag == "c":
        ch = chr(t[1])
        return "\\" + ch if ch in META else ch
    if tag == "d":
        return "."
    if tag == "s":
        def ic(c):
            ch = chr(c)
            return "\\" + ch if ch in CLSMETA else ch
        return "[" + "".join(ic(a) if a == b else ic(a) + "-" + ic(b) for a, b in t[1]) + "]"
    if tag in "kpq":
        s = pp(3, t[1]) + {"k": "*", "p": "+", "q": "?"}[tag]
        return "(" + s + ")" if k > 2 else s
    if tag == "t":
        s = pp(1, t[1]) + pp(2, t[2])
        return "(" + s + ")" if k > 1 else s
    s = pp(0, t[1]) + "|" + pp(1, t[2])
    return "(" + s + ")" if k > 0 else s


def re_render(t):
    """an independent rendering for Python's re (every group parenthesised, literals via re.escape)"""
    tag = t[0]
    if tag == "c":
        return pyre.escape(chr(t[1]))
    if tag == "d":
        return "."
    if tag == "s":
        return "[" + "".join(pyre.escape(chr(a)) if a == b else pyre.escape(chr(a)) + "-" + pyre.escape(chr(b)) for a, b in t[1]) + "]"
    if tag in "kpq":
        return "(?:" + re_render(t[1]) + ")" + {"k": "*", "p": "+", "q": "?"}[tag]
    if tag == "t":
        return "(?:" + re_render(t[1]) + ")(?:" + re_render(t[2]) + ")"
    return "(?:" + re_render(t[1]) + ")|(?:" + re_render(t[2]) + ")"


def syn_enc(t):
    tag = t[0]
    if tag == "c":
        return f"c{t[1]}"
    if tag == "d":
        return "d"
    if tag == "s":
        return "s[" + ",".join(f"{a}:{b}" for a, b in t[1]) + "]"
    if tag in "kpq":
        return f"{tag}({syn_enc(t[1])})"
    return f"{tag}({syn_enc(t[1])},{syn_enc(t[2])})"


def nops(t):
    return 0 if t[0] in "cds" else 1 + sum(nops(x) for x in t[1:])


def codes(s):
    return "[" + ",".join(str(ord(c)) for c in s) + "]"


def all_strings(al, n):
    return ["".join(chr(c) for c in w) for k in range(n + 1) for w in itertools.product(al, repeat=k)]


# --------------------------------------------------------------------------- the real code
class Budget(BaseException):
    pass


@contextlib.contextmanager
def time_limit(sec):
    def h(_s, _f):
        raise Budget()
    old = signal.signal(signal.SIGALRM, h)
    signal.setitimer(signal.ITIMER_REAL, sec)
    try:
        yield
    finally:
        signal.setitimer(signal.ITIMER_REAL, 0)
        signal.signal(signal.SIGALRM, old)


NORETURN = ("RecursionError", "MemoryError", "Budget")


def show_re(e):
    n = type(e).__name__
    if n == "Epsilon":
        return "E"
    if n == "SymbolSet":
        return "S[" + ",".join(f"{a}:{b}" for a, b in e.symbols.ranges) + "]"
    if n == "Kleene":
        return "K(" + show_re(e.expr) + ")"
    return {"Concatenation": "C", "LogicalOr": "O", "LogicalAnd": "A"}[n] + "(" + show_re(e.lhs) + "," + show_re(e.rhs) + ")"


def show_set(s):
    return "[" + ",".join(f"{a}:{b}" for a, b in s.ranges) + "]"


def attempt(f, *a, limit=SLOW):
    try:
        with time_limit(limit):
            return ("ok", f(*a))
    except Budget:
        return ("err", "Budget")
    except Exception as e:  # noqa
        return ("err", type(e).__name__)


def show_prog(prog):
    tr, acc, err = prog
    return "/".join(",".join(f"{a}:{b}:{n}" for a, b, n in row) for row in tr) + " " + "".join("1" if x else "0" for x in acc) + f" {err}"


def dfa_accepts(R, prog, s):
    """whole-string acceptance computed by running the tables with scanner.pick_transition"""
    tr, acc, _err = prog
    state = 0
    for ch in s:
        state = R.scanner.pick_transition(tr, state, ord(ch))
    return bool(acc[state])


def run_scan(gen, text):
    toks = []
    cap = len(text) + 2
    try:
        with time_limit(SLOW):
            for tok in gen:
                toks.append(tok)
                if len(toks) >= cap:
                    return toks, "Endless"
    except Budget:
        return toks, "Budget"
    except Exception as e:  # noqa
        return toks, type(e).__name__
    return toks, "done"


def munch_oracle(inlang, s):
    """maximal munch with respect to a membership predicate"""
    toks, pos = [], 0
    while pos < len(s):
        best = None
        for j in range(len(s), pos, -1):
            if inlang(s[pos:j]):
                best = j
                break
        if best is None:
            return toks, "ValueError"
        toks.append(s[pos:best])
        pos = best
    return toks, "done"


def show_scan(toks, end):
    return ";".join(".".join(str(ord(c)) for c in t) for t in toks) + "!" + end


class Impl:
    def __init__(self):
        from ppci.lang.tools import regex as R
        from ppci.lang.tools.regex import regex as RX, scanner, compiler, parser
        self.R, self.RX, self.scanner = R, RX, scanner
        R.scanner = scanner


# --------------------------------------------------------------------------- inputs
def corpus_trees():
    a, b, c = ("c", A), ("c", B), ("c", C)
    d = ("c", 100)
    dig = ("s", [(48, 57)])
    out = [
        ("t", ("t", a, ("a", b, c)), d),             # a(b|c)d
        ("a", ("t", a, b), ("t", c, d)),             # ab|cd      (precedence finding)
        ("k", ("t", a, b)),                          # (ab)*
        ("k", ("d",)),                               # .*         (KeyError finding)
        ("t", ("k", a), ("k", a)),                   # a*a*       (non-termination finding)
        ("k", ("t", a, ("p", a))),                   # (aa+)*     (non-termination, exponential growth)
        ("t", ("t", ("p", dig), ("c", 104)), ("c", 105)),            # [0-9]+hi
        ("t", ("t", ("t", ("q", a), ("q", a)), a), a),               # a?a?aa
        ("t", ("t", a, ("k", ("d",))), c),                           # a.*c
        ("t", ("t", a, ("s", [(B, B), (C, C)])), d),                 # a[bc]d
        ("t", ("t", a, ("s", [(B, 100)])), ("c", 101)),              # a[b-d]e
        ("s", [(61, 61), (45, 45), (43, 43)]),                       # [=\-\+]
        ("s", [(93, 93), (92, 92), (94, 94), (A, C)]),               # [\]\\\^a-c]
        ("t", ("c", 42), ("k", ("c", 40))),                          # \*\(*
        ("a", ("a", a, b), c), ("a", a, ("a", b, c)),                # a|b|c  a|(b|c)
        ("t", a, ("t", b, c)), ("k", ("k", a)), ("q", ("p", a)),     # a(bc)  (a*)*  (a+)?
        ("t", ("k", ("a", a, b)), ("k", a)),                         # (a|b)*a*
        ("k", ("a", a, ("t", a, b))),                                # (a|ab)*
        ("c", 300),                                                  # outside SIGMA
    ]
    # shapes whose derivatives are alternations `r s | s` (an independently seeded change dropped the second alternative)
    dig0 = ("c", 48)
    for p_, q_, r_ in ((a, a, a), (a, b, a), (b, a, b), (a, b, b)):
        out += [
            ("t", ("q", p_), ("p", q_)),                 # p?q+
            ("t", ("q", p_), ("k", q_)),                 # p?q*
            ("t", ("q", ("t", p_, q_)), ("k", r_)),      # (pq)?r*
            ("t", ("k", ("t", p_, q_)), ("k", r_)),      # (pq)*r*
            ("a", ("p", p_), ("k", p_)),                 # p+|p*
            ("a", ("t", p_, ("k", q_)), ("k", q_)),      # pq*|q*
        ]
    out += [("t", ("q", dig0), ("p", dig)), ("t", ("q", ("t", dig0, ("c", 120))), ("k", ("s", [(48, 57), (A, 102)])))]   # 0?[0-9]+  (0x)?[0-9a-f]*
    seen, uniq = set(), []
    for t in out:
        if str(t) not in seen:
            seen.add(str(t))
            uniq.append(t)
    return uniq


def parser_texts(ctx):
    fixed = ["", "a", "ab|cd", "(ab)*", "a|", "|a", "()", "(", ")", "a)", "(a", "a**", "*", "+a", "[", "[]", "[a", "[a-]", "[a-",
             "[b-a]", "[a-a]", "[^a]", "[^", "\\", "a\\", "\\\\", "[\\]]", "[a-\\]]", "(a|b)c", "a|b|c", "a(b|c)*d", "((a))", "(a)(b)",
             "a?b", "[0-9]+", "a.c", ".*", "a*a*", "[-a]", "[a-c-e]", "a|)", "(a|)", "(|a)", "a||b", "a)b|c", "[=\\-\\+]", "a?a?a?aaa"]
    al = "ab|*+?().[]-^\\"
    out = list(fixed)
    if ctx.thorough:
        small = "a|*()[]-\\"
        for k in range(1, 5):
            out += ["".join(w) for w in itertools.product(small, repeat=k)]
    for _ in range(20000 if ctx.thorough else 2500):
        out.append("".join(ctx.rng.choice(al) for _ in range(ctx.rng.randint(1, 9))))
    return out


def re_to_syn(e):
    """a syntax tree that denotes the same language as a real Regex object (None when the surface
    syntax cannot express it: NULL, a bare EPSILON operand, LogicalAnd)"""
    n = type(e).__name__
    if n == "SymbolSet":
        rs = list(e.symbols.ranges)
        if not rs:
            return None
        return ("c", rs[0][0]) if len(rs) == 1 and rs[0][0] == rs[0][1] else ("s", [tuple(r) for r in rs])
    if n == "Kleene":
        x = re_to_syn(e.expr)
        return x and ("k", x)
    if n == "LogicalOr":
        if type(e.rhs).__name__ == "Epsilon":
            x = re_to_syn(e.lhs)
            return x and ("q", x)
        if type(e.lhs).__name__ == "Epsilon":
            x = re_to_syn(e.rhs)
            return x and ("q", x)
    if n in ("Concatenation", "LogicalOr"):
        l, r = re_to_syn(e.lhs), re_to_syn(e.rhs)
        return l and r and (("t" if n == "Concatenation" else "a"), l, r)
    return None


def concat_bits(strs, bx, by):
    X = {w for w, c in zip(strs, bx) if c == "1"}
    Y = {w for w, c in zip(strs, by) if c == "1"}
    return "".join("1" if any(w[:i] in X and w[i:] in Y for i in range(len(w) + 1)) else "0" for w in strs)


SMART = {"O": ("logical_or", "union"), "A": ("logical_and", "intersection"), "C": ("concatenate", "concatenation")}
PAL, PLEN = (A, B), 6     # strings for the property of single operator calls


def job_reqs(jobs):
    out = []
    for key, e, se, al, n, t in jobs:
        alst = "[" + ",".join(map(str, al)) + "]"
        out.append(f"auto {FUEL} {se} {n} {alst}")
        out.append(f"langmany {se} {n} {alst}")
        out.append(f"specmany {syn_enc(t)} {n} {alst}" if t is not None else f"langmany {se} {n} {alst}")
    return out


def eval_jobs(ctx, R, jobs, out):
    """the property on the real code for every job; `out` = driver replies to job_reqs(jobs)"""
    k = 0
    for key, e, se, al, n, t in jobs:
        m_auto, m_lang, m_spec = out[k:k + 3]
        k += 3
        if m_auto.startswith("ok "):
            m_compile, m_acc, m_scan = m_auto.split(" | ")
            m_acc, m_scan = "ok " + m_acc, "ok " + m_scan
        else:
            m_compile = m_acc = m_scan = m_auto
        strs = all_strings(al, n)
        diverges = m_compile == "err Fuel"
        pr = attempt(R.compile, e, limit=FAST if diverges else SLOW)
        ctx.count("eval_compile")
        if nops(t) >= 2 if t is not None else True:
            ctx.nontrivial("compile " + key)
        i_compile = "ok " + show_prog(pr[1]) if pr[0] == "ok" else "err " + ("Fuel" if pr[1] in NORETURN else pr[1])
        if i_compile != m_compile:
            ctx.disagree("compile", key, i_compile[:300], m_compile[:300])
        # the Lean specification of the tree vs. re.fullmatch (spec validation) and vs. the parsed object
        spec_bits = m_spec[3:]
        if t is not None:
            rp = pyre.compile(re_render(t), pyre.S)
            try:   # CPython's backtracking matcher explodes on nested loops such as (((a*)+)+)+
                with time_limit(1.0):
                    ref = "".join("1" if rp.fullmatch(s) else "0" for s in strs)
                ctx.count("eval_spec_vs_re", len(strs))
            except Budget:
                ref = spec_bits
                ctx.count("re_fullmatch_gave_up_backtracking")
            if ref != spec_bits:
                j = next(i for i in range(len(strs)) if ref[i] != spec_bits[i:i + 1])
                ctx.disagree("spec-vs-re.fullmatch", {"tree": syn_enc(t), "string": strs[j]}, ref[j], spec_bits[j:j + 1])
            if m_lang[3:] != spec_bits:
                j = next(i for i in range(len(strs)) if m_lang[3 + i] != spec_bits[i])
                ctx.fail("parse:language-differs-from-standard-reading",
                         f"parse({key!r}) = {se} does not denote the standard language of the expression (string {strs[j]!r}; the parser or a smart constructor it calls)",
                         key, string=strs[j], parsed=se)
                continue
        lang = {s: c == "1" for s, c in zip(strs, spec_bits)}
        if pr[0] != "ok":
            if pr[1] in NORETURN:
                ctx.fail("compile:does-not-return", f"compile({key!r}) does not return ({pr[1]})", key, how=pr[1])
                ctx.nontrivial("noreturn " + key)
            else:
                ctx.fail(f"compile:raises-{pr[1]}", f"compile({key!r}) raised {pr[1]}", key)
            continue
        prog = pr[1]
        bits = []
        for s in strs:
            try:
                bits.append("1" if dfa_accepts(R, prog, s) else "0")
            except Exception as ex:  # noqa
                bits.append("R")
                ctx.fail(f"accept:raises-{type(ex).__name__}", f"running the tables of {key!r} on {s!r} raised {type(ex).__name__}", key, string=s)
        bits = "".join(bits)
        ctx.count("eval_accept", len(strs))
        if m_acc.startswith("ok") and bits != m_acc[3:]:
            ctx.disagree("accepts", key, bits[:200], m_acc[3:203])
        if bits != spec_bits:
            j = next(i for i in range(len(strs)) if bits[i] != spec_bits[i:i + 1])
            ctx.fail("accept:automaton-differs-from-language",
                     f"compile({key!r}) {'accepts' if bits[j] == '1' else ('rejects' if bits[j] == '0' else 'fails on')} {strs[j]!r}, the expression does {'' if spec_bits[j] == '1' else 'not '}denote it",
                     key, string=strs[j])
        # scanner
        sc_model = m_scan[3:].split(" ") if m_scan.startswith("ok") else None
        for j, s in enumerate(strs):
            tk, end = run_scan(R.scan(prog, s), s)
            ctx.count("eval_scan")
            got = show_scan(tk, end)
            if sc_model is not None and got != sc_model[j]:
                ctx.disagree("scan", {"regex": key, "text": s}, got, sc_model[j])
            want = munch_oracle(lambda w: lang.get(w, False), s)
            if (tk, end) != want:
                sig = "scan:endless-empty-tokens" if end == "Endless" else ("scan:not-maximal-munch" if end in ("done", "ValueError") else f"scan:raises-{end}")
                ctx.fail(sig, f"scan(compile({key!r}), {s!r}) = {tk} {end}, maximal munch gives {want[0]} {want[1]}", {"regex": key, "text": s})
                break
    return k


# --------------------------------------------------------------------------- the check
def check(ctx):
    I = Impl()
    R, RX = I.R, I.RX
    NMAX = 5 if ctx.thorough else 4
    SLEN = 6 if ctx.thorough else 5
    a, b = ("c", A), ("c", B)

    # (tree, alphabet, max string length)
    work = [(t, (A, B, C), 4) for t in corpus_trees()]
    work += [(t, (A, B), SLEN) for t in trees(NMAX, [a, b])]
    rich = [a, b, ("d",), ("s", [(A, A), (B, B)]), ("s", [(A, C)])]
    work += [(t, (A, B, C), 4) for t in trees(3 if ctx.thorough else 2, rich) if any(x in str(t) for x in ("'d'", "'s'"))]
    leaves = rich + [("c", C), ("c", 42), ("c", 40), ("c", 92), ("s", [(45, 45), (93, 93)])]
    for _ in range(400 if ctx.thorough else 60):
        work.append((rand_tree(ctx.rng, ctx.rng.randint(5, 9), leaves), (A, B, C), 4))

    # ---- pass 1: parse on both sides, expression-level operations -----------------------
    reqs, expect, meta, objs = [], [], [], []

    def ask(line, impl, what, case, obj=None):
        reqs.append(line)
        expect.append(impl)
        meta.append((what, case))
        objs.append(obj)

    parsed = []
    for t, al, n in work:
        txt = pp(0, t)
        r = attempt(R.parse, txt)
        parsed.append(r)
        ask(f"pretty {syn_enc(t)}", "ok " + codes(txt), "pretty", txt)
        ask(f"parse {codes(txt)}", "ok " + show_re(r[1]) if r[0] == "ok" else "err " + r[1], "parse", txt)
        if r[0] != "ok":
            ctx.fail("parse:rejects-supported-syntax", f"parse({txt!r}) raised {r[1]}", txt)
            continue
        e = r[1]
        # the theorem instance parse(pretty t) = meaning t, on the real code
        ask(f"meaning {syn_enc(t)}", "ok " + show_re(e), "parse=meaning", txt)
        seen = set()
        todo = [e]
        # expression-level operations on e and on its first two levels of derivatives
        for depth in range(3):
            nxt = []
            for x in todo:
                sx = show_re(x)
                if sx in seen or len(sx) > 600:
                    continue
                seen.add(sx)
                ask(f"nullable {sx}", "ok " + str(bool(x.nullable())), "nullable", sx)
                cl = attempt(x.derivative_classes)
                ask(f"classes {sx}", "ok " + ";".join(show_set(s) for s in cl[1]) if cl[0] == "ok" else "err " + cl[1], "classes", sx)
                for c in (A, B, C, 0, 255, 256):
                    dx = x.derivative(c)
                    ask(f"deriv {sx} {c}", "ok " + show_re(dx), "deriv", (sx, c), (x, c, dx))
                    if c in (A, B):
                        nxt.append(dx)
            todo = nxt

    # smart constructors through the public operators, incl. '&'
    pool = [R.EPSILON, R.NULL, RX.SIGMA, R.Symbol("a"), R.Symbol("b"), R.SymbolSet([(A, C)]), R.Kleene(R.Symbol("a")),
            R.Symbol("a") + R.Symbol("b"), R.Symbol("a") | R.EPSILON, (R.Symbol("a") + R.Symbol("b")) & R.Kleene(RX.SIGMA)]
    pool += [p[1] for p in parsed[:40] if p[0] == "ok"]
    api, smart_calls = [], []
    # fixed part: absorption-like shapes  (x y) op y,  y op (x y),  (x|y) op y  over a small base
    sa, sb = R.Symbol("a"), R.Symbol("b")
    basis = [R.EPSILON, sa, sb, R.Kleene(sa), R.Kleene(sb), sa | R.EPSILON, sa + sb]
    fixed_calls = []
    for x0 in basis:
        for y0 in basis:
            fixed_calls += [("O", x0 + y0, y0), ("O", y0, x0 + y0), ("A", x0 + y0, y0), ("O", x0 | y0, y0), ("C", x0 | y0, y0)]
    n_random = 1500 if ctx.thorough else 300
    for it in range(len(fixed_calls) + n_random):
        if it < len(fixed_calls):
            op, x, y = fixed_calls[it]
        else:
            x, y = ctx.rng.choice(pool), ctx.rng.choice(pool)
            op = ctx.rng.choice("OAC")
        z = {"O": lambda: x | y, "A": lambda: x & y, "C": lambda: x + y}[op]()
        ask(f"smart {op} {show_re(x)} {show_re(y)}", "ok " + show_re(z), "smart", (op, show_re(x), show_re(y)), (op, x, y, z))
        if len(show_re(z)) <= 160:
            smart_calls.append((op, x, y, z))
        if len(show_re(z)) < 300 and len(pool) < 200:
            pool.append(z)
        if op == "A" and len(api) < (60 if ctx.thorough else 15) and type(z).__name__ == "LogicalAnd":
            api.append(z)

    # parser fuzz (error behaviour included)
    for txt in parser_texts(ctx):
        r = attempt(R.parse, txt)
        ask(f"parse {codes(txt)}", "ok " + show_re(r[1]) if r[0] == "ok" else "err " + r[1], "parse", txt)
        if r[0] == "err" and r[1] not in ("ValueError", "NotImplementedError"):
            ctx.fail(f"parse:internal-error-{r[1]}", f"parse({txt!r}) raised {r[1]} (not a diagnostic)", txt)

    # ---- pass 2 requests: compile / accept / scan / spec ---------------------------------
    jobs = []   # (kind, key, expr, sexpr, alphabet, n, tree)
    for (t, al, n), r in zip(work, parsed):
        if r[0] == "ok":
            jobs.append((pp(0, t), r[1], show_re(r[1]), al, n, t))
    for z in api:
        jobs.append(("api:" + show_re(z), z, show_re(z), (A, B, C), 4, None))
    base = len(reqs)
    reqs += job_reqs(jobs)

    # vector scanners
    vec_cases = [({"identifier": "[a-z]+", "space": " +", "operator": "[=\\-\\+]", "number": "[0-9]+"}, "bla = 99 + fu- 1"),
                 ({"kw": "ab", "id": "[ab]+"}, "abab abba"), ({"kw": "ab", "id": "[ab]+"}, "abbaab"),
                 ({"id": "[ab]+", "kw": "ab"}, "ab"), ({"x": "a*", "y": "b"}, "aabab"), ({"x": "a*", "y": "b"}, "c")]
    toks = ["a", "b", "ab", "a+", "b*a", "[ab]", "a|b", "(ab)+", "a?b", "ba*"]
    for _ in range(150 if ctx.thorough else 30):
        names = ctx.rng.sample(toks, ctx.rng.randint(1, 3))
        vec_cases.append(({f"t{i}": p for i, p in enumerate(names)}, "".join(ctx.rng.choice("ab") for _ in range(ctx.rng.randint(0, 7)))))
    vec_impl, vec_done = [], []
    for spec, text in vec_cases:
        exprs = [attempt(R.parse, p) for p in spec.values()]
        names = list(spec.keys())
        bad = [p for p, x in zip(spec.values(), exprs) if x[0] != "ok"]
        if bad:
            ctx.fail("parse:rejects-supported-syntax", f"parse({bad[0]!r}) raised {exprs[list(spec.values()).index(bad[0])][1]}", bad[0])
            continue
        vec_done.append((spec, text))
        with contextlib.redirect_stdout(io.StringIO()):
            sc = attempt(R.make_scanner, spec)
        if sc[0] != "ok":
            vec_impl.append("err " + ("Fuel" if sc[1] in NORETURN else sc[1]))
        else:
            tk, end = run_scan(sc[1].scan(text), text)
            vec_impl.append("ok " + ";".join(f"{names.index(nm)}:" + ".".join(str(ord(c)) for c in tx) for nm, tx in tk) + "!" + end)
            # property: maximal munch with first-name priority, reference = re.fullmatch
            pats = list(spec.values())
            want, pos, wend = [], 0, "done"
            while pos < len(text):
                best = None
                for j in range(len(text), pos, -1):
                    hit = [i for i, p in enumerate(pats) if pyre.fullmatch(p, text[pos:j], pyre.S)]
                    if hit:
                        best = (hit[0], j)
                        break
                if best is None:
                    wend = "ValueError"
                    break
                want.append((names[best[0]], text[pos:best[1]]))
                pos = best[1]
            ctx.count("eval_scanvec")
            if (tk, end) != (want, wend):
                ctx.fail("scanner:not-maximal-munch", f"Scanner({spec}).scan({text!r}) = {tk} {end}, maximal munch gives {want} {wend}",
                         {"tokens": spec, "text": text})
        reqs.append("scanvec %d %s %s" % (FUEL, ";".join(show_re(x[1]) for x in exprs), codes(text)))

    # the property of every single smart-constructor call: languages of operands and result (Lean Spec matcher)
    vec_end = len(reqs)
    palst = "[" + ",".join(map(str, PAL)) + "]"
    lang_idx = {}
    for op, x, y, z in smart_calls:
        for w in (x, y, z):
            sw = show_re(w)
            if sw not in lang_idx:
                lang_idx[sw] = len(reqs)
                reqs.append(f"langmany {sw} {PLEN} {palst}")

    out = ctx.driver("C31", reqs)

    # ---- compare pass 1 -------------------------------------------------------------------
    follow = []      # calls on which model and implementation differ: the failing-input search follows them
    for rq, i, m, (what, case), obj in zip(reqs[:base], expect, out[:base], meta, objs):
        ctx.count("eval_" + what.replace("=", "_"))
        if i != m:
            ctx.disagree(what, rq[:400], i[:400], m[:400])
            if obj is not None and len(follow) < 40:
                follow.append((what, obj))
        if i.startswith("err") or rq.count("(") >= 2:
            ctx.nontrivial(rq[:200])

    # ---- pass 2: the property on the real code ----------------------------------------------
    k = base + eval_jobs(ctx, R, jobs, out[base:])

    # ---- every smart-constructor call denotes union / intersection / concatenation -------------
    pstrs = all_strings(PAL, PLEN)

    def check_smart(op, x, y, z, bx, by, bz):
        ctx.count("eval_smart_language")
        want = {"O": lambda: "".join("1" if p == "1" or q == "1" else "0" for p, q in zip(bx, by)),
                "A": lambda: "".join("1" if p == "1" and q == "1" else "0" for p, q in zip(bx, by)),
                "C": lambda: concat_bits(pstrs, bx, by)}[op]()
        if bz != want:
            j = next(i for i in range(len(pstrs)) if bz[i] != want[i])
            fn, kind = SMART[op]
            ctx.fail(f"{fn}:language-differs",
                     f"{fn}({show_re(x)}, {show_re(y)}) = {show_re(z)} does not denote the {kind} of the operands' languages (string {pstrs[j]!r})",
                     {"op": op, "x": show_re(x), "y": show_re(y)}, string=pstrs[j], result=show_re(z))

    for op, x, y, z in smart_calls:
        check_smart(op, x, y, z, *(out[lang_idx[show_re(w)]][3:] for w in (x, y, z)))

    # ---- follow the disagreements: the property on the very call, and on small expressions built from its operands ----
    if follow:
        freqs, fjobs, fmeta, seen_txt = [], [], [], set()

        def add_tree(t):
            if t is None or nops(t) > 14:
                return
            txt = pp(0, t)
            if txt in seen_txt:
                return
            seen_txt.add(txt)
            r = attempt(R.parse, txt)
            if r[0] == "ok":
                fjobs.append((txt, r[1], show_re(r[1]), (A, B, C) if "c" in txt or "[" in txt else (A, B), 4 if "c" in txt or "[" in txt else 5, t))
            else:
                ctx.fail("parse:rejects-supported-syntax", f"parse({txt!r}) raised {r[1]}", txt)

        for what, obj in follow:
            if what == "smart":
                op, x, y, z = obj
                for w in (x, y, z):
                    fmeta.append(None)
                    freqs.append(f"langmany {show_re(w)} {PLEN} {palst}")
                fmeta[-3] = ("smart", obj)
                tx, ty = re_to_syn(x), re_to_syn(y)
                if tx and ty:
                    comb = ("a", tx, ty) if op == "O" else ("t", tx, ty)
                    for t in (comb, ("t", ("q", tx), ty), ("t", ("k", tx), ty), ("t", ("q", ty), tx), ("k", comb), ("t", comb, ("k", ty))):
                        add_tree(t)
            else:
                x, c, dx = obj
                for w in (x, dx):
                    fmeta.append(None)
                    freqs.append(f"langmany {show_re(w)} {PLEN} {palst}")
                fmeta[-2] = ("deriv", obj)
                tx = re_to_syn(x)
                if tx:
                    for t in (tx, ("q", tx), ("t", ("q", ("c", A)), tx), ("t", ("k", ("c", B)), tx), ("k", tx)):
                        add_tree(t)
        nl = len(freqs)
        fout = ctx.driver("C31", freqs + job_reqs(fjobs))
        j = 0
        while j < nl:
            kind, obj = fmeta[j]
            if kind == "smart":
                check_smart(*obj, fout[j][3:], fout[j + 1][3:], fout[j + 2][3:])
                j += 3
            else:
                x, c, dx = obj
                bx, bd = fout[j][3:], fout[j + 1][3:]
                j += 2
                ctx.count("eval_deriv_language")
                if 0 <= c < 256 and c in PAL:
                    pos = {w: i for i, w in enumerate(pstrs)}
                    for w in pstrs:
                        if len(w) < PLEN and bd[pos[w]] != bx[pos[chr(c) + w]]:
                            ctx.fail("derivative:language-differs",
                                     f"derivative({show_re(x)}, {chr(c)!r}) = {show_re(dx)}: {w!r} is {'' if bd[pos[w]] == '1' else 'not '}in its language but {chr(c) + w!r} is {'' if bx[pos[chr(c) + w]] == '1' else 'not '}in the expression's",
                                     {"x": show_re(x), "c": c}, string=w)
                            break
        eval_jobs(ctx, R, fjobs, fout[nl:])
        ctx.count("followed_disagreements", len(follow))

    # vector scanners: correspondence
    for (spec, text), i, m in zip(vec_done, vec_impl, out[k:vec_end]):
        if i != m:
            ctx.disagree("scanvec", {"tokens": spec, "text": text}, i, m)
    ctx.sample({"regex": "a(b|c)d", "impl_parse": expect[1], "model_parse": out[1]})
    ctx.sample({"regex": jobs[30][0], "model_compile": out[base + 90].split(" | ")[0][:200]})
    ctx.extra_cov["exhaustive"] = True
    ctx.extra_cov["exhaustive_domain"] = f"syntax trees <= {NMAX} nodes over leaves a,b x strings over {{a,b}} of length <= {SLEN}"
    ctx.extra_cov["trees"] = len(work)
    ctx.extra_cov["fuel"] = FUEL


def replay(ctx, rp):
    check(ctx)
