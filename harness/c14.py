"""C14 object files and archives survive save and load.

Correspondence of Model.ObjSer (lean/PpciVerif/Model/ObjSer.lean) with
ppci/binutils/{objectfile,archive,debuginfo}.py and ppci/utils/binary_txt.py, and
evaluation of the property on the real code: every generated object is saved to
real JSON text, loaded again and compared with the original by an explicit field
walk (`walk_obj`, never `==`: ObjectFile.__eq__ ignores entry symbol, arch and
debug info); archives likewise; sets of real objects are linked before and after
the reload and the results compared byte for byte.
"""
import io
import json
import zlib

PROP = "C14"
TITLE = "Object files and archives survive save and load"
LEAN_PROPS = "PpciVerif/Props/C14.lean"
LEAN_TARGETS = ["PpciVerif.Props.C14", "Drivers.C14"]
LEVEL = "proof"
LEVEL_TEXT = (
    "Lean theorems over a hand model of objectfile.serialize/deserialize, debuginfo's DictSerializer/DictDeserializer, "
    "bin2asc/asc2bin, hex()/make_num and Archive.save/load, for ALL objects, byte strings and integers: "
    "deserialize(serialize o) = o as a record (hence field by field: arch, entry symbol, sections with name/address/alignment/data, "
    "symbols, relocations incl. negative addends, images with their sections, debug locations/types/variables/functions incl. "
    "base-type encoding and stack-slot size) for every well-formed o (distinct section names, symbol ids and global names; "
    "relocation and image sections exist; undefined symbols carry no section; debug type references registered) whose debug-type "
    "table the loader's get_type traversal accepts (one open finding: a type cycle entered through a pointer/array raises KeyError); "
    "asc2bin(bin2asc b) = b for all byte lists (both sides of the 30-byte chunk rule); make_num(hex n) = n for all integers; "
    "Archive.load(save a) = a. JSON text <-> tree is Python's json module (trusted). 'Linking reloaded objects gives identical "
    "output' is evaluated on the real linker on every run, not proved (it follows from record equality only as far as the linker "
    "reads nothing but the compared fields)."
)
LEVEL_NOTE = (
    "trusted: Lean kernel; axioms propext/Classical.choice/Quot.sound; Python's json text layer; the harness' field walk that turns a "
    "live ObjectFile/DebugInfo object graph into the record (types by position in DebugInfo.types); get_arch(make_id_str()) is an "
    "assumption checked on every target; hand model <-> source correspondence is sampled (real asm/cc/c3c/link outputs for "
    "arm/x86_64/riscv/msp430 + generated objects + malformed JSON), not proved"
)
TECHNIQUE = "Lean 4 proof (structural induction over the record/JSON tree, invariant on the type-id assignment) over a hand model + differential correspondence with the Python code through real JSON text"
RULE = (
    "objects: outputs of ppci.api asm/cc/c3c/link for generated sources on several targets (some with debug=True), plus directly "
    "constructed ObjectFile instances (unicode/quoted names, data sizes around the 30-byte chunk limit and large, negative "
    "addresses/addends, undefined and absolute symbols, images, entry symbol, empty sections, debug info with struct/pointer/array "
    "type graphs incl. cycles), plus malformed JSON trees for the loader. distinct = distinct (op, request line) sent to the model; "
    "non-trivial = object with >=1 relocation or symbol or debug info, chunked data, negative number, or an error outcome"
)
TRUSTED = [
    "hand model Model.ObjSer of objectfile.py serialize/deserialize, debuginfo.py DictSerializer/DictDeserializer, binary_txt.py, "
    "archive.py, common.make_num and builtin hex(); tied by differential run on every check",
    "Python json module (dump with sort_keys/indent, load): JSON text <-> tree of dict/list/str/int/None is not modelled",
    "binascii.hexlify/unhexlify modelled as two lowercase hex digits per byte / pairs of hex digits (either case)",
    "harness field walk walk_obj/walk_debug (object graph -> record; debug types identified by position in DebugInfo.types)",
]
ASSUMPTIONS = [
    "get_arch(arch.make_id_str()) returns an architecture of the same class with the same id string (checked on every registered target on every run)",
    "pass-through fields (symbol typ/size, source locations, names inside debug info) hold JSON-representable values (None/bool/int/str) for which json.loads(json.dumps(v)) == v",
    "int(s, 16) / int(s) are modelled on plain digit strings (optional sign for base 10); Python additionally accepts '_' and surrounding blanks, which hex() never emits",
    "SourceLocation.source (cached source text) and the derived lookup dicts symbol_map/section_map/image_map are not compared",
    "well-formedness of the object (see LEVEL_TEXT) is what ObjectFile's own API enforces on construction (create_section, add_symbol, add_relocation, add_type)",
]

TARGETS_QUICK = ["arm", "x86_64", "riscv"]
TARGETS_THOROUGH = ["arm", "x86_64", "riscv", "msp430", "avr", "xtensa", "or1k", "m68k", "arm:thumb", "riscv:rvc", "microblaze", "mips", "stm8"]

# --------------------------------------------------------------------------------------
# field walk: live object graph -> record (plain JSON-able tree)
# --------------------------------------------------------------------------------------


def walk_section(s):
    return {"name": s.name, "address": s.address, "alignment": s.alignment, "data": bytes(s.data).hex()}


def walk_symbol(s):
    return {"id": s.id, "name": s.name, "binding": s.binding, "value": s.value, "section": s.section, "typ": s.typ, "size": s.size}


def walk_reloc(r):
    return {"type": r.reloc_type, "symbol_id": r.symbol_id, "section": r.section, "offset": r.offset, "addend": r.addend}


def walk_srcloc(l):
    return {"filename": l.filename, "row": l.row, "col": l.col, "length": l.length}


def walk_addr(a):
    from ppci.binutils import debuginfo as D
    if isinstance(a, D.DebugAddress):
        return {"kind": "fixed", "symbol_id": a.symbol_id}
    if isinstance(a, D.FpOffsetAddress):
        return {"kind": "fprel", "offset": a.offset.offset, "size": a.offset.size}
    if isinstance(a, D.UnknownAddress):
        return {"kind": "unknown"}
    raise TypeError("address " + type(a).__name__)


class TypeIndex:
    """Debug types are identified by position in DebugInfo.types (object identity);
    types that are referenced but not registered get indices >= len(types) in discovery order."""

    def __init__(self, types):
        self.pos = {}
        self.n = len(types)
        for i, t in enumerate(types):
            self.pos.setdefault(id(t), i)
        self.keep = list(types)

    def ref(self, t):
        k = id(t)
        if k not in self.pos:
            self.pos[k] = self.n + sum(1 for v in self.pos.values() if v >= self.n)
            self.keep.append(t)
        return self.pos[k]


def walk_type(t, ti):
    from ppci.binutils import debuginfo as D
    if isinstance(t, D.DebugBaseType):
        return {"kind": "base", "name": t.name, "size": t.size, "encoding": t.encoding}
    if isinstance(t, D.DebugStructType):
        return {"kind": "struct", "fields": [{"name": f.name, "type": ti.ref(f.typ), "offset": f.offset} for f in t.fields]}
    if isinstance(t, D.DebugArrayType):
        return {"kind": "array", "element_type": ti.ref(t.element_type), "size": t.size}
    if isinstance(t, D.DebugPointerType):
        return {"kind": "pointer", "pointed_type": ti.ref(t.pointed_type)}
    raise TypeError("type " + type(t).__name__)


def walk_var(v, ti):
    return {"name": v.name, "type": ti.ref(v.typ), "loc": walk_srcloc(v.loc), "address": walk_addr(v.address)}


def walk_debug(di):
    ti = TypeIndex(di.types)
    return {
        "locations": [{"loc": walk_srcloc(l.loc), "address": walk_addr(l.address)} for l in di.locations],
        "types": [walk_type(t, ti) for t in di.types],
        "variables": [walk_var(v, ti) for v in di.variables],
        "functions": [{
            "name": f.name, "loc": walk_srcloc(f.loc), "return_type": ti.ref(f.return_type),
            "arguments": [{"name": a.name, "type": ti.ref(a.typ)} for a in f.arguments],
            "begin": walk_addr(f.begin), "end": walk_addr(f.end),
            "variables": [walk_var(v, ti) for v in f.variables]} for f in di.functions],
    }


def walk_obj(o):
    return {
        "arch": o.arch.make_id_str(),
        "entry": o.entry_symbol_id,
        "sections": [walk_section(s) for s in o.sections],
        "symbols": [walk_symbol(s) for s in o.symbols],
        "relocations": [walk_reloc(r) for r in o.relocations],
        "images": [{"name": i.name, "address": i.address, "sections": [walk_section(s) for s in i.sections]} for i in o.images],
        "debug": None if o.debug_info is None else walk_debug(o.debug_info),
    }


def diff_paths(a, b, path=""):
    """Paths (list indices replaced by []) at which two record trees differ."""
    if type(a) is not type(b):
        return [path or "."]
    if isinstance(a, dict):
        out = []
        for k in sorted(set(a) | set(b)):
            if k not in a or k not in b:
                out.append(f"{path}.{k}")
            else:
                out += diff_paths(a[k], b[k], f"{path}.{k}")
        return out
    if isinstance(a, list):
        if len(a) != len(b):
            return [path + ".len"]
        out = []
        for x, y in zip(a, b):
            out += diff_paths(x, y, path + "[]")
        return out
    return [] if a == b else [path or "."]


# --------------------------------------------------------------------------------------
# line protocol: JSON-like tree <-> one line of blank-separated tokens
#   n | t | f | i<int> | r<raw ascii> | s<cp.cp.cp> | [ ... ] | { key value ... }
# --------------------------------------------------------------------------------------
_RAW_OK = set("abcdefghijklmnopqrstuvwxyzABCDEFGHIJKLMNOPQRSTUVWXYZ0123456789_.:-")


def enc(v, out):
    if v is None:
        out.append("n")
    elif v is True:
        out.append("t")
    elif v is False:
        out.append("f")
    elif isinstance(v, int):
        out.append(f"i{v}")
    elif isinstance(v, str):
        if v and all(c in _RAW_OK for c in v):
            out.append("r" + v)
        else:
            out.append("s" + ".".join(str(ord(c)) for c in v))
    elif isinstance(v, (list, tuple)):
        out.append("[")
        for x in v:
            enc(x, out)
        out.append("]")
    elif isinstance(v, dict):
        out.append("{")
        for k in sorted(v):
            assert isinstance(k, str) and k and all(c in _RAW_OK for c in k), k
            out.append(k)
            enc(v[k], out)
        out.append("}")
    else:
        raise TypeError(f"cannot encode {type(v).__name__}")
    return out


def encode(v):
    return " ".join(enc(v, []))


def decode(text):
    toks = text.split(" ")
    pos = 0

    def rd():
        nonlocal pos
        t = toks[pos]
        pos += 1
        if t == "n":
            return None
        if t == "t":
            return True
        if t == "f":
            return False
        if t == "[":
            xs = []
            while toks[pos] != "]":
                xs.append(rd())
            pos += 1
            return xs
        if t == "{":
            d = {}
            while toks[pos] != "}":
                k = toks[pos]
                pos += 1
                d[k] = rd()
            pos += 1
            return d
        if t[0] == "i":
            return int(t[1:])
        if t[0] == "r":
            return t[1:]
        if t[0] == "s":
            return "".join(chr(int(c)) for c in t[1:].split(".")) if len(t) > 1 else ""
        raise ValueError("bad token " + t)

    v = rd()
    if pos != len(toks):
        raise ValueError("trailing tokens")
    return v


# --------------------------------------------------------------------------------------
# generators
# --------------------------------------------------------------------------------------
NAMES = ["code", "data", ".text", "a b", 'q"uo\'te', "üñí-cødé", "中文", "back\\slash", "tab\there", "", "x" * 70, "nul\u0000in", "\U0001F600"]


def rnd_name(rng):
    r = rng.random()
    if r < 0.5:
        return rng.choice(["code", "data", "bss", "rodata", "main", "f", "g", "_start", "vec"]) + str(rng.randrange(50))
    if r < 0.8:
        return rng.choice(NAMES) + str(rng.randrange(50))
    return "".join(chr(rng.choice([rng.randrange(32, 127), rng.randrange(0xA0, 0x2FF), rng.randrange(0x4E00, 0x4F00)])) for _ in range(rng.randint(1, 12)))


def rnd_int(rng, signed=True):
    r = rng.random()
    if r < 0.3:
        v = rng.choice([0, 1, 2, 4, 8, 15, 16, 17, 255, 256, 0x1000, 0x7FFFFFFF, 0x80000000, 0xFFFFFFFF, 1 << 64, (1 << 64) - 1])
    elif r < 0.7:
        v = rng.randrange(0, 1 << rng.randint(1, 40))
    else:
        v = rng.getrandbits(rng.randint(1, 100))
    if signed and rng.random() < 0.35:
        v = -v
    return v


def rnd_data(rng, big=False):
    r = rng.random()
    if r < 0.15:
        n = 0
    elif r < 0.55:
        n = rng.choice([1, 2, 29, 30, 31, 59, 60, 61, 90, 91])
    elif r < 0.95 or not big:
        n = rng.randint(0, 200)
    else:
        n = rng.randint(2000, 120000)
    return bytes(rng.getrandbits(8) for _ in range(n)) if n < 5000 else rng.randbytes(n)


def gen_debug(rng, sym_ids, wild=False):
    """A DebugInfo with a random type graph.  wild=True also produces pointer-first cycles
    (the open finding) and non-default encodings / slot sizes."""
    from ppci.binutils import debuginfo as D
    from ppci.common import SourceLocation
    from ppci.arch.stack import StackLocation
    di = D.DebugInfo()
    types = []

    def loc():
        return SourceLocation(rng.choice([None, "", "a.c", "dir/ü.c3", 'we"ird.c']), rng.randint(1, 500), rng.randint(1, 80), rng.randint(0, 20))

    def addr():
        r = rng.random()
        if r < 0.4 and sym_ids:
            return D.DebugAddress(rng.choice(sym_ids))
        if r < 0.5:
            return D.DebugAddress(rng.randint(0, 1000))
        if r < 0.85:
            return D.FpOffsetAddress(StackLocation(rng.randint(-400, 400), rng.choice([1, 1, 2, 4, 8, 12, 40])))
        return D.UnknownAddress()

    nt = rng.randint(0, 8)
    structs = []
    for _ in range(nt):
        r = rng.random()
        if r < 0.45 or not types:
            t = D.DebugBaseType(rng.choice(["int", "char", "void", "double", "ünt", "long long"]), rng.choice([0, 1, 2, 4, 8]),
                                rng.choice([1, 1, 1, 2, 5, 7]))
        elif r < 0.65:
            t = D.DebugStructType()
            structs.append(t)
        elif r < 0.85:
            t = D.DebugPointerType(rng.choice(types))
        else:
            t = D.DebugArrayType(rng.choice(types), rng.randint(0, 40))
        types.append(t)
    # struct fields may refer to any type (forward, backward, self): cycles go through structs
    for s in structs:
        off = 0
        for k in range(rng.randint(0, 4)):
            ft = rng.choice(types)
            s.add_field(rng.choice(["next", "v", "fld%d" % k, "π"]), ft, off)
            off += rng.choice([1, 2, 4, 8])
    order = list(types)
    if wild:
        rng.shuffle(order)          # may put a pointer before the struct it cycles through
    for t in order:
        di.add_type(t)
    if types:
        for _ in range(rng.randint(0, 4)):
            di.add_variable(D.DebugVariable(rnd_name(rng), rng.choice(types), loc(), address=addr() if rng.random() < 0.8 else None))
        for _ in range(rng.randint(0, 3)):
            args = [D.DebugParameter(rng.choice(["a", "b", "argc", "ä"]), rng.choice(types)) for _ in range(rng.randint(0, 3))]
            vs = [D.DebugVariable(rnd_name(rng), rng.choice(types), loc(), address=addr()) for _ in range(rng.randint(0, 3))]
            di.add_function(D.DebugFunction(rnd_name(rng), loc(), rng.choice(types), args, begin=addr(), end=addr(), variables=vs))
    for _ in range(rng.randint(0, 6)):
        di.add_location(D.DebugLocation(loc(), address=addr()))
    return di


def gen_object(rng, arch_name="arm", big=False, debug=None, wild_debug=False):
    """A directly constructed, well-formed ObjectFile (built through the public API)."""
    from ppci.api import get_arch
    from ppci.binutils.objectfile import ObjectFile, Image, RelocationEntry
    o = ObjectFile(get_arch(arch_name))
    names = []
    for _ in range(rng.randint(0, 5)):
        n = rnd_name(rng)
        if n in names:
            continue
        names.append(n)
        s = o.create_section(n)
        s.address = rnd_int(rng)
        s.alignment = rng.choice([1, 2, 4, 4, 8, 16, 0x1000, rnd_int(rng, False)])
        s.add_data(rnd_data(rng, big))
    sym_ids = []
    gnames = set()
    nid = rng.choice([0, 0, 1, 100])
    for _ in range(rng.randint(0, 8)):
        name = rnd_name(rng)
        binding = rng.choice(["global", "local", "local"])
        if binding == "global" and name in gnames:
            continue
        gnames.add(name) if binding == "global" else None
        kind = rng.random()
        if kind < 0.25:
            value, section = None, None                              # undefined
        elif kind < 0.4 or not names:
            value, section = rnd_int(rng), None                      # absolute
        else:
            value, section = rnd_int(rng, rng.random() < 0.2), rng.choice(names)
        o.add_symbol(nid, name, binding, value, section, rng.choice(["object", "func", "object", None]), rng.choice([0, 0, 4, rnd_int(rng, False), None]))
        sym_ids.append(nid)
        nid += rng.choice([1, 1, 1, 3])
    if names:
        for _ in range(rng.randint(0, 8)):
            sid = rng.choice(sym_ids) if sym_ids and rng.random() < 0.9 else rng.randint(0, 500)
            o.add_relocation(RelocationEntry(rng.choice(["abs32", "b_imm24", "rel8", "weird type"]), sid, rng.choice(names), rnd_int(rng, False), rnd_int(rng)))
        inames = []
        for _ in range(rng.randint(0, 3)):
            n = rnd_name(rng)
            if n in inames:
                continue
            inames.append(n)
            img = Image(n, rnd_int(rng))
            for sn in rng.sample(names, rng.randint(0, len(names))):
                img.add_section(o.get_section(sn))
            o.add_image(img)
    if sym_ids and rng.random() < 0.5:
        o.entry_symbol_id = rng.choice(sym_ids)
    elif rng.random() < 0.1:
        o.entry_symbol_id = 0
    if debug is None:
        debug = rng.random() < 0.5
    if debug:
        o.debug_info = gen_debug(rng, sym_ids, wild=wild_debug)
    return o


C_TEMPLATES = [
    "int g{n} = {k};\nint f{n}(int a, int b) {{ return a * {k} + b - g{n}; }}\n",
    "char buf{n}[{m}];\nextern int ext{n}(int);\nint h{n}(int x) {{ int i, s = 0; for (i = 0; i < x; i++) s += ext{n}(i) + buf{n}[i % {m}]; return s; }}\n",
    "static int t{n}[] = {{1, 2, {k}, 4}};\nint k{n}(int i) {{ switch (i) {{ case 0: return t{n}[1]; case {k}: return -1; default: return t{n}[i & 3]; }} }}\n",
    "struct s{n} {{ int a; char b; struct s{n} *next; }};\nstruct s{n} v{n};\nint w{n}(struct s{n} *p) {{ int c = 0; while (p) {{ c += p->a; p = p->next; }} return c + v{n}.b; }}\n",
]
C3_TEMPLATES = [
    "module m{n};\nvar int g{n};\nfunction int f{n}(int a, byte b) {{ var int x; x = a + b * {k}; g{n} = x; return x; }}\n",
    "module m{n};\ntype struct {{ int v; node{n}* next; byte c; }} node{n};\nvar node{n} head{n};\nvar int[{m}] tab{n};\n"
    "function int s{n}(int i) {{ var node{n} q; var int[3] arr; q.v = i; arr[1] = tab{n}[i]; head{n}.next = &q; return q.v + arr[1]; }}\n",
    "module m{n};\nfunction void e{n}() {{ var int i; i = 0; while (i < {k}) {{ i = i + 1; }} }}\n",
]
ASM = {
    "arm": "section code\nglobal a{n}\na{n}:\nmov r0, {k}\nb a{n}\nbl ext{n}\nsection data\nd{n}:\ndd {k}\ndd a{n}\n",
    "x86_64": "section code\nglobal a{n}\na{n}:\nmov rax, {k}\njmp a{n}\ncall ext{n}\nsection data\nd{n}:\ndq a{n}\n",
    "riscv": "section code\nglobal a{n}\na{n}:\naddi x1, x2, {k}\nj a{n}\njal x1, ext{n}\nsection data\nd{n}:\ndd {k}\n",
    "msp430": "section code\nglobal a{n}\na{n}:\nmov.w #{k}, r4\njmp a{n}\ncall #ext{n}\nsection data\nd{n}:\ndw {k}\n",
}


def real_objects(ctx, arch):
    """Objects from the real assembler / compilers / linker for one target."""
    from ppci.api import asm, cc, c3c, link
    rng = ctx.rng
    out = []

    def attempt(kind, f):
        try:
            o = f()
        except Exception as e:  # a target that cannot compile a template is not C14's business
            ctx.count(f"skip_{kind}_{type(e).__name__}")
            return None
        out.append((f"{kind}:{arch}", o))
        return o

    n = rng.randrange(1000)
    k = rng.randint(1, 120)
    m = rng.randint(2, 40)
    cobjs = []
    for i, tpl in enumerate(C_TEMPLATES):
        src = tpl.format(n=n + i, k=k, m=m)
        dbg = (i + ctx.seed) % 2 == 0
        o = attempt("cc-dbg" if dbg else "cc", lambda: cc(io.StringIO(src), arch, debug=dbg, opt_level=rng.choice([0, 2])))
        if o is not None:
            cobjs.append(o)
    for i, tpl in enumerate(C3_TEMPLATES):
        src = tpl.format(n=n + i, k=k, m=m)
        dbg = (i + ctx.seed) % 2 == 1 or i == 1
        o = attempt("c3c-dbg" if dbg else "c3c", lambda: c3c([io.StringIO(src)], [], arch, debug=dbg))
        if o is not None:
            cobjs.append(o)
    base = arch.split(":")[0]
    if base in ASM:
        o = attempt("asm", lambda: asm(io.StringIO(ASM[base].format(n=n, k=k)), arch))
        if o is not None:
            cobjs.append(o)
    groups = []
    if len(cobjs) >= 2:
        groups.append(cobjs)
        groups.append(cobjs[:2])
        for dbg in (False, True):
            lo = attempt("link-partial-dbg" if dbg else "link-partial", lambda: link(cobjs, partial_link=True, debug=dbg))
        layout = "MEMORY flash LOCATION=0x1000 SIZE=0x40000 { SECTION(code) ALIGN(8) SECTION(data) }\nMEMORY ram LOCATION=0x20000000 SIZE=0x8000 { SECTION(bss) }"
        exts = {}
        for o in cobjs:
            for s in o.symbols:
                if s.undefined:
                    exts[s.name] = 0x1234
        defined = {s.name for o in cobjs for s in o.symbols if s.defined}
        exts = {a: b for a, b in exts.items() if a not in defined}
        entry = next((s.name for s in cobjs[0].symbols if s.defined and s.is_global), None)
        attempt("link-image", lambda: link(cobjs, layout=io.StringIO(layout), extra_symbols=exts, entry=entry, debug=True))
    return out, groups


def all_arch_names():
    from ppci.arch.target_list import target_class_map
    names = []
    for name, cls in sorted(target_class_map.items()):
        names.append(name)
        for opt in getattr(cls, "option_names", ()):
            names.append(f"{name}:{opt}")
    return names
